"""Parallel map over chunks (fork pool) for the bounded tier."""
import multiprocessing as mp
import os


def pmap(func, chunks, procs=None):
    chunks = list(chunks)
    procs = procs or min(16, os.cpu_count() or 1, max(1, len(chunks)))
    if procs <= 1 or os.environ.get("VERIF_SERIAL"):
        return [func(c) for c in chunks]
    ctx = mp.get_context("fork")
    with ctx.Pool(procs) as pool:
        return pool.map(func, chunks, chunksize=1)

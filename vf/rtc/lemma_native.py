"""The property lemmas (vf/proplemmas) executed natively: each harness is an ordinary Python function over the real classes, so it is
also RUN on generated inputs, and its contract's postconditions are evaluated on the real results with the runtime monitor's clause
evaluator (bounded stand-in; validates the lemma statements and the contracts they rest on against the real code)."""
import importlib

import numpy as np
import pandas as pd

from . import monitor


def _inputs(name, rng):
    """generated argument tuples for one harness (dict of parameter name -> value)"""
    from formulae.terms.variable import Variable
    from formulae.terms.call import Call               # noqa: F401
    from formulae.transforms import Center, Scale, BSpline
    n = int(rng.integers(3, 12))
    x = rng.normal(size=n) * 3 + 1
    rows = rng.integers(0, n, size=int(rng.integers(1, 8))).astype(int)
    levels = ["b", "a", "c", "d"][: int(rng.integers(1, 5))]
    g = pd.Series(list(rng.choice(levels, size=n)) + levels)[-n:].reset_index(drop=True) if n >= len(levels) else pd.Series(levels)
    if name.endswith("center_rows"):
        return dict(t=Center(), x=x, rows=rows)
    if name.endswith("scale_rows"):
        return dict(t=Scale(), x=x, rows=rows)
    if name.endswith("bspline_rows"):
        deg = int(rng.integers(0, 4))
        return dict(t=BSpline(), x=x, rows=rows, df=deg + 1 + int(rng.integers(0, 3)), knots=None, degree=deg, intercept=bool(rng.integers(0, 2)),
                    lower_bound=None, upper_bound=None)
    if name.endswith("categoric_rows"):
        v = Variable("g")
        v.kind = "categoric"
        rr = rng.integers(0, len(g), size=int(rng.integers(1, 8))).astype(int)
        return dict(v=v, x=g, spans_intercept=bool(rng.integers(0, 2)), rows=rr)
    if name.endswith("main_effect"):
        v = Variable("g")
        v.kind = "categoric"
        return dict(v=v, x=g, spans_intercept=bool(rng.integers(0, 2)))
    if name.endswith("pair_interaction"):
        a, b = Variable("g"), Variable("h")
        a.kind = b.kind = "categoric"
        h = pd.Series(list(rng.choice(["p", "q", "r"], size=len(g))))
        return dict(a=a, b=b, xa=g, xb=h)
    if name.endswith("constant_offset"):
        return dict(x=[2.5, -3.0, 0.0, 7, float(rng.normal())][int(rng.integers(0, 5))], size=int(rng.integers(0, 9)))
    if name.endswith("merge_step"):
        from formulae.contrasts import ExpandedFactor, Subterm
        pool = [ExpandedFactor(bool(rng.integers(0, 4) == 0), f) for f in rng.choice(["f", "g", "h", "k"], size=int(rng.integers(1, 5)), replace=False)]
        lo = Subterm(pool)
        mode = int(rng.integers(0, 3))
        if mode == 0:          # exactly one element less
            sh = Subterm(pool[:-1])
        elif mode == 1:        # some subset
            sh = Subterm([e for e in pool if rng.integers(0, 2)])
        else:                  # same size, one factor coded differently
            sh = Subterm([ExpandedFactor(not pool[0].includes_intercept, pool[0].factor)] + pool[1:-1])
        return dict(long=lo, short=sh)
    if name.endswith("scan_then_parse"):
        from ..props.C01 import _random_sentences
        import random
        return dict(code=_random_sentences(random.Random(int(rng.integers(0, 10 ** 6))), 1)[0] or "y ~ x")
    return None


def run(seed=0, rounds=12):
    """Returns (executions, clauses checked, failures[list of str])."""
    import logging
    import warnings
    logging.getLogger("formulae").setLevel(logging.CRITICAL)
    warnings.simplefilter("ignore")
    lc = importlib.import_module("vf.contracts.lemmas_c")
    reg = lc.REG
    rng = np.random.default_rng(seed)
    execs = checked = 0
    fails = []
    for q in lc.FUNCTIONS:
        c = reg.contracts[q]
        real = (c.of or q).split("#")[0]
        if "#" in q:
            continue
        modname, fname = real.rsplit(".", 1)
        fn = getattr(importlib.import_module(modname), fname)
        for _ in range(rounds):
            env = _inputs(real, rng)
            if env is None:
                break
            try:
                if not all(monitor._truth(eval(monitor.Clause(r if isinstance(r, str) else r[0]).code, monitor._namespace(c, env, []))) for r in c.requires):
                    continue
            except Exception:
                continue
            try:
                result = fn(**env)
            except Exception as ex:                    # noqa: BLE001
                if type(ex).__name__ in c.raises:
                    continue
                fails.append(f"{real}: raised {type(ex).__name__}: {ex} on {monitor._describe(env)}")
                continue
            execs += 1
            for cl in c.ensures:
                src = cl if isinstance(cl, str) else cl[0]
                try:
                    good = monitor._truth(eval(monitor.Clause(src).code, monitor._namespace(c, env, [], result, True, set())))
                except Exception:
                    continue
                checked += 1
                if not good:
                    fails.append(f"{real}: lemma clause '{src[:120]}' is false for {monitor._describe(env)}")
    return execs, checked, fails

"""ext-valid: every assumed external contract (numpy / scipy / pandas / stdlib models of vf/pyvc) is also an
executable statement; it is run against the real library on random small inputs at the start of each proof run.
A failure means the axiom is wrong (checker failure, exit 3) - not that the repository is."""
import itertools
import random

import numpy as np
import pandas as pd
from scipy import linalg


def run(seed=0, rounds=40):
    rnd = random.Random(seed)
    rng = np.random.default_rng(seed)
    fails = []
    n_checks = 0

    def ok(name, cond):
        nonlocal n_checks
        n_checks += 1
        if not cond:
            fails.append(name)
    for _ in range(rounds):
        n, m, p = rnd.randint(1, 5), rnd.randint(1, 4), rnd.randint(1, 4)
        A = rng.integers(-3, 4, size=(n, m)).astype(float)
        B = rng.integers(-3, 4, size=(n, p)).astype(float)
        v = rng.integers(-3, 4, size=n).astype(float)
        k = rnd.randint(-n - 1, n + 1)
        # allocation and shapes
        ok("eye", np.array_equal(np.eye(n, dtype=int), [[1 if i == j else 0 for j in range(n)] for i in range(n)]))
        ok("zeros/ones", np.zeros((1, m)).shape == (1, m) and not np.zeros((1, m)).any() and np.ones(n).shape == (n,) and np.ones(n).all())
        ok("empty shape", np.empty((n, m)).shape == (n, m))
        # basic slicing clips like python slices
        lo = max(0, min(n, k + n if k < 0 else k))
        ok("slice[:k]", np.array_equal(A[:k, :], A[list(range(0, lo))]) and np.array_equal(A[k:, :], A[list(range(lo, n))]))
        ok("newaxis", v[:, np.newaxis].shape == (n, 1) and np.array_equal(v[:, np.newaxis][:, 0], v))
        ok("column", np.array_equal(A[:, m - 1], [A[i][m - 1] for i in range(n)]) and np.array_equal(A[:, -1], A[:, m - 1]))
        # models used by BSpline._initialize
        w = rng.normal(size=rnd.randint(1, 7)) * rnd.choice([1, 100]) + rnd.choice([0, 1e3])
        nk = rnd.randint(0, 5)
        lin = np.linspace(0, 1, nk + 2)
        ok("linspace", len(lin) == nk + 2 and lin[0] == 0 and np.all((0 <= lin) & (lin <= 1)) and len(lin[1:-1]) == nk
           and np.allclose(lin, [i / (nk + 1) for i in range(nk + 2)]))
        pc = np.percentile(w, 100 * np.asarray(lin[1:-1]))
        ok("percentile", pc.shape == (nk,) and np.all(pc >= np.min(w)) and np.all(pc <= np.max(w)) and
           np.array_equal(pc, np.percentile(np.array(w), 100 * np.asarray(lin[1:-1]))))
        o = rnd.randint(1, 4)
        cat = np.concatenate(([w[0], 7.5] * o, pc))
        ok("concatenate/list*int", cat.shape == (2 * o + nk,) and all(cat[2 * i] == w[0] and cat[2 * i + 1] == 7.5 for i in range(o))
           and np.array_equal(cat[2 * o:], pc) and [1.5, 2.5] * 0 == [] and [1.5] * -1 == [])
        srt = cat.copy()
        r_ = srt.sort()
        ok("ndarray.sort", r_ is None and srt.shape == cat.shape and np.all(srt[:-1] <= srt[1:]) and sorted(cat.tolist()) == srt.tolist())
        msk = w > np.median(w)
        ok("mask read", w[msk].ndim == 1 and 0 <= len(w[msk]) <= len(w) and np.any(msk) == bool(len(w[msk])))
        # row selection of a Series (helper of the property lemmas) is positional, with repeats, in the order asked for
        ser = pd.Series(list(rng.integers(0, 4, size=n)), index=[f"i{q % 2}" for q in range(n)])
        sel = [rnd.randrange(n) for _ in range(rnd.randint(0, 6))]
        got = ser.iloc[[int(q) for q in sel]]
        ok("series.iloc[rows]", len(got) == len(sel) and all(got.iloc[i] == ser.iloc[sel[i]] for i in range(len(sel))))
        # splev with a unit coefficient vector is a function of the point, the knots, the degree and the index only (row-local)
        from scipy.interpolate import splev as _splev
        dg = rnd.randint(0, 3)
        kn = np.sort(np.concatenate(([0.0, 1.0] * (dg + 1), rng.uniform(0, 1, size=rnd.randint(0, 3)))))
        nb = len(kn) - (dg + 1)
        e_ = np.zeros(nb)
        ei = rnd.randrange(nb)
        e_[ei] = 1
        xs = rng.uniform(0, 1, size=rnd.randint(1, 6))
        pick = [rnd.randrange(len(xs)) for _ in range(rnd.randint(1, 5))]      # (splev refuses an empty vector: modelled for n >= 1 only)
        full = _splev(xs, (kn, e_, dg))
        ok("splev row-local", np.allclose(_splev(xs[pick], (kn, e_, dg)), full[pick]) and
           all(np.isclose(float(_splev(xs[q], (kn, e_, dg))), full[q]) for q in range(len(xs))))
        # stacking
        V = np.vstack((A[:lo, :], np.zeros((1, m)), A[lo:, :]))
        ok("vstack", V.shape == (n + 1, m) and np.array_equal(V[:lo], A[:lo]) and not V[lo].any() and np.array_equal(V[lo + 1:], A[lo:]))
        ok("vstack vectors", np.array_equal(np.vstack([v, v * 2]).T, np.column_stack([v, v * 2])))
        C = np.column_stack((np.ones(n), A))
        ok("column_stack (vector, matrix)", C.shape == (n, m + 1) and C[:, 0].all() and np.array_equal(C[:, 1:], A))
        parts = [A, v, B]
        W = [m, 1, p]
        S = np.column_stack(parts)
        off = [0, m, m + 1, m + 1 + p]
        ok("column_stack widths add up, blocks in order",
           S.shape == (n, sum(W)) and np.array_equal(S[:, off[0]:off[1]], A) and np.array_equal(S[:, off[1]], v) and np.array_equal(S[:, off[2]:off[3]], B))
        cols = [A[:, j] * B[:, l] for j in range(m) for l in range(p)]
        ok("column_stack of vectors", np.array_equal(np.column_stack(cols)[:, 1 * p + 0] if m > 1 else cols[0], A[:, 1 if m > 1 else 0] * B[:, 0]))
        # region assignment
        out = np.empty((n + 1, m))
        out[:lo, :] = A[:lo, :]
        out[lo, :] = -1
        out[lo + 1:, :] = A[lo:, :]
        ok("region writes", np.array_equal(out[:lo], A[:lo]) and (out[lo] == -1).all() and np.array_equal(out[lo + 1:], A[lo:]))
        # fancy indexing / np.copy allocate
        idx = rng.integers(0, n, size=rnd.randint(1, 6))
        F = A[idx]
        F[0, 0] += 100
        ok("fancy row indexing allocates", np.array_equal(A[idx][1:], F[1:]) and A[idx[0], 0] != F[0, 0])
        Cc = np.copy(idx)
        Cc[0] = -7
        ok("np.copy allocates", idx[0] != -7)
        mask = rng.integers(0, 2, size=n).astype(bool)
        G = A.copy()
        G[mask] = 0
        ok("row mask write", all((not G[i].any()) if mask[i] else np.array_equal(G[i], A[i]) for i in range(n)))
        G = A.copy()
        G[mask, -1] = 1
        ok("mask/column write", all(G[i, m - 1] == (1 if mask[i] else A[i, m - 1]) for i in range(n)) and np.array_equal(G[:, :m - 1], A[:, :m - 1]))
        ok("any(axis=1), ~", np.array_equal(~A.any(axis=1), [not any(A[i][j] != 0 for j in range(m)) for i in range(n)]))
        ok("np.where", np.array_equal(np.where(mask, 1, 0), [1 if b else 0 for b in mask]))
        ok("broadcast (n,p) op (p,)", np.array_equal(A / (np.arange(m) + 1.0), [[A[i][j] / (j + 1.0) for j in range(m)] for i in range(n)]))
        # khatri_rao: K[i*p + k, c] = A[i, c] * B[k, c]
        J = rng.integers(0, 2, size=(n, m)).astype(float)
        Z = linalg.khatri_rao(J.T, B.T).T
        ok("khatri_rao", Z.shape == (n, m * p) and all(Z[r, g * p + l] == J[r, g] * B[r, l] for r in range(n) for g in range(m) for l in range(p)))
        # mod / comparisons
        x = rng.choice([0.0, 1.0, 2.5, 3.0, -1.0, 0.25], size=n)
        ok("np.mod(x, 1) == 0 iff integer", np.array_equal(np.mod(x, 1) == 0, [float(t).is_integer() for t in x]))
        ok("np.less_equal", np.array_equal(np.less_equal(v, x), [a <= b for a, b in zip(v, x)]))
        # pandas categorical codes, sets
        levels = rnd.sample(["a", "b", "c", "d", "e"], rnd.randint(1, 4))
        xs = [rnd.choice(["a", "b", "c", "d", "e", "zz"]) for _ in range(n)]
        codes = pd.Categorical(pd.Series(xs), categories=levels).codes
        ok("Categorical codes", list(codes) == [levels.index(t) if t in levels else -1 for t in xs])
        ok("set difference", bool(set(pd.Series(xs)) - set(levels)) == any(t not in levels for t in xs))
        ser = pd.Series(xs)
        ok("series == value", list(ser == xs[0]) == [t == xs[0] for t in xs] and sum(ser == "never") == 0)
        ok("sorted unique", sorted(ser.unique().tolist())[0] == min(xs))
        lst = [rnd.choice("abc") for _ in range(n)]
        ok("list.index", all(lst.index(t) == min(i for i, u in enumerate(lst) if u == t) for t in set(lst)))
        ok("str.split", "a.b.c".split(".") == ["a", "b", "c"] and "abc".split(".") == ["abc"])
    # the finite-set model of vf/pyvc/sets.py (contrasts_c): the ground cardinality facts, and sets of real ExpandedFactor objects
    # behaving like sets of their (flag, factor) field tuples - the datatype EF the proofs use for membership
    from formulae.contrasts import ExpandedFactor
    for _ in range(rounds):
        pool = [(rnd.random() < 0.5, rnd.choice(["f", "g", "h", "k"])) for _ in range(rnd.randint(0, 6))]
        a = frozenset(pool)
        b = frozenset(t for t in a if rnd.random() < 0.6)
        x = (rnd.random() < 0.5, rnd.choice(["f", "g", "h", "k", "m"]))
        ok("set len", len(a) >= 0 and (len(a) == 0) == (a == frozenset()))
        d = a.difference(b)
        ok("set difference card", 0 <= len(d) <= len(a) and (not b <= a or len(d) == len(a) - len(b)) and d == a - b)
        s2 = set(a)
        s2.add(x)
        ok("set add card", len(s2) == len(a) + (0 if x in a else 1) and s2 == a | {x} and set(a) == a and set(a) is not a)
        one = frozenset([x])
        ok("singleton", len(one) == 1 and one == {list(one)[0]} and list(one)[0] == next(iter(one)))
        ok("issuperset", a.issuperset(b) == all(t in a for t in b) == (b <= a))
        A_ = frozenset(ExpandedFactor(fl, fa) for fl, fa in pool)
        B_ = frozenset(ExpandedFactor(fl, fa) for fl, fa in b)
        ok("EF sets as field tuples", len(A_) == len(a) and {(e.includes_intercept, e.factor) for e in A_} == a
           and (ExpandedFactor(*x) in A_) == (x in a) and A_.issuperset(B_) == a.issuperset(b)
           and {(e.includes_intercept, e.factor) for e in A_.difference(B_)} == a - b
           and (A_ == B_) == (a == b) and (hash(A_) == hash(B_) or a != b))
    from ..pyvc.chars import validate_class_axioms
    ok("character-class axioms (all code points < 0x3000)", not validate_class_axioms())
    return n_checks, fails

"""Executable specification of the term algebra (C02): `expand` over the parser's AST.

Independent of formulae/terms/*: it reads only the syntax tree built by scanner+parser (whose
shape C01 pins down) and the property statement.
A model value is (terms, icpt): `terms` an ordered duplicate-free list of items, an item being a
tuple of factor names (common term) or ('|', effect, factor) with effect a tuple or 'ICPT';
icpt is +1 (intercept explicitly added), -1 (removed) or 0 (not mentioned).
"""
import itertools

from formulae.expr import Assign, Grouping, Binary, Unary, Call, Variable, QuotedName, Literal


class OutOfLanguage(Exception):
    """The formula is outside the documented language the property quantifies over."""


def dedupe(seq):
    out = []
    for x in seq:
        if x not in out:
            out.append(x)
    return out


def call_text(e):
    """Normalised source text of a call atom (single spaces, ', ' between arguments)."""
    if isinstance(e, Call):
        return call_text(e.callee) + "(" + ", ".join(call_text(a) for a in e.args) + ")"
    if isinstance(e, Variable):
        return e.name.lexeme
    if isinstance(e, QuotedName):
        return e.expression.lexeme[1:-1]
    if isinstance(e, Literal):
        return e.lexeme if e.lexeme is not None else str(e.value)
    if isinstance(e, Binary):
        return call_text(e.left) + " " + e.operator.lexeme + " " + call_text(e.right)
    if isinstance(e, Unary):
        return e.operator.lexeme + call_text(e.right)
    if isinstance(e, Grouping):
        return call_text(e.expression)     # the code drops parentheses from names (C12 finding)
    if isinstance(e, Assign):
        return call_text(e.name) + "=" + call_text(e.value)
    raise OutOfLanguage(type(e).__name__)


class Atom(str):
    """A call atom: prints as its name (which drops grouping parentheses, like the code's names) but is identified by
    the structure of its argument expressions, so I((x+z)*w) and I(x+z*w) are two factors with one name."""

    def __new__(cls, name, key):
        o = super().__new__(cls, name)
        o.key = key
        return o

    def __eq__(self, other):
        if isinstance(other, Atom):
            return self.key == other.key
        return False

    def __ne__(self, other):
        return not self == other

    def __hash__(self):
        return hash(("atom", self.key))


def call_key(e):
    """Structure of a call atom: fully parenthesised, grouping nodes dropped (they are implied by the tree)."""
    if isinstance(e, Call):
        return call_key(e.callee) + "(" + ", ".join(call_key(a) for a in e.args) + ")"
    if isinstance(e, Variable):
        return e.name.lexeme
    if isinstance(e, QuotedName):
        return "`" + e.expression.lexeme[1:-1] + "`"
    if isinstance(e, Literal):
        return repr(e.value) + ":" + type(e.value).__name__
    if isinstance(e, Binary):
        return "(" + call_key(e.left) + " " + e.operator.lexeme + " " + call_key(e.right) + ")"
    if isinstance(e, Unary):
        return "(" + e.operator.lexeme + call_key(e.right) + ")"
    if isinstance(e, Grouping):
        return call_key(e.expression)
    if isinstance(e, Assign):
        return call_key(e.name) + "=" + call_key(e.value)
    raise OutOfLanguage(type(e).__name__)


def only_terms(m, what):
    terms, icpt = m
    if icpt != 0:
        raise OutOfLanguage(f"intercept literal as operand of {what}")
    for t in terms:
        if t and t[0] == "|":
            raise OutOfLanguage(f"group-specific term as operand of {what}")
    return terms


def inter(a, b):
    return tuple(dedupe(list(a) + list(b)))


def ev(e):
    if isinstance(e, Grouping):
        m = ev(e.expression)
        return m
    if isinstance(e, Literal):
        if e.value == 1 and not isinstance(e.value, bool):
            return ([], +1)
        if e.value == 0 and not isinstance(e.value, bool):
            return ([], -1)
        raise OutOfLanguage("literal outside an exponent")
    if isinstance(e, Variable):
        if e.level is not None:
            raise OutOfLanguage("subset notation on the right-hand side")
        return ([(e.name.lexeme,)], 0)
    if isinstance(e, QuotedName):
        return ([(e.expression.lexeme[1:-1],)], 0)
    if isinstance(e, Call):
        return ([(Atom(call_text(e), call_key(e)),)], 0)
    if isinstance(e, Unary):
        if e.operator.kind == "PLUS":
            return ev(e.right)
        terms, icpt = ev(e.right)
        if terms or icpt == 0:
            raise OutOfLanguage("unary minus on a term")
        return ([], -icpt)
    if isinstance(e, Binary):
        k = e.operator.kind
        if k == "STAR_STAR":
            base = only_terms(ev(e.left), "**")
            r = e.right
            while isinstance(r, Grouping):
                r = r.expression
            if not (isinstance(r, Literal) and isinstance(r.value, int) and not isinstance(r.value, bool) and r.value >= 1):
                raise OutOfLanguage("exponent is not a positive integer literal")
            n = r.value
            out = list(base)
            for i in range(2, n + 1):
                for combo in itertools.combinations(base, i):
                    t = ()
                    for c in combo:
                        t = inter(t, c)
                    out.append(t)
            return (dedupe(out), 0)
        if k == "PIPE":
            eff_terms, icpt = ev(e.left)
            for t in eff_terms:
                if t and t[0] == "|":
                    raise OutOfLanguage("nested |")
            factors = only_terms(ev(e.right), "| (grouping side)")
            effects = ([] if icpt == -1 else ["ICPT"]) + list(eff_terms)
            if not effects:
                raise OutOfLanguage("empty effect side")
            return (dedupe([("|", ef, fa) for ef in effects for fa in factors]), 0)
        a = ev(e.left)
        b = ev(e.right)
        if k == "PLUS":
            return (dedupe(a[0] + b[0]), b[1] if b[1] != 0 else a[1])
        if k == "MINUS":
            if b[1] == -1:
                raise OutOfLanguage("'- 0'")
            return ([t for t in a[0] if t not in b[0]], -1 if b[1] == +1 else a[1])
        ta = only_terms(a, e.operator.lexeme)
        tb = only_terms(b, e.operator.lexeme)
        if k == "COLON":
            return (dedupe([inter(x, y) for x in ta for y in tb]), 0)
        if k == "STAR":
            return (dedupe(ta + tb + [inter(x, y) for x in ta for y in tb]), 0)
        if k == "SLASH":
            allf = ()
            for x in ta:
                allf = inter(allf, x)
            return (dedupe(ta + [inter(allf, y) for y in tb]), 0)
        raise OutOfLanguage(f"operator {k}")
    raise OutOfLanguage(type(e).__name__)


def has_paren_intercept(e, top=True, in_paren=False, eff=False):
    """Intercept literals are documented only as additive items of the right-hand side and of the
    effect side of | (not inside other parentheses)."""
    if isinstance(e, Grouping):
        inner = e.expression
        if isinstance(inner, Binary) and inner.operator.kind == "PIPE":
            return has_paren_intercept(inner.left, False, False, True) or has_paren_intercept(inner.right, False, True)
        return has_paren_intercept(inner, False, True)
    if isinstance(e, Literal):
        return in_paren and e.value in (0, 1) and not isinstance(e.value, bool)
    if isinstance(e, Unary):
        return has_paren_intercept(e.right, False, in_paren, eff)
    if isinstance(e, Binary):
        k = e.operator.kind
        if k in ("PLUS", "MINUS"):
            return has_paren_intercept(e.left, top, in_paren, eff) or has_paren_intercept(e.right, top, in_paren, eff)
        if k == "PIPE":
            return has_paren_intercept(e.left, False, False, True) or has_paren_intercept(e.right, False, True)
        if k == "STAR_STAR":
            return has_paren_intercept(e.left, False, True)
        return has_paren_intercept(e.left, False, True) or has_paren_intercept(e.right, False, True)
    return False


def expand(tree):
    """tree: AST of the whole formula parsed WITHOUT the implicit intercept.
    Returns (response name or None, set of common names incl. 'Intercept', set of group names)."""
    response = None
    rhs = tree
    if isinstance(tree, Binary) and tree.operator.kind == "TILDE":
        lhs = tree.left
        while isinstance(lhs, Grouping):
            lhs = lhs.expression
        if isinstance(lhs, Variable):
            response = lhs.name.lexeme
        elif isinstance(lhs, Call):
            response = call_text(lhs)
        elif isinstance(lhs, QuotedName):
            response = lhs.expression.lexeme[1:-1]
        else:
            raise OutOfLanguage("response is not a single term")
        rhs = tree.right
    if has_paren_intercept(rhs):
        raise OutOfLanguage("intercept literal inside parentheses")
    terms, icpt = ev(rhs)
    common = set()
    group = set()
    if icpt != -1:
        common.add("Intercept")
    for t in terms:
        if t and t[0] == "|":
            ef = "1" if t[1] == "ICPT" else ":".join(t[1])
            group.add(ef + "|" + ":".join(t[2]))
        else:
            common.add(":".join(t))
    return response, common, group


def expand_counts(tree):
    """Number of common / group-specific terms per name (names can collide for distinct call atoms)."""
    from collections import Counter
    rhs = tree.right if isinstance(tree, Binary) and tree.operator.kind == "TILDE" else tree
    terms, icpt = ev(rhs)
    common, group = Counter(), Counter()
    if icpt != -1:
        common["Intercept"] += 1
    for t in terms:
        if t and t[0] == "|":
            group[("1" if t[1] == "ICPT" else ":".join(t[1])) + "|" + ":".join(t[2])] += 1
        else:
            common[":".join(t)] += 1
    return common, group


def observed_counts(model):
    from collections import Counter
    return Counter(t.name for t in model.common_terms), Counter(t.name for t in model.group_terms)


def observed(model):
    resp = model.response.term.name if model.response is not None else None
    return resp, {t.name for t in model.common_terms}, {t.name for t in model.group_terms}

"""Runtime contract monitor (bounded stand-in, never counted as proved).

The SAME contract clauses that pyvc discharges symbolically are evaluated natively, on the real objects, around every call
of a function under contract while real workloads run (the repository's own test-suite, the bounded tier's generators).
Contracts are attached by wrapping the functions in the checker's own process (nothing in /repo is edited).

For one call:  requires are evaluated on the arguments; if one is false the call is outside the contract's domain and
is skipped (counted).  `old(e)` sub-expressions are evaluated - and deep-copied - before the call.  After a normal return
every `ensures` clause and the negation of every `raises` iff-condition must hold; after an exception of a class listed in
`raises` with an iff-condition, that condition must have held at entry.  A clause whose native evaluation itself fails
(ghost state such as warned(), helpers that only exist symbolically) is counted as not evaluable, never as a failure.

What a failure means: on the unchanged tree, that a contract (or a model behind it) is wrong - the proof would rest on a
false statement; on a changed tree, a concrete failing call of a function whose obligation no longer verifies.
"""
import ast
import copy
import functools
import importlib
import inspect
import itertools

MAX_RANGE = 400          # quantifier ranges longer than this make the clause 'not evaluable' (kept cheap)


FULL_CALLS = 40         # per function: this many calls are monitored one by one, afterwards one call in SAMPLE
SAMPLE = 60


class Skip(Exception):
    pass


def _old_copy(v):
    """the entry-state value of old(e): containers and arrays are copied (one level), other objects are kept by reference
    (== on them is identity, exactly what 'unchanged' means for an object-valued field)"""
    import numpy as np
    import pandas as pd
    if isinstance(v, (list, dict, set)):
        return copy.copy(v)
    if isinstance(v, (np.ndarray, pd.Series, pd.DataFrame)):
        return v.copy()
    if isinstance(v, slice) or isinstance(v, (int, float, str, bool, tuple, type(None))):
        return v
    return v


def _forall(lo, hi, fn):
    lo, hi = int(lo), int(hi)
    if hi - lo > MAX_RANGE:
        raise Skip("range too long")
    n = len(inspect.signature(fn).parameters)
    rng = range(lo, hi)
    if n == 1:
        return all(bool(fn(i)) for i in rng)
    if (hi - lo) ** n > MAX_RANGE * 20:
        raise Skip("range too long")
    return all(bool(fn(*t)) for t in itertools.product(rng, repeat=n))


def _exists(lo, hi, fn):
    lo, hi = int(lo), int(hi)
    if hi - lo > MAX_RANGE:
        raise Skip("range too long")
    n = len(inspect.signature(fn).parameters)
    rng = range(lo, hi)
    if n == 1:
        return any(bool(fn(i)) for i in rng)
    return any(bool(fn(*t)) for t in itertools.product(rng, repeat=n))


def _implies(a, b):          # both already evaluated; lazy form is produced by the rewriter below
    return (not a) or bool(b)


class _Rewriter(ast.NodeTransformer):
    """old(e) -> __old[k]; implies(a, b) -> ((not a) or b) (lazy); ite(c, x, y) -> (x if c else y)."""

    def __init__(self):
        self.olds = []

    def visit_Call(self, node):
        if isinstance(node.func, ast.Name) and node.func.id == "old" and len(node.args) == 1:
            self.olds.append(node.args[0])
            return ast.Subscript(value=ast.Name(id="__old", ctx=ast.Load()), slice=ast.Constant(len(self.olds) - 1), ctx=ast.Load())
        self.generic_visit(node)
        if isinstance(node.func, ast.Name) and node.func.id == "implies" and len(node.args) == 2:
            return ast.BoolOp(op=ast.Or(), values=[ast.UnaryOp(op=ast.Not(), operand=node.args[0]), node.args[1]])
        if isinstance(node.func, ast.Name) and node.func.id == "ite" and len(node.args) == 3:
            return ast.IfExp(test=node.args[0], body=node.args[1], orelse=node.args[2])
        return node


class Clause:
    def __init__(self, src):
        self.src = src
        tree = ast.parse(src.strip(), mode="eval")
        rw = _Rewriter()
        tree = ast.fix_missing_locations(rw.visit(tree))
        self.code = compile(tree, "<contract>", "eval")
        self.olds = [compile(ast.fix_missing_locations(ast.Expression(o)), "<old>", "eval") for o in rw.olds]


class Stats:
    def __init__(self):
        self.calls = 0
        self.outside = 0
        self.checked = 0
        self.unevaluable = 0
        self.failures = []          # (qualname, kind, clause, detail)
        self.per_function = {}

    def merge(self, o):
        self.calls += o.calls
        self.outside += o.outside
        self.checked += o.checked
        self.unevaluable += o.unevaluable
        self.failures += o.failures

    def as_dict(self):
        return {"calls_monitored": self.calls, "calls_outside_precondition": self.outside, "clauses_checked": self.checked,
                "clauses_not_evaluable_natively": self.unevaluable, "failures": len(self.failures),
                "functions_called": sorted(k for k, v in self.per_function.items() if v)}


# a wrapper adds a stack frame: functions that look up their caller's frame by depth would see the wrong one
NOT_WRAPPED = {"formulae.matrices.design_matrices", "formulae.environment.Environment.capture"}
STATS = Stats()
_ATTACHED = []


def _universe(env):
    """finite universe for forall_obj: every element of every list / tuple reachable one level from the arguments"""
    out, seen = [], set()

    def add(x):
        if id(x) not in seen:
            seen.add(id(x))
            out.append(x)
    for v in env.values():
        add(v)
        for w in ([v] + ([getattr(v, a) for a in ("common_terms", "group_terms", "components", "levels") if hasattr(v, a)])):
            if isinstance(w, (list, tuple)):
                for e in w[:60]:
                    add(e)
    return out


def _namespace(contract, env, olds, result=None, has_result=False, pre_ids=None):
    ns = dict(contract.namespace or {})
    ns.update(env)
    uni = _universe(dict(env, **({"result": result} if has_result else {})))
    ns.update({"forall": _forall, "exists": _exists, "__old": olds,
               "forall_obj": lambda fn: all(bool(fn(x)) for x in uni),
               "exists_obj": lambda fn: any(bool(fn(x)) for x in uni),
               "is_fresh": (lambda x: id(x) not in (pre_ids or set()))})
    if has_result:
        ns["result"] = result
    return ns


def _truth(v):
    import numpy as np
    if isinstance(v, np.ndarray):
        return bool(v.all())
    return bool(v)


def _type_ok(reg, ts, v):
    """class-typed parameters select the contract variant"""
    if ts in reg.classes:
        mod, cls = ts.rsplit(".", 1)
        try:
            return isinstance(v, getattr(importlib.import_module(mod), cls))
        except Exception:
            return True
    if ts == "int":
        return isinstance(v, int) and not isinstance(v, bool)
    if ts == "int?":
        return v is None or (isinstance(v, int) and not isinstance(v, bool))
    if ts == "bool":
        return isinstance(v, bool)
    if ts == "real?":
        return v is None or isinstance(v, (int, float))
    if ts in ("arr1", "arr1?"):
        import numpy as np
        return (v is None and ts.endswith("?")) or (v is not None and np.ndim(v) == 1)
    return True


def wrap(reg, contracts, fn, is_method, qual):
    sig = inspect.signature(fn)
    compiled = []
    for c in contracts:
        try:
            req = [Clause(cl if isinstance(cl, str) else cl[0]) for cl in c.requires]
            ens = [Clause(cl if isinstance(cl, str) else cl[0]) for cl in c.ensures]
            rais = {k: (Clause(v) if v is not None else None) for k, v in c.raises.items()}
        except SyntaxError:
            continue
        compiled.append((c, req, ens, rais))

    @functools.wraps(fn)
    def monitored(*args, **kwargs):
        st = STATS
        try:
            ba = sig.bind(*args, **kwargs)
            ba.apply_defaults()
        except TypeError:
            return fn(*args, **kwargs)
        env = dict(ba.arguments)
        for k, p in sig.parameters.items():
            if p.kind == inspect.Parameter.VAR_POSITIONAL:
                env[k] = list(env.get(k, ()))
        n_ = st.per_function.get(qual, 0) + 1
        st.per_function[qual] = n_
        if n_ > FULL_CALLS and n_ % SAMPLE:
            return fn(*args, **kwargs)
        st.calls += 1
        active = []
        for c, req, ens, rais in compiled:
            if not all(_type_ok(reg, ts, env.get(p)) for p, ts in c.params.items() if p in env):
                continue
            ok = True
            for cl in req:
                try:
                    if not _truth(eval(cl.code, _namespace(c, env, []))):
                        ok = False
                        break
                except Exception:
                    ok = False
                    break
            if not ok:
                continue
            olds_all = []
            usable = True
            for group in (ens, [v for v in rais.values() if v is not None]):
                for cl in group:
                    vals = []
                    for oc in cl.olds:
                        try:
                            vals.append(_old_copy(eval(oc, _namespace(c, env, []))))
                        except Exception:
                            vals.append(Skip)
                    olds_all.append((cl, vals))
            pre_ids = set()
            for v in env.values():
                pre_ids.add(id(v))
                for a in getattr(v, "__dict__", {}).values():
                    pre_ids.add(id(a))
            # iff-conditions are about the entry state: evaluate them now
            pre_conds = {}
            for k, cl in rais.items():
                if cl is not None:
                    try:
                        pre_conds[k] = _truth(eval(cl.code, _namespace(c, env, [v for v in dict(olds_all).get(cl, [])])))
                    except Exception:
                        pre_conds[k] = Skip
            active.append((c, ens, rais, dict(olds_all), pre_ids, pre_conds))
        if not active:
            st.outside += 1
            return fn(*args, **kwargs)
        try:
            result = fn(*args, **kwargs)
        except Exception as ex:                                   # noqa: BLE001 - classify, then re-raise
            for c, ens, rais, olds, pre_ids, pre_conds in active:
                for k, cl in rais.items():
                    if type(ex).__name__ == k and cl is not None:
                        if pre_conds.get(k) is Skip:
                            st.unevaluable += 1
                        else:
                            st.checked += 1
                            if not pre_conds[k]:
                                st.failures.append((c.qualname, "raises", cl.src, f"raised {k} although its condition did not hold at entry: {ex}"))
            raise
        for c, ens, rais, olds, pre_ids, pre_conds in active:
            for k, v in pre_conds.items():
                if v is Skip:
                    st.unevaluable += 1
                else:
                    st.checked += 1
                    if v:
                        st.failures.append((c.qualname, "raises", rais[k].src, f"returned normally although {k} iff the condition, which held at entry"))
            for cl in ens:
                vals = olds.get(cl, [])
                if any(v is Skip for v in vals):
                    st.unevaluable += 1
                    continue
                try:
                    good = _truth(eval(cl.code, _namespace(c, env, vals, result, True, pre_ids)))
                except Exception:
                    st.unevaluable += 1
                    continue
                st.checked += 1
                if not good:
                    st.failures.append((c.qualname, "ensures", cl.src, _describe(env)))
        return result
    monitored.__wrapped_by_monitor__ = True
    return monitored


def _describe(env):
    out = []
    for k, v in env.items():
        try:
            s = repr(v)
        except Exception:
            s = f"<{type(v).__name__}>"
        out.append(f"{k}={s[:120]}")
    return ", ".join(out)[:600]


def attach(reg, qualnames):
    """Wrap the real functions named by the contracts (variants 'q#tag' are grouped under their real function)."""
    groups = {}
    for q in qualnames:
        c = reg.contracts.get(q)
        if c is None or c.inline:
            continue
        real = c.of or q.split("#")[0]
        if real.startswith("vf.") or real.startswith("formulae.expr.Expr.") or real in NOT_WRAPPED:
            continue
        groups.setdefault(real, []).append(c)
    for real, cs in groups.items():
        parts = real.split(".")
        owner = None
        for k in range(len(parts) - 1, 0, -1):
            try:
                owner = importlib.import_module(".".join(parts[:k]))
                rest = parts[k:]
                break
            except ImportError:
                continue
        if owner is None:
            continue
        try:
            for p in rest[:-1]:
                owner = getattr(owner, p)
            name = rest[-1]
            raw = inspect.getattr_static(owner, name)
        except AttributeError:
            continue
        if getattr(raw, "__wrapped_by_monitor__", False) or getattr(getattr(raw, "fget", None), "__wrapped_by_monitor__", False):
            continue
        if isinstance(raw, property):
            new = property(wrap(reg, cs, raw.fget, True, real), raw.fset, raw.fdel)
        elif isinstance(raw, staticmethod):
            new = staticmethod(wrap(reg, cs, raw.__func__, False, real))
        elif isinstance(raw, classmethod):
            continue
        elif inspect.isfunction(raw):
            new = wrap(reg, cs, raw, inspect.isclass(owner), real)
        else:
            continue
        setattr(owner, name, new)
        _ATTACHED.append((owner, name, raw))
        # functions imported by name elsewhere (from formulae.utils import get_interaction_matrix) keep the old binding:
        if not inspect.isclass(owner):
            import sys
            for m in list(sys.modules.values()):
                if m is None or not getattr(m, "__name__", "").startswith("formulae"):
                    continue
                if getattr(m, name, None) is raw:
                    setattr(m, name, new)
                    _ATTACHED.append((m, name, raw))
                for dn, dv in list(vars(m).items()):          # registries such as TRANSFORMS = {"binary": binary, ...}
                    if isinstance(dv, dict):
                        for k_, v_ in list(dv.items()):
                            if v_ is raw:
                                dv[k_] = new
                                _ATTACHED.append((_DictSlot(dv, k_), "value", raw))


class _DictSlot:
    def __init__(self, d, k):
        self.d, self.k = d, k

    def __setattr__(self, name, value):
        if name in ("d", "k"):
            object.__setattr__(self, name, value)
        else:
            self.d[self.k] = value


def detach():
    while _ATTACHED:
        owner, name, raw = _ATTACHED.pop()
        setattr(owner, name, raw)


def run_test_suite(repo=None):
    """The repository's own tests as a workload (their verdicts are not ours; only the monitored calls count)."""
    import contextlib
    import io
    import os
    import pytest
    repo = repo or os.environ.get("VERIF_REPO", "/repo")
    buf = io.StringIO()
    cwd = os.getcwd()
    try:
        os.chdir(repo)
        with contextlib.redirect_stdout(buf), contextlib.redirect_stderr(buf):
            rc = pytest.main(["-q", "--no-header", "-p", "no:cacheprovider", "-W", "ignore", os.path.join(repo, "tests")])
    finally:
        os.chdir(cwd)
    return int(rc), buf.getvalue()[-400:]


EXTRA_FORMULAS = ["y ~ I(-x) + I(+z)", "y ~ S(f, 'a') + T(g, 'w')", "y ~ S(f, 'c'):x", "y ~ C(f, Sum('a'))", "y ~ 0 + S(f)", "y ~ binary(g, 'u') + B(h)",
                  "y ~ bs(x, df=5, intercept=True) + bs(z, df=3, degree=0)", "y ~ center(x):f + scale(z)", "y ~ (0 + f|g) + (x|h)",
                  "y ~ f*g*h", "y ~ 0 + f:g:x", "y ~ {x + 1}:f", "y ~ I(x > 2) + I(x == z)", "y ~ poly(x, 3) + standardize(z)",
                  "prop(succ, trials) ~ f", "f['b'] ~ x", "y ~ x + (1|g) + (1|h) + (x|g:h)"]


def run_workload(seed=0):
    """Beyond the repository's tests: the formulas of the bounded tier (C08's list) and a few that hit corners the tests leave out
    (first-level omission in Sum coding, unary operators inside calls, degree-0 splines, ...), each evaluated on a frame and then
    re-evaluated on a selection of its rows."""
    import logging
    import warnings
    import numpy as np
    from formulae import design_matrices
    from ..props import C08
    logging.getLogger("formulae").setLevel(logging.CRITICAL)
    warnings.simplefilter("ignore")
    d = C08.frame(seed)
    rng = np.random.default_rng(seed)
    n_ok = 0
    for f in list(C08.FORMULAS) + EXTRA_FORMULAS:
        try:
            dm = design_matrices(f, d)
            n_ok += 1
            sub = d.iloc[rng.integers(0, len(d), size=7)].reset_index(drop=True)
            if dm.common is not None:
                dm.common.evaluate_new_data(sub)
            if dm.group is not None:
                dm.group.evaluate_new_data(sub)
            if dm.common is not None:
                for name in dm.common.terms:
                    dm.common[name]
                dm.common.as_dataframe()
        except Exception:          # noqa: BLE001 - the workload only drives calls; what a formula does is the bounded tier's business
            continue
    return n_ok


def run(reg, qualnames, tier="quick", seed=0):
    """attach -> repository tests + extra workload -> detach; returns (summary dict, failures)"""
    global FULL_CALLS, SAMPLE, STATS
    FULL_CALLS, SAMPLE = (40, 60) if tier == "quick" else (400, 8)
    STATS = Stats()
    attach(reg, qualnames)
    try:
        rc, tail = run_test_suite()
        n_wl = run_workload(seed)
    finally:
        detach()
    out = STATS.as_dict()
    out["workload"] = f"repository test-suite (pytest exit {rc}) + {n_wl} formulas of the bounded tier evaluated and re-evaluated on row selections"
    seen, fails = set(), []
    for q, kind, src, detail in STATS.failures:
        if (q, src) not in seen:
            seen.add((q, src))
            fails.append({"function": q, "kind": kind, "clause": src, "call": detail})
    return out, fails

"""Oracles on design matrices shared by C03/C04/C05."""
import itertools
import traceback

import numpy as np
import pandas as pd

from .gen import rank, same_span


def indicator_matrix(col):
    vals = sorted(pd.unique(col).tolist(), key=str)
    return np.column_stack([(np.asarray(col) == v).astype(float) for v in vals])


def term_space(data, factors, kinds):
    """Full model space of one term: product of complete indicators (categorical factors)
    and the numeric columns. factors: list of column names (or arrays)."""
    m = np.ones((len(data), 1))
    for f in factors:
        if kinds[f] == "cat":
            b = indicator_matrix(data[f])
        else:
            b = np.asarray(data[f], dtype=float)[:, None]
        m = np.column_stack([m[:, i] * b[:, j] for i in range(m.shape[1]) for j in range(b.shape[1])])
    return m


def model_space(data, terms, kinds, intercept):
    blocks = [np.ones((len(data), 1))] if intercept else []
    for t in terms:
        blocks.append(term_space(data, t, kinds))
    if not blocks:
        return np.zeros((len(data), 0))
    return np.column_stack(blocks)


def failure_signature(ex):
    tb = traceback.extract_tb(ex.__traceback__)
    where = [f"{fr.name}" for fr in tb if "/formulae/" in fr.filename]
    return f"{type(ex).__name__}@{where[-1] if where else '?'}"

"""Data-frame generators shared by the bounded tier."""
import itertools

import numpy as np
import pandas as pd


def factorial_frame(rng, levels, reps=2, numerics=("x", "z"), shuffle=True):
    """Complete factorial over categorical columns (levels: {name: [values]}), replicated,
    with numeric columns in general position."""
    names = list(levels)
    rows = list(itertools.product(*[levels[n] for n in names])) * reps
    d = pd.DataFrame(rows, columns=names)
    n = len(d)
    for c in numerics:
        d[c] = rng.normal(size=n) * 2 + rng.uniform(-3, 3)
    d["y"] = rng.normal(size=n)
    if shuffle:
        d = d.iloc[rng.permutation(n)].reset_index(drop=True)
    return d


def rich_frame(rng, n=24):
    """A frame with every column flavour the properties talk about."""
    f_levels = ["a", "b", "c"][: rng.integers(2, 4)]
    g_levels = ["u", "v", "w", "t"][: rng.integers(2, 5)]
    h_levels = ["p", "q"]
    d = pd.DataFrame({
        "y": rng.normal(size=n),
        "x": rng.normal(size=n) * 3 + 1,
        "z": rng.uniform(1, 9, size=n),
        "w": rng.normal(size=n),
        "f": _cover(rng, f_levels, n),
        "g": _cover(rng, g_levels, n),
        "h": _cover(rng, h_levels, n),
        "k": _cover(rng, [5, 10, 25, 100][: rng.integers(2, 5)], n),
    })
    d["c1"] = pd.Categorical(_cover(rng, ["zeta", "alpha", "mid"], n), categories=["zeta", "alpha", "mid"])
    d["o"] = pd.Categorical(_cover(rng, ["lo", "mid", "hi"], n), categories=["lo", "mid", "hi"], ordered=True)
    d["s"] = _cover(rng, ["yes", "no"], n)
    d["trials"] = rng.integers(5, 12, size=n)
    d["succ"] = (d["trials"] * rng.uniform(0, 1, size=n)).astype(int)
    return d


def _cover(rng, values, n):
    """n draws covering every value at least twice when n allows (once otherwise): with a single observation of a level its
    indicator and its product with a numeric column are proportional, which is a property of the data, not of the coding."""
    vals = list(values)
    vals = vals * 2 if n >= 2 * len(vals) else vals
    out = vals + [vals[i] for i in rng.integers(0, len(vals), size=max(0, n - len(vals)))]
    out = out[:n]
    idx = rng.permutation(n)
    return [out[i] for i in idx]


def rank(a, tol=1e-8):
    a = np.asarray(a, dtype=float)
    if a.size == 0:
        return 0
    s = np.linalg.svd(a, compute_uv=False)
    return int((s > tol * max(1.0, s[0])).sum())


def same_span(a, b, tol=1e-7):
    """Column spaces equal (least squares both ways)."""
    a = np.asarray(a, dtype=float)
    b = np.asarray(b, dtype=float)

    def within(p, q):
        if p.shape[1] == 0:
            return True
        if q.shape[1] == 0:
            return bool(np.allclose(p, 0, atol=tol))
        coef = np.linalg.lstsq(q, p, rcond=None)[0]
        return bool(np.allclose(q @ coef, p, atol=tol * max(1.0, np.abs(p).max())))
    return within(a, b) and within(b, a)

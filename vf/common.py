"""Shared plumbing: paths, known findings, evidence files, verdict bookkeeping.

Exit codes of every check (DESIGN 1.2): 0 held, 1 violation, 2 undecided, 3 checker failure.
"""
import hashlib
import json
import os
import sys
import time

ROOT = os.path.dirname(os.path.dirname(os.path.abspath(__file__)))
PYDEPS = os.path.join(ROOT, ".pydeps")
if os.path.isdir(PYDEPS) and PYDEPS not in sys.path:
    sys.path.insert(0, PYDEPS)
REPO = os.environ.get("VERIF_REPO", "/repo")
# (VERIF_EVIDENCE_DIR / VERIF_REPLAY_DIR: scratch locations for the parallel seed matrix, so that mutant runs never touch evidence/)
EVIDENCE_DIR = os.environ.get("VERIF_EVIDENCE_DIR") or os.path.join(ROOT, "evidence")
REPLAY_DIR = os.environ.get("VERIF_REPLAY_DIR") or os.path.join(ROOT, "replays")
KNOWN_FINDINGS = os.path.join(ROOT, "known_findings.jsonl")


def seed():
    try:
        return int(os.environ.get("VERIF_SEED", "0"))
    except ValueError:
        return 0


def tier(default="quick"):
    t = os.environ.get("VERIF_TIER", default)
    return t if t in ("quick", "thorough") else default


def load_findings(prop=None):
    """known_findings.jsonl: one JSON object per line; kind = 'finding' | 'fixed'."""
    out = []
    if not os.path.exists(KNOWN_FINDINGS):
        return out
    with open(KNOWN_FINDINGS) as fh:
        for line in fh:
            line = line.strip()
            if not line or line.startswith("#"):
                continue
            rec = json.loads(line)
            if prop is None or rec.get("property") == prop:
                out.append(rec)
    return out


class Report:
    """Collects what one check run did and writes evidence + verdict."""

    def __init__(self, prop, level, tier_name):
        self.prop = prop
        self.level = level
        self.tier = tier_name
        self.t0 = time.time()
        self.violations = []       # dicts: {what, replay, ...}
        self.undecided = []        # strings
        self.failures = []         # checker failures (exit 3)
        self.known_hits = {}       # finding id -> count
        self.pending_proof_violations = []   # (what, detail): resolved against the bounded tier in finish
        self.coverage = {}
        self.assumptions = []
        self.lines = []

    def say(self, msg):
        print(msg, flush=True)

    # -- findings ---------------------------------------------------------------------------
    def known(self, finding, what=None):
        fid = finding["id"]
        self.known_hits[fid] = self.known_hits.get(fid, 0) + 1

    def violation(self, what, detail, no_input=False):
        """Record a violation; writes a replay file and remembers the VIOLATION line."""
        os.makedirs(REPLAY_DIR, exist_ok=True)
        h = hashlib.sha1((self.prop + what + json.dumps(detail, sort_keys=True, default=str)).encode()).hexdigest()[:12]
        path = os.path.join(REPLAY_DIR, f"{self.prop}-{h}.json")
        rec = {"property": self.prop, "what": what, "detail": detail,
               "failing_input_found": not no_input, "tier": self.tier, "seed": seed()}
        with open(path, "w") as fh:
            json.dump(rec, fh, indent=1, default=str)
        self.violations.append({"what": what, "replay": path, "no_input": no_input})
        return path

    # -- finish -----------------------------------------------------------------------------
    def resolve_proof_violations(self):
        real = [v for v in self.violations if not v["no_input"]]
        for what, detail in self.pending_proof_violations:
            if real:
                detail = dict(detail, failing_input_replay=real[0]["replay"], failing_input=real[0]["what"])
            self.violation(what, detail, no_input=not real)
        self.pending_proof_violations = []

    def finish(self, findings_all=()):
        self.resolve_proof_violations()
        wall = time.time() - self.t0
        cov = dict(self.coverage)
        cov.setdefault("known_findings_hit", self.known_hits)
        ev = {
            "property_id": self.prop,
            "tier": self.tier,
            "seed": seed(),
            "level": self.level,
            "coverage": cov,
            "assumptions": self.assumptions,
            "wall_s": round(wall, 2),
            "violations": len(self.violations),
        }
        os.makedirs(EVIDENCE_DIR, exist_ok=True)
        with open(os.path.join(EVIDENCE_DIR, f"{self.prop}.json"), "w") as fh:
            json.dump(ev, fh, indent=1, default=str)
        for f in findings_all:
            if f.get("kind") == "finding" and f["id"] in self.known_hits:
                self.say(f"KNOWN-FINDING: property={self.prop} {f['id']}: {f['what']} "
                         f"(hit {self.known_hits[f['id']]}x)")
        if self.failures:
            for f in self.failures:
                self.say(f"CHECKER-FAILURE property={self.prop} {f}")
            return 3
        if self.violations:
            seen = set()
            # proof-obligation violations first, then at most a handful of failing inputs
            ordered = sorted(self.violations, key=lambda v: 0 if v["what"].startswith("obligation") or "verified subset" in v["what"] else 1)
            for v in ordered:
                if v["replay"] in seen:
                    continue
                if len(seen) >= 8:
                    self.say(f"  ... and {len(self.violations) - len(seen)} more violations (see evidence / replays)")
                    break
                seen.add(v["replay"])
                tail = " no-failing-input-found" if v["no_input"] else ""
                self.say(f"VIOLATION property={self.prop} replay={v['replay']}{tail}")
                self.say(f"  what: {v['what']}")
            return 1
        if self.undecided:
            for u in self.undecided:
                self.say(f"UNDECIDED property={self.prop} {u}")
            return 2
        self.say(f"OK property={self.prop} tier={self.tier} wall={wall:.1f}s")
        return 0

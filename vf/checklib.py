"""Glue used by every property check: proof tier (pyvc) + bounded tier + evidence."""
import json
import os
import re
import time

from . import common
from .pyvc import prove

BASELINE = os.path.join(common.ROOT, "baseline", "proofs.json")

PY_ASSUMPTIONS = [
    "CPython 3.12 evaluation order; unbounded ints; no threads; no monkey-patching of formulae classes or builtins at run time",
    "strings used as atoms are compared only for equality (interned ids); message texts are opaque",
    "a list mutated in place has no other live alias unless the contract says so",
    "floats are treated as mathematical reals in every numeric obligation",
    "the pyvc encoder (ast -> z3) itself, z3 4.x/5.x",
]


def ob_key(fn, o):
    """Stable identity of an obligation: function, kind and clause text (no line numbers)."""
    name = o["name"]
    m = re.match(r"^(.*?)/([a-z\-]+)@\d+(\[(.*)\])?$", name)
    note = m.group(4) if m and m.group(4) else ""
    return f"{fn}|{o['kind']}|{note}"


def load_baseline():
    if os.path.exists(BASELINE):
        with open(BASELINE) as fh:
            return json.load(fh)
    return {}


def check_lean_lemmas(report):
    import glob
    import shutil
    import subprocess
    files = sorted(glob.glob(os.path.join(common.ROOT, "lemmas", "*.lean")))
    lean = shutil.which("lean")
    if lean is None:
        report.assumptions.append("lean is not on PATH: the inductive lemmas in lemmas/*.lean were NOT re-checked in this run")
        return {"files": [os.path.basename(f) for f in files], "checked": False}
    out = {"files": [], "checked": True}
    for f in files:
        try:
            r = subprocess.run([lean, f], capture_output=True, text=True, timeout=300, cwd=os.path.dirname(f))
            txt = (r.stdout + r.stderr)
            ok = r.returncode == 0 and "sorry" not in txt and "error" not in txt.lower() and "sorry" not in open(f).read().split("-/", 1)[-1]
        except Exception as e:                       # noqa: BLE001
            ok, txt = False, f"{type(e).__name__}: {e}"
        out["files"].append({"file": os.path.basename(f), "accepted": ok})
        if not ok:
            report.failures.append(f"Lean rejects lemmas/{os.path.basename(f)}: {txt[:300]}")
    return out


def run_proofs(report, prop, modules, timeout_ms=None):
    """modules: list of (contract_module_name, [function qualnames]).
    Returns (records, n_obligations, n_discharged)."""
    if os.environ.get("VERIF_NO_PROOFS") == "1":      # maintenance only (seed sweeps of the bounded tiers); never set by a registered command
        report.coverage["proof_tier"] = "skipped (VERIF_NO_PROOFS=1)"
        return [], 0, 0
    tier_name = report.tier
    timeout_ms = timeout_ms or (prove.THOROUGH_MS if tier_name == "thorough" else prove.QUICK_MS)
    baseline = load_baseline()
    rebase = os.environ.get("VERIF_REBASELINE") == "1"
    from .rtc import extvalid
    n_ext, ext_fails = extvalid.run(common.seed(), 25)
    report.coverage["ext_valid"] = {"checks": n_ext, "failed": ext_fails}
    for f in ext_fails:
        report.failures.append(f"ext-valid: the assumed external contract '{f}' disagrees with the real library")
    # the inductive lemmas the proofs assume are re-checked by Lean on every run (a rejected or admitted lemma is a checker failure)
    report.coverage["lean_lemmas"] = check_lean_lemmas(report)
    # encoder cross-check: the engine, run as a concrete interpreter on the real source, against CPython
    from .pyvc import crosscheck
    try:
        n_cc, cc_bad = crosscheck.run(common.seed(), None if tier_name == "thorough" else 8)
    except Exception as e:                          # noqa: BLE001 - a crash of the cross-check is a checker failure
        n_cc, cc_bad = 0, [("crosscheck", "crashed", "", f"{type(e).__name__}: {e}"[:300])]
    report.coverage["encoder_crosscheck"] = {"cases": n_cc, "disagreements": len(cc_bad),
                                             "skipped_source_outside_subset": len(crosscheck.SKIPPED)}
    for b in cc_bad[:5]:
        report.failures.append(f"encoder cross-check: pyvc and CPython disagree on {b[0]} for {str(b[1])[:120]!r}: "
                               f"CPython {str(b[2])[:120]} / engine {str(b[3])[:120]}")
    all_recs = []
    tot = disch = 0
    solver_ms = {}
    funcs = []
    samples = []
    dropped = []
    t0 = time.time()
    for mod, fns in modules:
        recs = prove.verify_all(mod, fns, timeout_ms)
        base = baseline.get(mod, {})
        # solver instability guard: an obligation of the baseline that is merely 'unknown' (not refuted) gets a
        # second opinion with other seeds / a longer budget before it is reported (at most 3 per function)
        for r in recs:
            shaky = [o for o in r["obligations"] if o["result"] == "unknown" and ob_key(r["function"], o) in base]
            if shaky and len({o["name"] for o in shaky}) <= 3 and not rebase and time.time() - t0 < 240:
                got = prove.retry_function(mod, r["function"], [o["name"] for o in shaky])
                for o in shaky:
                    if o["name"] in got:
                        o["result"] = "proved"
                        o["backend"] += " (retry with other seeds)"
                        report.coverage["retried"] = report.coverage.get("retried", 0) + 1
        newbase = {}
        for r in recs:
            all_recs.append(r)
            fn = r["function"]
            f_tot = f_ok = 0
            if r["status"] == "error":
                report.failures.append(f"pyvc crashed on {fn}: {r.get('error')}")
            elif r["status"] == "unsupported":
                # the source left the supported subset: undecided unless it used to verify
                was = any(k.startswith(fn + "|") for k in base)
                msg = f"UNSUPPORTED {fn}: {r.get('error')}"
                if was and not rebase:
                    report.pending_proof_violations.append(
                        (f"{fn}: source no longer within the verified subset ({r.get('error')}); "
                         f"all its obligations were discharged on the unchanged tree", {"function": fn, "error": r.get("error")}))
                else:
                    report.undecided.append(msg)
            elif r["status"] == "no-obligations":
                report.failures.append(f"zero obligations generated for {fn}")
            ps_ = [o["result"] for o in r["obligations"] if o["kind"] == "path-sat"]
            if ps_ and all(x == "vacuous" for x in ps_):
                report.failures.append(f"every sampled path of {fn} carries contradictory assumptions (vacuous proof)")
            for o in r["obligations"]:
                solver_ms[o["backend"]] = solver_ms.get(o["backend"], 0) + o["ms"]
                if o["kind"] == "pre-sat":
                    if o["result"] == "vacuous":
                        report.failures.append(f"vacuous precondition in {fn}")
                    continue
                if o["kind"] == "path-sat":
                    continue
                # every function a check lists is listed because the property depends on it: all its obligations count for this check
                # (the tags on a contract name the properties whose statement it transcribes; they no longer restrict who reports it)
                mine_ = True
                if not mine_ and o["result"] != "proved":
                    # an obligation owned by other properties only: reported by their checks, not counted here
                    report.coverage.setdefault("foreign_undischarged", []).append(o["name"])
                    report.say(f"NOTE property={prop}: obligation {o['name']} (tags {o['tags']}) is {o['result']}; it belongs to other properties' checks")
                    continue
                tot += 1
                f_tot += 1
                key = ob_key(fn, o)
                if o["result"] == "proved":
                    disch += 1
                    f_ok += 1
                    newbase[key] = "proved"
                    if len(samples) < 12:
                        samples.append({"obligation": o["name"], "backend": o["backend"], "ms": o["ms"]})
                else:
                    mine = True
                    if not mine:
                        continue
                    detail = {"obligation": o["name"], "function": fn, "source": r.get("source"),
                              "solver_result": o["result"], "backend": o["backend"], "model": o.get("model"),
                              "in_baseline": key in base}
                    if o["result"] == "refuted" or key in base:
                        report.pending_proof_violations.append(
                            (f"obligation {o['name']} {'refuted' if o['result']=='refuted' else 'no longer discharged (was proved on the unchanged tree)'}", detail))
                    else:
                        report.undecided.append(f"obligation={o['name']} reason=solver {o['result']}")
            funcs.append({"function": fn, "status": r["status"], "source": r.get("source"), "paths": r["paths"],
                          "obligations": f_tot, "discharged": f_ok, "wall_s": r["wall_s"]})
            dropped.extend(r.get("dropped", []))
        if rebase:
            baseline[mod] = {**{k: v for k, v in base.items() if not any(k.startswith(f + "|") for f in fns)}, **newbase}
    if rebase:
        os.makedirs(os.path.dirname(BASELINE), exist_ok=True)
        with open(BASELINE, "w") as fh:
            json.dump(baseline, fh, indent=0, sort_keys=True)
    # table obligations: contents of module-level dict literals, decided by evaluating the real object
    import importlib
    for mod, fns in modules:
        cm = importlib.import_module(mod)
        for tag, name, getter, expected in getattr(cm, "TABLES", []):
            if tag != prop:
                continue
            tot += 1
            try:
                actual = getter()
                ok = actual == expected and all(actual[k] is expected[k] or actual[k] == expected[k] for k in expected)
            except Exception as ex:      # noqa
                ok, actual = False, f"raised {type(ex).__name__}"
            if ok:
                disch += 1
                samples.append({"obligation": f"{mod}/table[{name}]", "backend": "cpython-eval", "ms": 0})
            else:
                report.pending_proof_violations.append(
                    (f"obligation {mod}/table[{name}] refuted: table contents differ from the specification",
                     {"obligation": f"table[{name}]", "actual": repr(actual)[:800], "expected": repr(expected)[:800]}))
    # runtime contract monitor (bounded stand-in): the same clauses, evaluated natively around every call of these functions while
    # the repository's tests and a formula workload run
    if not rebase and os.environ.get("VERIF_NO_MONITOR") != "1":
        try:
            from .rtc import monitor
            reg_ = importlib.import_module(modules[0][0]).REG
            mon, mfails = monitor.run(reg_, [q for _, fns in modules for q in fns], tier_name, common.seed())
        except Exception as e:                                  # noqa: BLE001
            mon, mfails = {"error": f"{type(e).__name__}: {e}"[:300]}, []
            report.failures.append(f"runtime contract monitor crashed: {type(e).__name__}: {e}"[:300])
        report.coverage["runtime_contract_monitor"] = mon
        for f in mfails:
            # a concrete call of the real function for which a contract clause is false. (Verification is modular: the function's own
            # obligations may still be discharged when a callee broke ITS contract - the failing call is evidence either way. On the
            # unchanged tree there is none; if one appeared there, the contract or a model behind the proofs would be wrong.)
            report.violation(f"runtime contract failure in {f['function']}: {f['kind']} clause '{f['clause'][:160]}' is false for the call {f['call'][:300]}",
                             dict(f, tier="runtime contract monitor"))
    if not rebase and any(m == "vf.contracts.lemmas_c" for m, _ in modules) and os.environ.get("VERIF_NO_MONITOR") != "1":
        # the property lemmas are ordinary Python: run their harnesses on generated inputs and evaluate their postconditions natively
        try:
            from .rtc import lemma_native
            ne, nc, nf = lemma_native.run(common.seed(), 8 if tier_name == "quick" else 60)
            report.coverage["lemmas_executed_natively"] = {"executions": ne, "clauses_checked": nc, "failures": len(nf)}
            for f in nf[:5]:
                report.violation(f"property lemma fails on real objects: {f[:400]}", {"lemma_failure": f, "tier": "native lemma run"})
        except Exception as e:                                  # noqa: BLE001
            report.failures.append(f"native lemma run crashed: {type(e).__name__}: {e}"[:300])
    assumed = []
    mod_assumptions = []
    for mod, fns in modules:
        cm = importlib.import_module(mod)
        for a in getattr(cm, "ASSUMPTIONS", []):
            if a not in mod_assumptions:
                mod_assumptions.append(a)
        for q in getattr(cm, "ASSUMED", []):
            assumed.append(q)
    cov = report.coverage
    cov.setdefault("checker_cmd", f"./check {prop} --tier {tier_name}")
    tb = cov.setdefault("trusted_base", [])
    for a in PY_ASSUMPTIONS + mod_assumptions + [f"assumed contract (not verified): {q}" for q in assumed]:
        if a not in tb:
            tb.append(a)
    report.assumptions = list(dict.fromkeys(list(report.assumptions) + tb))
    cov["functions_under_contract"] = cov.get("functions_under_contract", []) + funcs
    cov["obligations"] = cov.get("obligations", 0) + tot
    cov["discharged"] = cov.get("discharged", 0) + disch
    cov["samples"] = cov.get("samples", []) + samples
    cov["solver_time_s"] = {k: round(v / 1000, 2) for k, v in solver_ms.items()}
    cov["proof_wall_s"] = round(time.time() - t0, 1)
    cov["dropped_nodes"] = cov.get("dropped_nodes", []) + [list(d) for d in dropped]
    return all_recs, tot, disch

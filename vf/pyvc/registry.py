"""Registry of datatypes, class models, contracts and spec functions (the sidecar side of pyvc)."""
import z3

from .values import (Unsupported, TInt, TReal, TBool, TStr, TData, TList, TObj, TOpaque, TNone,
                     SData, SObj, SList, Type)


class Ctor:
    def __init__(self, name, real, fields, defaults):
        self.name = name          # z3 constructor name
        self.real = real          # qualified real class name or None
        self.fields = fields      # [(fname, type-string)]
        self.defaults = defaults  # {fname: python default}
        self.ftypes = None        # resolved Types
        self.idx = None


class DatatypeModel:
    def __init__(self, reg, name, ctors, none_ctor=None, coerce=None, invariant=None):
        self.reg = reg
        self.name = name
        self.ctors = ctors
        self.none_ctor = none_ctor
        self._coerce = coerce
        self._invariant = invariant
        self.sort = None

    # after creation -----------------------------------------------------------------------
    def ctor(self, name):
        for c in self.ctors:
            if c.name == name:
                return c
        raise KeyError(name)

    def make(self, cname, *terms):
        c = self.ctor(cname)
        return self.sort.constructor(c.idx)(*terms)

    def recognizer(self, cname):
        return self.sort.recognizer(self.ctor(cname).idx)

    def accessor(self, cname, fname):
        c = self.ctor(cname)
        for j, (f, _) in enumerate(c.fields):
            if f == fname:
                return self.sort.accessor(c.idx, j)
        raise KeyError(fname)

    def ctors_with_field(self, fname):
        return [c for c in self.ctors if any(f == fname for f, _ in c.fields)]

    def none_term(self):
        return self.make(self.none_ctor)

    def is_none(self, t):
        return self.recognizer(self.none_ctor)(t)

    def coerce(self, v, ctx):
        if self._coerce is not None:
            r = self._coerce(self, v, ctx)
            if r is not None:
                return r
        raise Unsupported(f"cannot coerce {v!r} to datatype {self.name}")

    def invariant(self, t):
        if self._invariant is not None:
            return self._invariant(self, t)
        return z3.BoolVal(True)


class ClassModel:
    """A mutable class whose instances are SObj records."""

    def __init__(self, reg, qualname, fields, invariant=None):
        self.reg = reg
        self.qualname = qualname
        self.field_types = fields   # {name: type-string}
        self.invariant_src = invariant or []

    def fresh(self, ctx, hint):
        o = SObj(self.qualname)
        for f, ts in self.field_types.items():
            ty = self.reg.type(ts)
            v = ty.fresh(ctx, f"{hint}.{f}")
            o.fields[f] = v
            if v is not None:
                ctx.assume(ty.invariant(v))
        return o


class Loop:
    def __init__(self, invariant, decreases=None, havoc=None, modifies=None, ghost=None, cases=None):
        self.invariant = invariant      # list of expression strings
        self.decreases = decreases      # expression string or None
        self.havoc = havoc or {}        # {local: type-string}
        self.modifies = modifies        # list of "self.x" or None (= function's)
        self.ghost = ghost or {}
        self.cases = cases or []        # proof hint: conditions on the state at the loop head; the step is verified once per
        #                                 truth assignment (c or not c is a tautology, so this only splits the obligation)


class Contract:
    def __init__(self, qualname, params=None, returns=None, requires=(), ensures=(), modifies=(),
                 raises=None, loops=None, tags=(), inline=False, locals_=None, old=None,
                 pure=False, self_type=None, raises_ensures=None, note="", of=None, lemmas=(), frame_when=None):
        self.qualname = qualname
        self.params = params or {}          # {param: type-string}
        self.returns = returns              # type-string or None
        self.requires = list(requires)
        self.ensures = list(ensures)        # normal postconditions; entries: str or (str, [tags])
        self.modifies = list(modifies)      # ["self.current", ...]
        self.raises = raises or {}          # {ExcName: condition-string or None}; None = may raise, nothing promised
        self.raises_ensures = raises_ensures or {}
        self.loops = loops or {}
        self.tags = list(tags)
        self.inline = inline
        self.locals = locals_ or {}
        self.pure = pure
        self.self_type = self_type
        self.note = note
        self.namespace = None
        self.frame_when = dict(frame_when or {})   # {condition on the entry state: [paths listed in modifies that are NOT assigned then]}
        self.lemmas = tuple(lemmas)   # names of opt-in lemmas (builders marked opt_in) this function's proof may use
        self.of = of              # a variant 'qualname#tag' verifies the source of `of` under different parameter types


class SpecFn:
    """Spec function: Python source (single return expression) translated to a z3 RecFunction."""

    def __init__(self, reg, pyfunc, params, ret):
        self.reg = reg
        self.pyfunc = pyfunc
        self.name = pyfunc.__name__
        self.params = params   # [(name, type-string)]
        self.ret = ret         # type-string
        self.z3fn = None
        self.defined = False


class Registry:
    def __init__(self):
        self.datatypes = {}
        self.classes = {}          # qualname -> ClassModel
        self.real_to_ctor = {}     # real class qualname -> (DatatypeModel, Ctor)
        self.contracts = {}
        self.specs = {}
        self.aliases = {}          # short type name -> Type factory
        self.externals = {}        # qualified name of a library function -> python model callable
        self.external_objects = {}  # real library object -> python model callable
        self.refs = {}
        self.inline = set()
        self._types = {}

    # -- types -----------------------------------------------------------------------------
    def type(self, ts):
        if isinstance(ts, Type):
            return ts
        if ts in self._types:
            return self._types[ts]
        t = self._parse_type(ts)
        self._types[ts] = t
        return t

    def _parse_type(self, ts):
        ts = ts.strip()
        if ts == "int":
            return TInt()
        if ts == "real" or ts == "float":
            return TReal()
        if ts == "bool":
            return TBool()
        if ts == "str":
            return TStr(False)
        if ts == "str?":
            return TStr(True)
        if ts == "None":
            return TNone()
        if ts == "any":
            return TOpaque("any")
        if ts == "dict":
            from .dicts import TDict
            return TDict()
        if ts in ("arr1", "arr2", "arr", "arr1b", "arr2b"):
            from .arrays import TArr
            return TArr({"arr1": "1", "arr2": "2", "arr": "?", "arr1b": "1", "arr2b": "2"}[ts], "bool" if ts.endswith("b") else "num")
        if ts == "list[arr1]":
            from .arrays import TArrList
            return TArrList()
        if ts == "char":
            from .chars import TChar
            return TChar()
        if ts == "arrseq":
            from .arrays import TArrSeq
            return TArrSeq()
        if ts == "termdict":
            from .refs import TTermDict
            return TTermDict(self)
        if ts == "frame":
            from .frames import TFrame
            return TFrame()
        if ts == "series":
            from .pandas_m import TSeries
            return TSeries()
        if ts == "slicedict":
            from .refs import TSliceDict
            return TSliceDict()
        if ts.startswith("ref:"):
            from .refs import TRef
            return TRef(self.refs[ts[4:]], self)
        if ts.startswith("list[") and ts.endswith("]"):
            return TList(self.type(ts[5:-1]))
        opt = ts.endswith("?")
        base = ts[:-1] if opt else ts
        if opt and (base in ("int", "real", "float", "bool", "arr1", "arr2", "arr", "any") or base.startswith("list[")):
            from .values import TOpt
            return TOpt(self.type(base))
        if base in self.datatypes:
            return TData(self.datatypes[base], optional=opt)
        if base in self.classes:
            return TObj(self.classes[base])
        if base in self.aliases:
            return self.aliases[base]
        raise Unsupported(f"unknown type '{ts}'")

    # -- declarations ----------------------------------------------------------------------
    def declare_datatypes(self, specs):
        """specs: list of dicts {name, ctors:[(cname, real, [(f, ts)], defaults)], none, coerce, invariant}."""
        models = []
        decls = []
        for sp in specs:
            ctors = [Ctor(c[0], c[1], c[2], c[3] if len(c) > 3 else {}) for c in sp["ctors"]]
            m = DatatypeModel(self, sp["name"], ctors, sp.get("none"), sp.get("coerce"), sp.get("invariant"))
            models.append(m)
            self.datatypes[sp["name"]] = m
            decls.append(z3.Datatype(sp["name"]))
        byname = {m.name: d for m, d in zip(models, decls)}

        def field_sort(ts):
            base = ts[:-1] if ts.endswith("?") else ts
            if base in byname:
                return byname[base]
            return self.type(ts).sort()
        for m, d in zip(models, decls):
            for i, c in enumerate(m.ctors):
                c.idx = i
                d.declare(c.name, *[(f"{c.name}_{f}", field_sort(ts)) for f, ts in c.fields])
        sorts = z3.CreateDatatypes(*decls)
        for m, s in zip(models, sorts):
            m.sort = s
        for m in models:
            for c in m.ctors:
                c.ftypes = [self.type(ts) for _, ts in c.fields]
                if c.real:
                    self.real_to_ctor[c.real] = (m, c)
        return models

    def declare_class(self, qualname, fields, invariant=None):
        cm = ClassModel(self, qualname, fields, invariant)
        self.classes[qualname] = cm
        return cm

    def declare_ref(self, name, fields, methods=None):
        from .refs import RefModel
        self.refs[name] = RefModel(name, fields, methods)
        return self.refs[name]

    def contract(self, qualname, **kw):
        import sys
        c = Contract(qualname, **kw)
        c.namespace = sys._getframe(1).f_globals      # names in its clauses resolve in the declaring module
        self.contracts[qualname] = c
        return c

    def spec(self, params, ret):
        def deco(f):
            s = SpecFn(self, f, params, ret)
            self.specs[f.__name__] = s
            f.__spec__ = s
            return f
        return deco

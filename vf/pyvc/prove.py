"""Generate and discharge the obligations of a list of functions under contract (process pool)."""
import importlib
import multiprocessing as mp
import os
import time
import traceback

import z3

from .values import Unsupported
from .ctx import Ctx
from .source import SourceIndex
from .stmts import Engine

QUICK_MS = 10000
THOROUGH_MS = 60000
SCALE = 1.0          # solver budgets are wall-clock: they are stretched when the machine is oversubscribed (see load_factor)


def load_factor():
    """How much slower than an idle core this process currently runs (1.0 .. 6.0), from a fixed CPU-bound probe."""
    best = None
    for _ in range(3):
        t = time.perf_counter()
        acc = 0
        for i in range(400000):
            acc += i * i
        d = time.perf_counter() - t
        best = d if best is None else min(best, d)
    return max(1.0, min(6.0, best / 0.032))


class Unfolder:
    """Spec functions as uninterpreted symbols plus instantiated definitions (sound: a subset of
    the facts the recursive definitions provide). Gives stable, quantifier-free queries."""

    def __init__(self, reg):
        self.specs = [sp for sp in reg.specs.values() if getattr(sp, "z3fn", None) is not None
                      and getattr(sp, "body", None) is not None]
        self.twin = {}
        self.pairs = []
        for sp in self.specs:
            f = sp.z3fn
            g = z3.Function(sp.name + "!u", *[f.domain(i) for i in range(f.arity())], f.range())
            self.twin[g.get_id()] = sp
            sp.twin = g
            self.pairs.append((f, g(*[z3.Var(i, f.domain(i)) for i in range(f.arity())])))

    def to_uf(self, e):
        return z3.substitute_funs(e, *self.pairs) if self.pairs else e

    def apps(self, e, acc, seen):
        stack = [e]
        while stack:
            x = stack.pop()
            i = x.get_id()
            if i in seen:
                continue
            seen.add(i)
            if z3.is_quantifier(x):
                continue
            if z3.is_app(x):
                if x.decl().get_id() in self.twin:
                    acc[i] = x
                stack.extend(x.children())

    def lemma(self, app):
        sp = self.twin[app.decl().get_id()]
        inst = z3.substitute(sp.body, *[(c, a) for c, a in zip(sp.consts, app.children())])
        return app == z3.simplify(self.to_uf(inst))

    def axioms(self):
        """Definitions as quantified axioms over the uninterpreted twins, triggered on the application."""
        out = []
        for sp in self.specs:
            app = sp.twin(*sp.consts)
            body = z3.simplify(self.to_uf(sp.body))
            out.append(z3.ForAll(list(sp.consts), app == body, patterns=[app]))
        return out

    def attempt(self, pc, goal, depth, timeout_ms, with_axioms=False, extra=(), seed=0, mbqi=True, hoist=False):
        hyps = [self.to_uf(p) for p in pc]
        g = self.to_uf(goal)
        acc, seen, done = {}, set(), set()
        for h in hyps + [g]:
            self.apps(h, acc, seen)
        lemmas = []
        for _ in range(depth):
            new = [a for i, a in acc.items() if i not in done]
            if not new:
                break
            for a in new:
                done.add(a.get_id())
                lem = self.lemma(a)
                lemmas.append(lem)
                self.apps(lem, acc, seen)
            if len(lemmas) > 400:
                break
        s = z3.Solver()
        s.set("timeout", timeout_ms)
        if seed:
            s.set("smt.random_seed", seed)
        if not mbqi:
            s.set("smt.mbqi", False)
        if with_axioms:
            s.set("smt.mbqi", False)
            s.set("smt.auto_config", False)
            for a in self.axioms():
                s.add(a)
        allh = hyps + lemmas + list(extra)
        if seed:
            # the order of the assertions steers z3's instantiation: a different (deterministic) order per attempt
            import random as _random
            _random.Random(seed).shuffle(allh)
        for h in allh:
            s.add(h)
        if hoist:
            for f in _hoisted_negation(g):
                s.add(f)
        else:
            s.add(z3.Not(g))
        self.last_apps = len(acc)
        return s.check()


def _hoisted_negation(g):
    """The negated goal in skolemised negation normal form, plus one atom M(t) (M a fresh uninterpreted predicate) for every maximal
    ground term t that occurs only under a quantifier of it. Equisatisfiable with Not(g) (skolemisation; M := true). Why: e-matching
    instantiates hypotheses at terms of the e-graph, and a ground term such as f(a[i0], b[j0]) that the negated goal mentions only
    inside 'forall r. c[r] != f(a[i0], b[j0])' enters the e-graph only once that quantifier has been instantiated - which may in
    turn need the hypotheses instantiated at a[i0], b[j0]."""
    gl = z3.Goal()
    gl.add(z3.Not(g))
    fs = [f for sub in z3.Tactic("nnf")(gl) for f in sub]
    ground = {}

    def is_ground(e):
        i = e.get_id()
        if i not in ground:
            ground[i] = (not z3.is_var(e)) and (not z3.is_quantifier(e)) and all(is_ground(c) for c in e.children())
        return ground[i]
    found = {}

    def walk(e, inq):
        if z3.is_quantifier(e):
            walk(e.body(), True)
        elif z3.is_app(e):
            if inq and e.num_args() > 0 and not z3.is_bool(e) and is_ground(e):
                found[e.get_id()] = e
                return
            for c in e.children():
                walk(c, inq)
    for f in fs:
        walk(f, False)
    out = list(fs)
    for t in found.values():
        out.append(z3.Function(f"mention!{t.sort().name()}", t.sort(), z3.BoolSort())(t))
    return out


def _relevance_stage(ob, timeout_ms, t0):
    """all quantifier-free hypotheses plus only those quantified ones that share an uninterpreted symbol with the goal, or (second
    round) with a hypothesis selected so far; a proof from a subset of the hypotheses is a proof"""
    try:
        for rounds in (1, 2):
            sub = _relevant(ob.pc, ob.goal, rounds)
            if len(sub) == len(ob.pc):
                break
            for mbqi in (False, True):
                st = z3.Solver()
                st.set("timeout", min(timeout_ms, int(1500 * SCALE)))
                st.set("smt.mbqi", mbqi)
                for p in sub:
                    st.add(p)
                st.add(z3.Not(ob.goal))
                if st.check() == z3.unsat:
                    return "proved", f"z3(relevant hypotheses, round {rounds})", (time.time() - t0) * 1000, None
    except z3.Z3Exception:
        pass
    return None


def _discharge(ob, timeout_ms, unfolder=None, lemmas=(), twin_lemmas=()):
    t0 = time.time()
    timeout_ms = int(timeout_ms * SCALE)
    if not ob.expect_sat:
        # witness stage: existential hypotheses are skolemised and the universal conjuncts of the negated goal are instantiated at
        # the skolem constants (sound: instances of a universally quantified assumption); decides goals of the form
        # "exists k. P(k) or Q(k)" from a hypothesis "exists k. P(k)" whose index terms are not usable as triggers
        try:
            hyps, insts = _witness_instances(ob.pc, ob.goal)
            if insts:
                for mbqi in (False, True):
                    st = z3.Solver()
                    st.set("timeout", min(timeout_ms, int(2000 * SCALE)))
                    st.set("smt.mbqi", mbqi)
                    for p in hyps + insts:
                        st.add(p)
                    st.add(z3.Not(ob.goal))
                    if st.check() == z3.unsat:
                        return "proved", "z3(skolem witnesses)", (time.time() - t0) * 1000, None
        except z3.Z3Exception:
            pass
    if unfolder is not None and not ob.expect_sat and _has_quant(ob.goal):
        # a quantified goal: first e-matching only, with the ground terms of the negated goal made visible (_hoisted_negation) - the VCs
        # are written for triggers, and such an attempt usually ends at once either way. (A quantifier-free goal hides no terms.)
        try:
            if unfolder.attempt(ob.pc, ob.goal, 1, min(timeout_ms, int(800 * SCALE)), extra=twin_lemmas, mbqi=False, hoist=True) == z3.unsat:
                return "proved", "z3(goal terms hoisted, unfold depth 1)", (time.time() - t0) * 1000, None
        except z3.Z3Exception:
            pass
    if unfolder is not None and not ob.expect_sat:
        # a small portfolio: quantifier instantiation is order-sensitive, so an attempt that gives up quickly is
        # retried with other seeds / without MBQI (each attempt is sound on its own)
        off = int(os.environ.get("PYVC_SEED_OFFSET", "0"))
        plan = ((0 + off, False), (1 + off, True), (2 + off, False), (3 + off, True))
        stop = False
        for ci, (seed, mbqi) in enumerate(plan):            # the depth ladder of one configuration, then the next configuration
            if ci == 1:
                # after the plain ladder failed: e-matching with the ground terms of the negated goal made visible (_hoisted_negation)
                for depth in (1, 2):
                    try:
                        r = unfolder.attempt(ob.pc, ob.goal, depth, min(timeout_ms, int(1500 * SCALE)), extra=twin_lemmas, mbqi=False, hoist=True)
                    except z3.Z3Exception:
                        break
                    if r == z3.unsat:
                        return "proved", f"z3(goal terms hoisted, unfold depth {depth})", (time.time() - t0) * 1000, None
                got = _relevance_stage(ob, timeout_ms, t0)      # then: fewer hypotheses
                if got is not None:
                    return got
            for depth in (1, 2, 3):
                try:
                    r = unfolder.attempt(ob.pc, ob.goal, depth, min(timeout_ms, int((500 + 700 * depth) * SCALE)), extra=twin_lemmas,
                                         seed=seed, mbqi=mbqi)
                except z3.Z3Exception:
                    stop = True
                    break
                if r == z3.unsat:
                    return "proved", f"z3(unfold depth {depth}, seed {seed - off}{', mbqi' if mbqi else ''})", (time.time() - t0) * 1000, None
                if (time.time() - t0) > 14 * SCALE:
                    stop = True
                    break
            if stop:
                break
        if True:
            # flat portfolio: many short attempts with different seeds and assertion orders find the quick proof of a
            # quantifier-heavy VC far more reliably than one long attempt
            for k in range(11, 21):
                try:
                    r = unfolder.attempt(ob.pc, ob.goal, 2, min(timeout_ms, int(2000 * SCALE)), extra=twin_lemmas, seed=k + off,
                                         mbqi=(k % 2 == 0))
                except z3.Z3Exception:
                    break
                if r == z3.unsat:
                    return "proved", f"z3(portfolio, attempt {k})", (time.time() - t0) * 1000, None
                if (time.time() - t0) > 24 * SCALE:
                    break
        if unfolder.specs:
            try:
                if unfolder.attempt(ob.pc, ob.goal, 2, min(timeout_ms, int(4000 * SCALE)), with_axioms=True, extra=twin_lemmas) == z3.unsat:
                    return "proved", "z3(definitional axioms, e-matching)", (time.time() - t0) * 1000, None
            except z3.Z3Exception:
                pass
    s = z3.Solver()
    s.set("timeout", min(timeout_ms, 700) if ob.expect_sat else timeout_ms)
    for p in ob.pc:
        s.add(p)
    if ob.expect_sat:
        r = s.check()
        res = "sat-ok" if r == z3.sat else ("vacuous" if r == z3.unsat else "unknown-sat")
        return res, "z3", (time.time() - t0) * 1000, None
    if lemmas:       # lemmas over specification functions (proved elsewhere, listed in the evidence) join the hypotheses
        ob.pc = list(ob.pc) + list(lemmas)
    # staged hypotheses: a proof from a subset of the path condition is a proof
    from .ctx import is_light
    light = [p for p in ob.pc if is_light(p)]
    noq = [p for p in ob.pc if not _has_quant(p)]
    for stage, hyps in (("light", light), ("no-quantifier", noq)):
        if len(hyps) == len(ob.pc):
            continue
        st = z3.Solver()
        st.set("timeout", min(timeout_ms, int(3000 * SCALE)))
        for p in hyps:
            st.add(p)
        st.add(z3.Not(ob.goal))
        if st.check() == z3.unsat:
            return "proved", f"z3({stage} hypotheses)", (time.time() - t0) * 1000, None
    # final stage: the full VC; e-matching only first (the VCs are written for triggers), then with MBQI
    s.set("smt.mbqi", False)
    s.add(z3.Not(ob.goal))
    r = s.check()
    backend = "z3(no-mbqi)"
    if r == z3.unknown:
        s2 = z3.Solver()
        s2.set("timeout", timeout_ms)
        s2.set("smt.random_seed", 7 + int(os.environ.get("PYVC_SEED_OFFSET", "0")))
        for p in ob.pc:
            s2.add(p)
        s2.add(z3.Not(ob.goal))
        r = s2.check()
        backend = "z3"
        if r != z3.unknown:
            s = s2
    ms = (time.time() - t0) * 1000
    if r == z3.unsat:
        return "proved", backend, ms, None
    if r == z3.sat:
        try:
            m = s.model()
            model = {str(d): str(m[d])[:400] for d in m.decls()[:80]}
        except Exception:
            model = {}
        return "refuted", backend, ms, model
    return "unknown", backend, ms, {"reason": s.reason_unknown()}


def _witness_instances(pc, goal, limit=24):
    consts = []

    def skol(p, depth=0):
        if depth > 6:
            return p
        if z3.is_quantifier(p) and p.is_exists():
            vs = [z3.FreshConst(p.var_sort(i), "sk") for i in range(p.num_vars())]
            consts.extend(vs)
            return skol(z3.substitute_vars(p.body(), *reversed(vs)), depth + 1)
        if z3.is_not(p) and z3.is_quantifier(p.arg(0)) and p.arg(0).is_forall():
            q = p.arg(0)
            vs = [z3.FreshConst(q.var_sort(i), "sk") for i in range(q.num_vars())]
            consts.extend(vs)
            return skol(z3.Not(z3.substitute_vars(q.body(), *reversed(vs))), depth + 1)
        if z3.is_and(p):
            return z3.And(*[skol(c, depth + 1) for c in p.children()])
        return p
    hyps = [skol(p) for p in pc]
    if not consts:
        return hyps, []
    insts = []

    def universals(e, positive, depth=0):
        if depth > 8 or len(insts) >= limit:
            return
        if z3.is_not(e):
            universals(e.arg(0), not positive, depth + 1)
        elif (z3.is_and(e) and positive) or (z3.is_or(e) and not positive):
            for c in e.children():
                universals(c, positive, depth + 1)
        elif z3.is_quantifier(e) and not e.is_lambda() and ((e.is_forall() and positive) or (e.is_exists() and not positive)):
            if e.num_vars() != 1:
                return
            for c in consts:
                if c.sort() == e.var_sort(0) and len(insts) < limit:
                    b = z3.substitute_vars(e.body(), c)
                    insts.append(b if positive else z3.Not(b))
    universals(z3.Not(goal), True)
    return hyps, insts


def _symbols(e, cache={}):
    k = e.get_id()
    if k in cache:
        return cache[k][1]
    out = set()
    stack = [e]
    seen = set()
    while stack:
        x = stack.pop()
        i = x.get_id()
        if i in seen:
            continue
        seen.add(i)
        if z3.is_quantifier(x):
            stack.append(x.body())
        elif z3.is_app(x):
            if x.decl().kind() == z3.Z3_OP_UNINTERPRETED or x.decl().kind() == z3.Z3_OP_RECURSIVE:
                out.add(x.decl().name())
            stack.extend(x.children())
    cache[k] = (e, out)
    return out


def _relevant(pc, goal, rounds):
    want = set(_symbols(goal))
    chosen = [False] * len(pc)
    quant = [_has_quant(p) for p in pc]
    for i, p in enumerate(pc):
        if not quant[i]:
            chosen[i] = True
    for _ in range(rounds):
        add = set()
        for i, p in enumerate(pc):
            if not chosen[i] and (_symbols(p) & want):
                chosen[i] = True
                add |= _symbols(p)
        if _ == 0:
            for i, p in enumerate(pc):
                if chosen[i] and not quant[i] and (_symbols(p) & want):
                    add |= _symbols(p)
        want |= add
    return [p for i, p in enumerate(pc) if chosen[i]]


def _has_quant(e):
    stack = [e]
    seen = set()
    while stack:
        x = stack.pop()
        if x.get_id() in seen:
            continue
        seen.add(x.get_id())
        if z3.is_quantifier(x):
            return True
        if z3.is_app(x):
            stack.extend(x.children())
    return False


def _contract_scope(cm, _cache={}):
    """names of the contract modules that `cm` builds on (itself, vf.contracts.base, and whatever it imports from, transitively): the
    lemmas registered by these - and only these - join the VCs of cm's functions. The registry is shared by every contract module
    loaded in the process, so without this a check that proves functions of several modules would add each module's quantified lemmas
    to every VC (Parser.call took 82 s next to the term-class lemmas, 3 s on its own)."""
    import sys
    import types
    if cm.__name__ in _cache:
        return _cache[cm.__name__]
    seen = {cm.__name__, "vf.contracts.base"}
    todo = [cm]
    while todo:
        m = todo.pop()
        for v in list(vars(m).values()):
            name = v.__name__ if isinstance(v, types.ModuleType) else getattr(v, "__module__", None)
            if isinstance(name, str) and (name.startswith("vf.contracts.") or name.startswith("vf.proplemmas")) and name not in seen:
                seen.add(name)
                if name in sys.modules:
                    todo.append(sys.modules[name])
    _cache[cm.__name__] = seen
    return seen


def verify_one(task):
    """task = (contract_module, qualname, timeout_ms). Returns a plain-data record."""
    modname, q, timeout_ms = task
    global SCALE
    SCALE = load_factor()
    t0 = time.time()
    rec = {"function": q, "load_factor": round(SCALE, 2), "obligations": [], "status": "ok", "paths": 0, "source": None}
    try:
        cm = importlib.import_module(modname)
        reg = cm.REG
        src = SourceIndex(os.environ.get("VERIF_REPO", "/repo"))
        fnode, m, cls, path, h = src.find(getattr(reg.contracts.get(q), "of", None) or q)
        rec["source"] = {"file": path, "line": fnode.lineno, "end": fnode.end_lineno, "sha": h}
        ctx = Ctx(reg, q)
        eng = Engine(reg, src, ctx, namespace=vars(cm))
        eng.verify_function(q)
        rec["paths"] = ctx.paths
        rec["dropped"] = sorted(set(eng.dropped))
        obs = list(ctx.obligations.values())
        unf = Unfolder(reg)
        lemmas, twin_lemmas = [], []
        wanted = set(getattr(reg.contracts.get(q), "lemmas", ()))
        scope = _contract_scope(cm)
        for build in getattr(reg, "lemmas", []):
            if getattr(build, "opt_in", False) and build.__name__ not in wanted:
                continue           # an expensive lemma (many instances): only for the functions that ask for it
            if getattr(build, "__module__", None) not in scope:
                continue           # a lemma of a contract module this one does not build on (it happens to be loaded in this process)
            try:
                lem = build(reg)
                if lem is not None:
                    lemmas.append(lem)
                lem = build(reg, True)
                if lem is not None:
                    twin_lemmas.append(lem)
            except Exception:
                pass
        rec["lemmas"] = [getattr(b, "__name__", "lemma") for b in getattr(reg, "lemmas", [])] if lemmas else []
        undischarged = {}
        budget = float(os.environ.get("PYVC_FUNCTION_BUDGET_S", "600"))
        for ob in obs:
            # a changed function typically breaks one clause on many paths: after three undischarged instances of the same
            # named obligation the remaining instances are not attempted (they stay 'unknown' = not proved); likewise once
            # the function's time budget is used up. Neither happens on a tree where everything is discharged.
            if not ob.expect_sat and (undischarged.get(ob.name, 0) >= 3 or time.time() - t0 > budget * SCALE):
                why = "skipped: same-named obligation already undischarged 3x" if undischarged.get(ob.name, 0) >= 3 else "skipped: function time budget used up"
                rec["obligations"].append({"name": ob.name, "kind": ob.kind, "line": ob.line, "tags": list(ob.tags),
                                           "result": "unknown", "backend": why, "ms": 0.0, "model": {"reason": why}})
                continue
            res, backend, ms, model = _discharge(ob, timeout_ms, unf, lemmas if not ob.expect_sat else (),
                                                 twin_lemmas if not ob.expect_sat else ())
            if res not in ("proved", "sat-ok"):
                undischarged[ob.name] = undischarged.get(ob.name, 0) + 1
            rec["obligations"].append({"name": ob.name, "kind": ob.kind, "line": ob.line, "tags": list(ob.tags),
                                       "result": res, "backend": backend, "ms": round(ms, 1), "model": model})
        if not [o for o in obs if o.kind != "pre-sat"]:
            rec["status"] = "no-obligations"      # vacuity guard: a function under contract must generate obligations
    except Unsupported as e:
        rec["status"] = "unsupported"
        rec["error"] = str(e)
    except Exception as e:   # checker failure
        rec["status"] = "error"
        rec["error"] = f"{type(e).__name__}: {e}"
        rec["traceback"] = traceback.format_exc()[-3000:]
    rec["wall_s"] = round(time.time() - t0, 2)
    return rec


def retry_function(contract_module, qualname, wanted, rounds=2, timeout_ms=15000, budget_s=120):
    """Second opinion for obligations that were discharged on the unchanged tree but came back 'unknown':
    the function is re-verified in fresh processes with other solver seeds and a longer budget. Returns the set of
    obligation names (from `wanted`) that were discharged in some round. A refutation is never overturned."""
    proved = set()
    ctxm = mp.get_context("fork")
    t_end = time.time() + budget_s
    for k in range(1, rounds + 1):
        remaining = t_end - time.time()
        if remaining < 5:
            break
        os.environ["PYVC_SEED_OFFSET"] = str(10 * k)
        pool = ctxm.Pool(1, maxtasksperchild=1)
        try:
            rec = pool.map_async(verify_one, [(contract_module, qualname, timeout_ms)]).get(timeout=remaining)[0]
        except mp.TimeoutError:
            pool.terminate()
            break
        finally:
            os.environ.pop("PYVC_SEED_OFFSET", None)
            pool.terminate()
        # several paths can produce obligations with the same name: a name counts only if ALL of them are discharged
        by_name = {}
        for o in rec["obligations"]:
            by_name.setdefault(o["name"], []).append(o["result"] == "proved")
        for n, oks in by_name.items():
            if all(oks):
                proved.add(n)
        if all(w in proved for w in wanted):
            break
    return proved


def verify_all(contract_module, qualnames, timeout_ms=QUICK_MS, procs=None):
    tasks = [(contract_module, q, timeout_ms) for q in qualnames]
    procs = procs or min(16, max(1, len(tasks)))
    if procs == 1 or os.environ.get("VERIF_SERIAL"):
        return [verify_one(t) for t in tasks]
    ctxm = mp.get_context("fork")
    with ctxm.Pool(procs, maxtasksperchild=1) as pool:
        return pool.map(verify_one, tasks, chunksize=1)


def summarise(records):
    tot = proved = 0
    bad = []
    for r in records:
        for o in r["obligations"]:
            if o["kind"] == "pre-sat":
                if o["result"] != "sat-ok":
                    bad.append((r["function"], o))
                continue
            tot += 1
            if o["result"] == "proved":
                proved += 1
            else:
                bad.append((r["function"], o))
    return tot, proved, bad

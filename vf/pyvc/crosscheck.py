"""Encoder cross-check: the symbolic executor is run on CONCRETE inputs (all calls inlined, loops unrolled, no
contracts) and its outcome - return value, raised exception class, final fields - must equal what CPython produces
on the real function. A disagreement means the engine, not the repository, is wrong (checker failure, exit 3)."""
import random

import numpy as np
import z3

from .values import SInt, SReal, SBool, SStr, SData, SList, SObj, SOpaque, TData, TOpaque, intern, str_of_id, Unsupported
from .ctx import Ctx
from .source import SourceIndex
from .stmts import Engine
from .interp import Frame, ReturnEx, PyRaise
from .arrays import SArr
from .ops import slist_from_py


import sys
sys.setrecursionlimit(max(sys.getrecursionlimit(), 20000))


class Concrete(Engine):
    """Engine in interpreter mode: every call to repository code is inlined."""
    max_depth = 2000
    unroll_bound = 5000

    def call_function(self, q, slf, args, kwargs, node):
        fnode, modname, cls, path, h = self.src.find(q)
        import ast
        is_method = cls is not None and not any(isinstance(d, ast.Name) and d.id == "staticmethod" for d in fnode.decorator_list)
        env = self.bind_params(fnode, slf, args, kwargs, node, is_method)
        if is_method:
            env[fnode.args.args[0].arg] = slf
        return self.inline_call(q, fnode, modname, cls, env, None)

    def loop_spec(self, node):
        return None, 0

    def iterable(self, v, node):
        v = super().iterable(v, node)
        if isinstance(v, SList):
            n = z3.simplify(v.len)
            if z3.is_int_value(n):          # a list of concrete length is walked element by element
                return [v.elem.wrap(z3.simplify(v.arr[k])) for k in range(n.as_long())]
        return v


def val(t):
    t = z3.simplify(t)
    if z3.is_int_value(t):
        return t.as_long()
    if z3.is_rational_value(t):
        return float(t.numerator_as_long()) / float(t.denominator_as_long())
    if z3.is_true(t):
        return True
    if z3.is_false(t):
        return False
    raise Unsupported(f"not a concrete term: {t}")


def decode(v, reg):
    if isinstance(v, (int, float, bool, str)) or v is None:
        return v
    if isinstance(v, SInt):
        return val(v.t)
    if isinstance(v, SReal):
        return val(v.t)
    if isinstance(v, SBool):
        return val(v.t)
    if isinstance(v, SStr):
        i = val(v.t)
        return None if i == -1 else str_of_id(i)
    if isinstance(v, SList):
        n = val(v.len)
        return [decode(v.elem.wrap(z3.simplify(v.arr[k])), reg) for k in range(n)]
    if isinstance(v, (list, tuple)):
        return type(v)(decode(x, reg) for x in v)
    if isinstance(v, SData):
        return decode_data(z3.simplify(v.t), v.ty.dt, reg)
    if isinstance(v, SArr):
        n0 = val(v.n0)
        if v.ndim == 1:
            return np.array([val(v.at(z3.IntVal(i), z3.IntVal(0))) for i in range(n0)], dtype=float)
        n1 = val(v.n1)
        return np.array([[val(v.at(z3.IntVal(i), z3.IntVal(j))) for j in range(n1)] for i in range(n0)], dtype=float).reshape(n0, n1)
    if isinstance(v, SObj):
        return {k: decode(x, reg) for k, x in v.fields.items()}
    if type(v).__name__ == "SChar":
        c = val(v.t)
        return "" if c == -1 else chr(c)
    raise Unsupported(f"cannot decode {v!r}")


def decode_data(t, dt, reg):
    d = t.decl()
    for c in dt.ctors:
        if d.name() == c.name:
            args = []
            for a, fty in zip(t.children(), c.ftypes):
                args.append(decode(fty.wrap(a), reg))
            if c.name in ("NoTok", "NoneE", "VNone"):
                return None
            if dt.name == "Val":
                return args[0]
            if dt.name == "ExprList":
                return [] if c.name == "Nil" else args[0] + [args[1]]
            if c.real:
                import importlib
                mod, cls = c.real.rsplit(".", 1)
                return getattr(importlib.import_module(mod), cls)(*args)
            return (c.name, args)
    raise Unsupported(f"unknown constructor {d.name()}")


def encode_token(tok, reg):
    dt = reg.datatypes["Tok"]
    val_dt = reg.datatypes["Val"]
    return SData(dt.make("Token", z3.IntVal(intern(tok.kind)), z3.IntVal(intern(tok.lexeme)), val_dt.coerce(tok.literal, None)), TData(dt))


def run_engine(reg, namespace, qualname, self_obj, args, kwargs=None, decoder=None):
    """Returns ('return', value) | ('raise', class name) with everything decoded to python."""
    src = SourceIndex()
    ctx = Ctx(reg, qualname)
    eng = Concrete(reg, src, ctx, namespace=namespace)
    fnode, modname, cls, path, h = src.find(qualname)
    eng.frame = Frame("crosscheck", fnode, modname, None, None, vars(src.real_module(modname)))
    eng.ghost, eng.global_cache, eng._fresh_ids, eng._fresh_keep, eng.opaque_heap = {}, {}, set(), [], {}
    eng.catches_index = True
    eng.frame.try_depth = 1          # exceptions are outcomes here, not obligations
    try:
        r = eng.call_function(qualname, self_obj, list(args), dict(kwargs or {}), None)
        return ("return", (decoder or decode)(r, reg), self_obj)
    except PyRaise as pr:
        return ("raise", pr.exc.cls.__name__, self_obj)
    except Unsupported as ex:          # the source uses something outside the modelled subset: no verdict on the encoder
        return ("skipped", str(ex)[:200], self_obj)


def token_kinds(v, reg):
    """kinds of a list of tokens (lexemes / literals computed from text are uninterpreted in the engine)."""
    dt = reg.datatypes["Tok"]
    acc = dt.accessor("Token", "kind")
    if isinstance(v, list):
        v = slist_from_py(v, reg.type("Tok"), None)
    n = val(v.len)
    return [str_of_id(val(acc(z3.simplify(v.arr[k])))) for k in range(n)]


# ---------------------------------------------------------------------------------------------
def check_parser(reg, ns, rnd, count=40):
    from formulae.scanner import Scanner
    from formulae.parser import Parser
    from ..props.C01 import _random_sentences, MUST_REJECT
    texts = _random_sentences(rnd, count) + MUST_REJECT[:12] + ["y ~ x[a] + f(x, k=2)", "{a + b} * c", "y ~ (1|g) + `w w`"]
    bad = []
    n = 0
    for s in texts:
        try:
            toks = Scanner(s).scan()
        except Exception:
            continue
        n += 1
        try:
            want = ("return", Parser(list(toks)).parse())
        except Exception as ex:
            want = ("raise", type(ex).__name__)
        obj = SObj("formulae.parser.Parser", {"current": 0, "tokens": slist_from_py([encode_token(t, reg) for t in toks], reg.type("Tok"), None)})
        got = run_engine(reg, ns, "formulae.parser.Parser.parse", obj, [])
        if got[0] == "skipped":
            SKIPPED.append(("Parser.parse", got[1]))
            continue
        if got[0] != want[0] or got[1] != want[1]:
            bad.append(("Parser.parse", s, str(want)[:200], str(got[:2])[:200]))
    return n, bad


def check_scanner(reg, ns, rnd, count=40):
    from formulae.scanner import Scanner
    from ..props.C01 import _random_sentences
    from .chars import TChar
    texts = _random_sentences(rnd, count) + ["y ~ 'a", "1.5 + x.y_z", "a ~ b ~ c", "`q", "x # y", "2.", ".5*x", "True + None", "a<=b != c"]
    bad = []
    n = 0
    for s in texts:
        if not s:
            continue
        n += 1
        try:
            want = ("return", [(t.kind, t.lexeme, t.literal) for t in Scanner(s).scan()])
        except Exception as ex:
            want = ("raise", type(ex).__name__)
        code = slist_from_py([TChar().wrap(z3.IntVal(ord(c))) for c in s], TChar(), None)
        obj = SObj("formulae.scanner.Scanner", {"code": code, "start": 0, "current": 0, "tokens": []})
        got = run_engine(reg, ns, "formulae.scanner.Scanner.scan", obj, [], {}, decoder=token_kinds)
        if got[0] == "skipped":
            SKIPPED.append(("Scanner.scan", got[1]))
            continue
        g = got[:2]
        if g[0] == "return":
            # lexemes and literals computed from text are uninterpreted in the engine: compare kinds only
            g = ("return", list(g[1]))
            w = ("return", [k for k, _, _ in want[1]]) if want[0] == "return" else want
        else:
            w = want
        if tuple(g) != tuple(w):
            bad.append(("Scanner.scan", s, str(w)[:200], str(g)[:200]))
    return n, bad


def arr_of(a):
    a = np.asarray(a, dtype=float)
    if a.ndim == 1:
        A = z3.K(z3.IntSort(), z3.RealVal(0))
        for i, x in enumerate(a):
            A = z3.Store(A, i, z3.RealVal(repr(float(x))))
        return SArr(1, z3.IntVal(len(a)), z3.IntVal(1), lambda i, j, A=A: A[i], "num", False)
    n0, n1 = a.shape
    A = z3.K(z3.IntSort(), z3.RealVal(0))
    for i in range(n0):
        for j in range(n1):
            A = z3.Store(A, i * max(n1, 1) + j, z3.RealVal(repr(float(a[i, j]))))
    return SArr(2, z3.IntVal(n0), z3.IntVal(n1), lambda i, j, A=A, n1=n1: A[i * max(n1, 1) + j], "num", False)


def check_numeric(reg, ns, rnd, count=25):
    from formulae.utils import get_interaction_matrix
    from formulae.categorical import Sum, Treatment
    rng = np.random.default_rng(rnd.randint(0, 10 ** 6))
    bad = []
    n = 0
    for _ in range(count):
        r, p, q = rnd.randint(1, 4), rnd.randint(1, 3), rnd.randint(1, 3)
        x = rng.integers(-3, 4, size=(r, p)).astype(float) if rnd.random() < 0.7 else rng.integers(-3, 4, size=r).astype(float)
        y = rng.integers(-3, 4, size=(r, q)).astype(float) if rnd.random() < 0.7 else rng.integers(-3, 4, size=r).astype(float)
        n += 1
        want = get_interaction_matrix(x, y)
        got = run_engine(reg, ns, "formulae.utils.get_interaction_matrix", None, [arr_of(x), arr_of(y)])
        if got[0] == "skipped":
            SKIPPED.append(("get_interaction_matrix", got[1]))
            continue
        if got[0] != "return" or got[1].shape != want.shape or not np.allclose(got[1], want):
            bad.append(("get_interaction_matrix", f"{x.tolist()} {y.tolist()}", str(want.tolist()), str(got[:2])[:200]))
    # contrast matrices: levels as distinct opaque constants
    U = TOpaque().sort()
    for k in range(1, 6):
        names = [f"L{i}" for i in range(k)]
        consts = [z3.Const(f"U!lit_{nm}", U) for nm in names]
        for ref in [None] + list(range(k)):
            n += 1
            levels = list(names)
            obj = SObj("formulae.categorical.Sum", {"omit": None if ref is None else names[ref]})
            ctx_assume = z3.BoolVal(True)
            got = run_engine_with(reg, ns, "formulae.categorical.Sum._sum_contrast", obj, [levels], [ctx_assume])
            if got[0] == "skipped":
                SKIPPED.append(("Sum._sum_contrast", got[1]))
                continue
            want = Sum(None if ref is None else names[ref])._sum_contrast(names)
            if got[0] != "return" or got[1].shape != np.asarray(want).shape or not np.allclose(got[1], want):
                bad.append(("Sum._sum_contrast", f"n={k} omit={ref}", str(np.asarray(want).tolist()), str(got[:2])[:200]))
    return n, bad


def run_engine_with(reg, ns, qualname, self_obj, args, assumptions):
    src = SourceIndex()
    ctx = Ctx(reg, qualname)
    eng = Concrete(reg, src, ctx, namespace=ns)
    fnode, modname, cls, path, h = src.find(qualname)
    eng.frame = Frame("crosscheck", fnode, modname, None, None, vars(src.real_module(modname)))
    eng.ghost, eng.global_cache, eng._fresh_ids, eng._fresh_keep, eng.opaque_heap = {}, {}, set(), [], {}
    eng.catches_index = True
    eng.frame.try_depth = 1
    for a in assumptions:
        ctx.assume(a)
    try:
        r = eng.call_function(qualname, self_obj, list(args), {}, None)
        return ("return", decode(r, reg), self_obj)
    except PyRaise as pr:
        return ("raise", pr.exc.cls.__name__, self_obj)
    except Unsupported as ex:
        return ("skipped", str(ex)[:200], self_obj)


SKIPPED = []


def run(seed=0, count=None):
    """Returns (cases, disagreements). count: random cases per family (default: the functions' own)."""
    import importlib
    rnd = random.Random(seed)
    pc = importlib.import_module("vf.contracts.parser_c")
    sc = importlib.import_module("vf.contracts.scanner_c")
    cat = importlib.import_module("vf.contracts.categorical_c")
    importlib.import_module("vf.contracts.utils_c")
    reg = pc.REG
    total, bad = 0, []
    del SKIPPED[:]
    for fn, ns in ((check_parser, vars(pc)), (check_scanner, vars(sc)), (check_numeric, vars(cat))):
        n, b = fn(reg, ns, rnd) if count is None else fn(reg, ns, rnd, count)
        total += n
        bad += b
    return total, bad

"""Symbolic executor over the real source (expressions)."""
import ast
import builtins
import importlib
import inspect
import textwrap

import z3

from .values import (Sym, SInt, SReal, SBool, SStr, SData, SList, SObj, SExc, SOpaque, SSlice, Star,
                     Unsupported, intern, TInt, TReal, TBool, TStr, TData, TList, TObj, TOpaque)
from .ctx import PathEnd
from .ops import str_term as ops_str_term
from . import ops
from .ops import (eq, arith, compare, to_bool_term, bool_val, z_and, z_or, z_not, zb, snapshot,
                  int_term, is_sym, type_of, slist_from_py)


class ReturnEx(Exception):
    def __init__(self, value):
        self.value = value


class BreakEx(Exception):
    pass


class ContinueEx(Exception):
    pass


class PyRaise(Exception):
    def __init__(self, exc, line=0):
        self.exc = exc
        self.line = line


class BoundMethod:
    def __init__(self, obj, name):
        self.obj = obj
        self.name = name


class Closure:
    def __init__(self, node, frame):
        self.node = node
        self.frame = frame


class Frame:
    def __init__(self, qualname, node, modname, clsqual, contract, globs):
        self.qualname = qualname
        self.node = node
        self.modname = modname
        self.clsqual = clsqual
        self.contract = contract
        self.globals = globs
        self.env = {}
        self.old = None
        self.try_depth = 0
        self.loop_ordinal = 0
        self.spec_env = False
        self.loop_ids = {}
        if isinstance(node, ast.FunctionDef):
            loops = [n for n in ast.walk(node) if isinstance(n, (ast.While, ast.For))]
            loops.sort(key=lambda n: (n.lineno, n.col_offset))
            self.loop_ids = {id(n): k + 1 for k, n in enumerate(loops)}


def qual_of(obj):
    m = getattr(obj, "__module__", None)
    q = getattr(obj, "__qualname__", None)
    if m and q:
        return f"{m}.{q}"
    return None


CMP = {ast.Eq: "==", ast.NotEq: "!=", ast.Lt: "<", ast.LtE: "<=", ast.Gt: ">", ast.GtE: ">="}
BIN = {ast.Add: "+", ast.Sub: "-", ast.Mult: "*", ast.Div: "/", ast.FloorDiv: "//", ast.Mod: "%",
       ast.Pow: "**"}


class ExprMixin:
    # ------------------------------------------------------------------ helpers
    def truth(self, v):
        b = to_bool_term(v)
        if isinstance(b, bool):
            return b
        return self.ctx.branch(b)

    def as_bool_term(self, v):
        return zb(to_bool_term(v))

    def line(self, node):
        return getattr(node, "lineno", 0)

    def raise_py(self, cls, node=None, args=()):
        raise PyRaise(SExc(cls, args), self.line(node) if node is not None else 0)

    # ------------------------------------------------------------------ names
    def lookup(self, name, node=None):
        fr = self.frame
        if name in fr.env:
            return fr.env[name]
        if name in self.special:
            return self.special[name]
        if fr.globals is not None and name in fr.globals:
            return self.lift_global(fr.globals[name])
        if name in self.reg_namespace:
            return self.reg_namespace[name]
        if hasattr(builtins, name):
            return getattr(builtins, name)
        raise Unsupported(f"{fr.qualname}:{self.line(node)} unknown name '{name}'")

    @property
    def fresh_ids(self):
        f = getattr(self, "_fresh_ids", None)
        if f is None:
            f = self._fresh_ids = set()
            self._fresh_keep = []
        return f

    def lift_global(self, obj):
        """Module-level singletons with a class model (e.g. formulae.config.config) become symbolic objects
        whose fields satisfy the class's declared types; one object per path."""
        fac = getattr(self.reg, "global_objects", {}).get(id(obj))
        if fac is None:
            return obj
        cache = getattr(self, "global_cache", None)
        if cache is None:
            cache = self.global_cache = {}
        if id(obj) not in cache:
            cache[id(obj)] = fac(self)
        return cache[id(obj)]

    # ------------------------------------------------------------------ expressions
    def ev(self, node):
        m = getattr(self, "ev_" + type(node).__name__, None)
        if m is None:
            raise Unsupported(f"{self.frame.qualname}:{self.line(node)} expression {type(node).__name__}")
        return m(node)

    def ev_Constant(self, node):
        return node.value

    def ev_Name(self, node):
        return self.lookup(node.id, node)

    def ev_Tuple(self, node):
        return tuple(self.ev_seq(node.elts))

    def ev_List(self, node):
        v = list(self.ev_seq(node.elts))
        self.fresh_ids.add(id(v))
        return v

    def ev_seq(self, elts, allow_star=False):
        out = []
        for e in elts:
            if isinstance(e, ast.Starred):
                v = self.ev(e.value)
                if isinstance(v, (list, tuple)):
                    out.extend(v)
                elif allow_star and isinstance(v, (SList, SOpaque)):
                    out.append(Star(v))
                else:
                    raise Unsupported("starred symbolic sequence")
            else:
                out.append(self.ev(e))
        return out

    def ev_Dict(self, node):
        d = {}
        self.fresh_ids.add(id(d))
        for k, v in zip(node.keys, node.values):
            if k is None:
                inner = self.ev(v)
                if not isinstance(inner, dict):
                    raise Unsupported("** of a non-concrete dict")
                d.update(inner)
            else:
                kk = self.ev(k)
                if is_sym(kk):
                    raise Unsupported("symbolic dict key in a literal")
                d[kk] = self.ev(v)
        return d

    def ev_JoinedStr(self, node):
        # message / label text: an opaque fresh string unless a string model is registered
        parts = []
        for v in node.values:
            if isinstance(v, ast.Constant):
                parts.append(v.value)
            else:
                parts.append(self.ev(v.value))
        if all(isinstance(p, str) for p in parts):
            return "".join(parts)
        if self.str_concat is not None:
            return self.str_concat(self, parts)
        return SStr(self.ctx.fresh("fstr", z3.IntSort()))

    def ev_IfExp(self, node):
        t = self.ev(node.test)
        b = to_bool_term(t)
        if isinstance(b, bool):
            return self.ev(node.body if b else node.orelse)
        if self.ctx.spec_mode:
            # a condition the path has already decided selects its branch (keeps specification terms syntactically
            # aligned with the terms the code built on this path)
            if self.ctx.entails(b):
                return self.ev(node.body)
            if self.ctx.entails(z3.Not(b)):
                return self.ev(node.orelse)
            self.ctx.guards.append(b)
            try:
                x = self.ev(node.body)
            finally:
                self.ctx.guards.pop()
            self.ctx.guards.append(z3.Not(b))
            try:
                y = self.ev(node.orelse)
            finally:
                self.ctx.guards.pop()
            return self.merge(b, x, y)
        return self.ev(node.body if self.ctx.branch(b) else node.orelse)

    def merge(self, b, x, y):
        """If(b, x, y) on values."""
        if isinstance(x, (bool, SBool)) and isinstance(y, (bool, SBool)):
            return bool_val(z3.If(b, zb(to_bool_term(x)), zb(to_bool_term(y))))
        if ops.is_numeric(x) and ops.is_numeric(y):
            tx, rx = ops.num_term(x)
            ty, ry = ops.num_term(y)
            if rx or ry:
                tx = tx if rx else z3.ToReal(tx)
                ty = ty if ry else z3.ToReal(ty)
                return SReal(z3.If(b, tx, ty))
            return SInt(z3.If(b, tx, ty))
        if ops.is_strlike(x) and ops.is_strlike(y):
            return SStr(z3.If(b, ops.str_term(x), ops.str_term(y)),
                        optional=bool(getattr(x, "optional", False) or getattr(y, "optional", False)))
        if (x is None and ops.is_strlike(y)) or (y is None and ops.is_strlike(x)):      # an optional string
            tx = z3.IntVal(-1) if x is None else ops.str_term(x)
            ty = z3.IntVal(-1) if y is None else ops.str_term(y)
            return SStr(z3.If(b, tx, ty), optional=True)
        if isinstance(x, SData) or isinstance(y, SData):
            d = x if isinstance(x, SData) else y
            return SData(z3.If(b, d.ty.unwrap(x, self.ctx), d.ty.unwrap(y, self.ctx)), d.ty)
        if isinstance(x, SList) and isinstance(y, SList):
            return SList(z3.If(b, x.len, y.len), z3.If(b, x.arr, y.arr), x.elem)
        if isinstance(x, SOpaque) and isinstance(y, SOpaque):
            return SOpaque(z3.If(b, x.t, y.t), x.tag)
        if (x is None and isinstance(y, SOpaque)) or (y is None and isinstance(x, SOpaque)):
            from .opaque import ufun as _uf          # None among opaque values: one constant, recognised by is_none
            from .ops import opaque_pred
            o = x if isinstance(x, SOpaque) else y
            none_u = z3.Const("U!None", o.t.sort())
            self.ctx.assume(opaque_pred("is_none")(none_u))
            return SOpaque(z3.If(b, none_u if x is None else x.t, none_u if y is None else y.t), o.tag)
        raise Unsupported(f"cannot merge {x!r} and {y!r}")

    def ev_BoolOp(self, node):
        is_and = isinstance(node.op, ast.And)
        if self.ctx.spec_mode:
            terms = []
            pushed = 0
            try:
                for v in node.values:
                    t = to_bool_term(self.ev(v))
                    terms.append(t)
                    g = t if is_and else z_not(t)
                    if not isinstance(g, bool):
                        self.ctx.guards.append(g)
                        pushed += 1
                    elif g is False:
                        break
            finally:
                for _ in range(pushed):
                    self.ctx.guards.pop()
            return bool_val(z_and(*terms) if is_and else z_or(*terms))
        last = None
        for v in node.values:
            last = self.ev(v)
            t = self.truth(last)
            if is_and and not t:
                return last
            if not is_and and t:
                return last
        return last

    def ev_UnaryOp(self, node):
        v = self.ev(node.operand)
        if isinstance(node.op, ast.Not):
            return bool_val(z_not(to_bool_term(v)))
        if isinstance(node.op, ast.USub):
            return arith("-", 0, v)
        if isinstance(node.op, ast.UAdd):
            return v
        if isinstance(node.op, ast.Invert) and hasattr(v, "invert"):
            return v.invert(self)
        raise Unsupported(f"unary {type(node.op).__name__}")

    def ev_BinOp(self, node):
        a = self.ev(node.left)
        b = self.ev(node.right)
        return self.binop(BIN.get(type(node.op)) or type(node.op).__name__, a, b, node)

    def binop(self, op, a, b, node=None):
        if op == "+" and isinstance(a, (list, SList)) and isinstance(b, (list, SList)):
            return self.list_concat(a, b)
        if op == "+" and isinstance(a, tuple) and isinstance(b, tuple):
            return a + b
        if op == "+" and ops.is_strlike(a) and ops.is_strlike(b):
            if isinstance(a, str) and isinstance(b, str):
                return a + b
            if self.str_concat is not None:
                return self.str_concat(self, [a, b])
            return SStr(self.ctx.fresh("concat", z3.IntSort()))
        if op == "*" and isinstance(a, list) and isinstance(b, int):
            return a * b
        if op == "*" and isinstance(a, list) and isinstance(b, SInt) and a and all(ops.is_numeric(e) for e in a):
            # [u, v, ...] * n for a symbolic n: the list repeated n times (n <= 0 gives the empty list)
            from .values import TReal
            k = len(a)
            terms = [ops.num_term(e)[0] if ops.num_term(e)[1] else z3.ToReal(ops.num_term(e)[0]) for e in a]
            i = z3.Int("rep_i")
            body = terms[-1]
            for q in range(k - 2, -1, -1):
                body = z3.If(i % k == q, terms[q], body)
            return SList(z3.simplify(z3.If(b.t > 0, b.t * k, 0)), z3.Lambda([i], body), TReal())
        for x, y, refl in ((a, b, False), (b, a, True)):
            h = getattr(x, "binop", None)
            if h is not None and not isinstance(x, (int, float, str)):
                r = h(self, op, y, refl)
                if r is not NotImplemented:
                    return r
        if ops.is_numeric(a) and ops.is_numeric(b):
            return arith(op, a, b)
        DUNDER = {"+": "__add__", "-": "__sub__", "*": "__mul__", "/": "__truediv__", "**": "__pow__", "MatMult": "__matmul__",
                  "BitOr": "__or__"}
        if isinstance(a, SObj) and op in DUNDER and self.src.class_has_method(a.cls, DUNDER[op]):
            return self.call_method(a, DUNDER[op], [b], {}, node)
        raise Unsupported(f"{self.frame.qualname}:{self.line(node)} operator {op} on {a!r}, {b!r}")

    def ev_Compare(self, node):
        left = self.ev(node.left)
        acc = True
        for opn, rn in zip(node.ops, node.comparators):
            right = self.ev(rn)
            r = self.compare1(opn, left, right, node)
            if len(node.ops) == 1:
                return bool_val(r) if not is_sym(r) or isinstance(r, z3.ExprRef) else r
            acc = z_and(acc, zb(to_bool_term(bool_val(r))) if not isinstance(r, bool) else r)
            left = right
        return bool_val(acc)

    def compare1(self, opn, a, b, node):
        if isinstance(opn, (ast.Is, ast.IsNot)):
            if a is None or b is None:
                r = eq(a, b, self.ctx)
            elif isinstance(a, (SObj, SExc)) or isinstance(b, (SObj, SExc)):
                r = a is b
            elif isinstance(a, bool) or isinstance(b, bool):
                r = eq(a, b, self.ctx) if isinstance(a, (bool, SBool)) and isinstance(b, (bool, SBool)) else False
            else:
                r = eq(a, b, self.ctx)
            return z_not(r) if isinstance(opn, ast.IsNot) else r
        if isinstance(opn, (ast.In, ast.NotIn)):
            r = self.contains(b, a, node)
            return z_not(r) if isinstance(opn, ast.NotIn) else r
        op = CMP[type(opn)]
        if (op in ("==", "!=") and isinstance(a, SObj) and not self.ctx.spec_mode and a is not b
                and self.src.class_has_method(a.cls, "__eq__")):
            # a == b on an object whose class overloads __eq__: in CODE this calls the overload (by its contract); identity only
            # for classes without one. (Inside specifications == on objects means identity, e.g. 'result == self'.)
            q_ = a.cls + ".__eq__"
            if q_ not in self.reg.contracts and not self.inline_ok(q_):
                raise Unsupported(f"{self.frame.qualname}:{self.line(node)} == on {a.cls}, whose __eq__ has no contract")
            r = self.call_method(a, "__eq__", [b], {}, node)
            r = to_bool_term(r)
            return z_not(r) if op == "!=" else r
        for x, y, refl in ((a, b, False), (b, a, True)):
            h = getattr(x, "cmpop", None)
            if h is not None and is_sym(x):
                r = h(self, op, y, refl)
                if r is not NotImplemented:
                    return r
        return compare(op, a, b, self.ctx)

    def contains(self, container, item, node=None):
        if isinstance(container, (list, tuple, set, frozenset)):
            return z_or(*[eq(item, x, self.ctx) for x in container])
        if isinstance(container, dict):
            return z_or(*[eq(item, k, self.ctx) for k in container])
        if isinstance(container, SList):
            j = self.ctx.fresh("inj", z3.IntSort())
            t = container.elem.unwrap(item, self.ctx)
            return z3.Exists([j], z3.And(0 <= j, j < container.len, container.arr[j] == t))
        h = getattr(container, "contains", None)
        if h is not None:
            return h(self, item)
        if isinstance(container, str) and isinstance(item, str):
            return item in container
        raise Unsupported(f"{self.frame.qualname}:{self.line(node)} 'in' on {container!r}")

    # ------------------------------------------------------------------ lists
    def to_slist(self, v, elem=None):
        if isinstance(v, SList):
            return v
        if isinstance(v, (list, tuple)):
            if elem is None:
                if not v:
                    raise Unsupported("cannot type an empty list")
                elem = type_of(v[0], self.reg)
            return slist_from_py(list(v), elem, self.ctx)
        raise Unsupported(f"not a list: {v!r}")

    def list_concat(self, a, b):
        if isinstance(a, list) and isinstance(b, list):
            return a + b
        if isinstance(a, list):
            if not a:
                return b.copy()
            a = self.to_slist(a, b.elem)
        if isinstance(b, list):
            if not b:
                return a.copy()
            b = self.to_slist(b, a.elem)
        i = z3.Int("cc_i")
        arr = z3.Lambda([i], z3.If(i < a.len, a.arr[i], b.arr[i - a.len]))
        return SList(z3.simplify(a.len + b.len), arr, a.elem)

    def index_list(self, lst, idx, node):
        if isinstance(idx, SSlice) or isinstance(idx, slice):
            return self.slice_list(lst, idx, node)
        if isinstance(lst, (list, tuple)):
            if isinstance(idx, int):
                try:
                    return lst[idx]
                except IndexError:
                    self.raise_py(IndexError, node)
            it = int_term(idx)
            n = len(lst)
            eff = z3.If(it < 0, it + n, it)
            self.index_check(z3.And(0 <= eff, eff < n), node)
            if n == 0:
                raise PathEnd()
            # pick the element by case split
            k = None
            for j in range(n):
                if self.ctx.entails(eff == j):
                    k = j
                    break
            if k is None:
                for j in range(n - 1):
                    if self.ctx.branch(eff == j):
                        k = j
                        break
                else:
                    k = n - 1
            return lst[k]
        it = int_term(idx)
        if self.ctx.spec_mode:
            return lst.elem.wrap(z3.simplify(lst.arr[it]))   # mathematical indexing in specifications
        if self.ctx.entails(it >= 0):
            eff = it
        else:
            eff = z3.simplify(z3.If(it < 0, it + lst.len, it))
        self.index_check(z3.And(0 <= eff, eff < lst.len), node)
        v = lst.elem.wrap(z3.simplify(lst.arr[eff]))
        if isinstance(v, SData):
            self.ctx.assume(lst.elem.invariant(v))   # list elements obey their declared type
        return v

    def index_check(self, ok, node):
        if self.ctx.spec_mode:
            return
        if self.frame.try_depth > 0 or self.catches_index:
            if not self.ctx.branch(ok):
                self.raise_py(IndexError, node)
        else:
            self.ctx.oblige("index", ok, self.line(node))

    def slice_list(self, lst, sl, node):
        lo, hi = sl.start, sl.stop
        if isinstance(lst, (list, tuple)) and (lo is None or isinstance(lo, int)) and (hi is None or isinstance(hi, int)):
            return lst[lo:hi]
        lst = self.to_slist(lst)
        n = lst.len

        def clip(v, default):
            if v is None:
                return default
            t = int_term(v)
            t = z3.If(t < 0, t + n, t)
            return z3.If(t < 0, 0, z3.If(t > n, n, t))
        a = z3.simplify(clip(lo, z3.IntVal(0)))
        b = z3.simplify(clip(hi, n))
        ln = z3.simplify(z3.If(b > a, b - a, 0))
        i = z3.Int("sl_i")
        return SList(ln, z3.Lambda([i], lst.arr[i + a]), lst.elem)

    def ev_Slice(self, node):
        lo = self.ev(node.lower) if node.lower is not None else None
        hi = self.ev(node.upper) if node.upper is not None else None
        if node.step is not None:
            raise Unsupported("slice step")
        return SSlice(lo, hi)

    def ev_Subscript(self, node):
        base = self.ev(node.value)
        idx = self.ev(node.slice)
        return self.subscript(base, idx, node)

    def subscript(self, base, idx, node):
        if isinstance(base, (list, tuple, SList)):
            return self.index_list(base, idx, node)
        if isinstance(base, dict):
            return self.dict_get(base, idx, node)
        h = getattr(base, "getitem", None)
        if h is not None:
            return h(self, idx, node)
        if isinstance(base, SData) and getattr(base.ty.dt, "getitem", None) is not None:
            return base.ty.dt.getitem(self, base, idx, node)
        if isinstance(base, SObj):
            return self.call_method(base, "__getitem__", [idx], {}, node)
        if isinstance(base, str) and isinstance(idx, int):
            return base[idx]
        if isinstance(base, (str, SStr)) and isinstance(idx, (SSlice, slice)) and idx.start == 1 and idx.stop == -1:
            from .opaque import ufun           # s[1:-1]: the text without its first and last character
            return SStr(ufun("str.unquote", z3.IntSort(), z3.IntSort())(ops.str_term(base)))
        raise Unsupported(f"{self.frame.qualname}:{self.line(node)} subscript on {base!r}")

    def concretize(self, v, candidates=None):
        """A symbolic string whose value is forced by the path condition, as a python str (or None)."""
        if not isinstance(v, SStr):
            return v if isinstance(v, str) else None
        from .values import _STR
        for s_ in (candidates if candidates is not None else list(_STR)):
            if self.ctx.entails(v.t == intern(s_)):
                return s_
        return None

    def dict_get(self, d, key, node):
        if not is_sym(key):
            if key in d:
                return d[key]
            self.raise_py(KeyError, node)
        c = self.concretize(key, list(k for k in d if isinstance(k, str)))
        if c is not None:
            return d[c]
        if self.ctx.spec_mode:
            res = None
            for k in reversed(list(d)):
                res = d[k] if res is None else self.merge(zb(eq(key, k, self.ctx)), d[k], res)
            return res
        for k in d:
            if self.ctx.branch(zb(eq(key, k, self.ctx))):
                return d[k]
        self.raise_py(KeyError, node)

    # ------------------------------------------------------------------ comprehension
    def ev_ListComp(self, node):
        if len(node.generators) != 1:
            raise Unsupported("nested comprehension")
        gen = node.generators[0]
        it = self.ev(gen.iter)
        it = self.iterable(it, node)
        if isinstance(it, (list, tuple)):
            out = []
            saved = dict(self.frame.env)
            for x in it:
                self.assign(gen.target, x)
                if all(self.truth(self.ev(c)) for c in gen.ifs):
                    out.append(self.ev(node.elt))
            self.frame.env = saved
            return out
        if gen.ifs:
            return self.filtered_comp(node, gen, it)
        if isinstance(it.elem, TOpaque) and not self.ctx.spec_mode and self._elt_is_opaque_method(node.elt, gen.target):
            # opaque elements (e.g. lazy argument objects): the element expression is abstracted to an
            # uninterpreted function of the element; its calls are assumed not to touch modelled state
            j = z3.Int("cj")
            fn = z3.Function(f"comp!{self.line(node)}", it.elem.sort(), it.elem.sort())
            return SList(it.len, z3.Lambda([j], fn(it.arr[j])), it.elem)
        j = self.ctx.fresh("cj", z3.IntSort())
        saved = dict(self.frame.env)
        self.assign(gen.target, it.elem.wrap(it.arr[j]))
        self.ctx.spec_mode += 1
        self.ctx.guards.append(z3.And(0 <= j, j < it.len))
        try:
            v = self.ev(node.elt)
        finally:
            self.ctx.guards.pop()
            self.ctx.spec_mode -= 1
            self.frame.env = saved
        if type(v).__name__ == "SArr":
            from .arrays import seq_from_elements
            return seq_from_elements(it.len, j, v)
        ety = type_of(v, self.reg)
        if ety is None:
            raise Unsupported("comprehension element type")
        if isinstance(ety, TOpaque) and isinstance(it.elem, TData) and z3.is_const(it.arr):
            # opaque results computed from datatype elements: a named array with the defining equation triggered from either side
            # (so that a fact about source element k produces result element k and vice versa)
            res = self.ctx.fresh("comp", z3.ArraySort(z3.IntSort(), ety.sort()))
            body = ety.unwrap(v, self.ctx)
            self.ctx.assume(z3.ForAll([j], z3.Implies(z3.And(0 <= j, j < it.len), res[j] == body), patterns=[res[j], it.arr[j]]))
            return SList(it.len, res, ety)
        return SList(it.len, z3.Lambda([j], ety.unwrap(v, self.ctx)), ety)

    def filtered_comp(self, node, gen, it):
        """[elt for x in L if P]: the elements of L that satisfy P, in order (a fresh list characterised by an
        increasing index map onto exactly the positions where P holds)."""
        j = self.ctx.fresh("fj", z3.IntSort())
        saved = dict(self.frame.env)
        self.assign(gen.target, it.elem.wrap(it.arr[j]))
        self.ctx.spec_mode += 1
        try:
            conds = [zb(to_bool_term(self.ev(c))) for c in gen.ifs]
            v = self.ev(node.elt)
        finally:
            self.ctx.spec_mode -= 1
            self.frame.env = saved
        P = z_and(*conds)
        ety = type_of(v, self.reg)
        if ety is None:
            raise Unsupported("comprehension element type")
        vt = ety.unwrap(v, self.ctx)
        g = z3.Function(str(self.ctx.fresh("filt.idx", z3.IntSort())), z3.IntSort(), z3.IntSort())
        m = self.ctx.fresh("filt.len", z3.IntSort())
        k, a, b, i = z3.Ints("ft_k ft_a ft_b ft_i")

        def Pat(t):
            return z3.substitute(zb(P), (j, t))
        self.ctx.assume(m >= 0)
        self.ctx.assume(z3.ForAll([k], z3.Implies(z3.And(0 <= k, k < m), z3.And(0 <= g(k), g(k) < it.len, Pat(g(k))))))
        self.ctx.assume(z3.ForAll([a, b], z3.Implies(z3.And(0 <= a, a < b, b < m), g(a) < g(b))))
        self.ctx.assume(z3.ForAll([i], z3.Implies(z3.And(0 <= i, i < it.len, Pat(i)),
                                                  z3.Exists([k], z3.And(0 <= k, k < m, g(k) == i)))))
        return SList(m, z3.Lambda([k], z3.substitute(vt, (j, g(k)))), ety)

    ev_GeneratorExp = ev_ListComp

    @staticmethod
    def _elt_is_opaque_method(elt, target):
        return (isinstance(elt, ast.Call) and isinstance(elt.func, ast.Attribute) and isinstance(elt.func.value, ast.Name)
                and isinstance(target, ast.Name) and elt.func.value.id == target.id)

    def ev_DictComp(self, node):
        gen = node.generators[0]
        it = self.ev(gen.iter)
        if isinstance(it, SOpaque):
            # elements are opaque: the comprehension's value is an opaque mapping
            return SOpaque(self.ctx.fresh("dictcomp", it.t.sort()), "any")
        it = self.iterable(it, node)
        if isinstance(it, (list, tuple)):
            out = {}
            saved = dict(self.frame.env)
            for x in it:
                self.assign(gen.target, x)
                k = self.ev(node.key)
                if is_sym(k):
                    raise Unsupported("symbolic key in a dict comprehension")
                out[k] = self.ev(node.value)
            self.frame.env = saved
            return out
        # {t.name: t for t in L} over a symbolic list of term references: the insertion-ordered dict of its values, PROVIDED the
        # keys are pairwise distinct (otherwise later entries would overwrite earlier ones) - that is an obligation
        from .refs import TRef, STermDict
        if (isinstance(it, SList) and isinstance(it.elem, TRef) and isinstance(gen.target, ast.Name) and not gen.ifs
                and isinstance(node.value, ast.Name) and node.value.id == gen.target.id
                and isinstance(node.key, ast.Attribute) and isinstance(node.key.value, ast.Name)
                and node.key.value.id == gen.target.id and node.key.attr == "name"):
            a, b = self.ctx.fresh("dk_a", z3.IntSort()), self.ctx.fresh("dk_b", z3.IntSort())

            def key(t):
                return ops_str_term(self.getattr(it.elem.wrap(t), "name", node))
            self.ctx.oblige("dict-keys", z3.ForAll([a, b], z3.Implies(z3.And(0 <= a, a < b, b < it.len),
                                                                      key(it.arr[a]) != key(it.arr[b]))),
                            self.line(node), note="keys of the dict comprehension are pairwise distinct")
            return STermDict(it.copy())
        raise Unsupported("dict comprehension over a symbolic list")

    def iterable(self, v, node):
        """Normalise something iterable to a python list or an SList."""
        if isinstance(v, (list, tuple, SList)):
            return v
        if isinstance(v, dict):
            return list(v.keys())
        h = getattr(v, "iterate", None)
        if h is not None:
            return h(self)
        if isinstance(v, SData) and getattr(v.ty.dt, "iter_model", None) is not None:
            return v.ty.dt.iter_model(self, v)       # a list-like datatype viewed as (length, element at index)
        if isinstance(v, range):
            return list(v)
        raise Unsupported(f"{self.frame.qualname}:{self.line(node)} iteration over {v!r}")

    def ev_Lambda(self, node):
        return Closure(node, self.frame)

    # ------------------------------------------------------------------ attributes
    def ev_Attribute(self, node):
        base = self.ev(node.value)
        return self.getattr(base, node.attr, node)

    def getattr(self, base, attr, node=None):
        if isinstance(attr, SStr) and isinstance(base, SOpaque):
            return base.getattr(self, attr, node)
        if isinstance(attr, SStr):
            c = self.concretize(attr)
            if c is None:
                raise Unsupported(f"{self.frame.qualname}:{self.line(node)} attribute with a symbolic name")
            attr = c
        if isinstance(base, SObj):
            if attr in base.fields:
                return base.fields[attr]
            if attr == "__class__":
                return self.real_class(base.cls)
            if self.src.class_has_method(base.cls, attr):
                fn = self.src.find(base.cls + "." + attr)[0]
                if any(isinstance(d, ast.Name) and d.id == "property" for d in fn.decorator_list):
                    return self.call_method(base, attr, [], {}, node)
                return BoundMethod(base, attr)
            real = self.real_class(base.cls)
            if real is not None and hasattr(real, attr) and not callable(getattr(real, attr)):
                return getattr(real, attr)   # class-level constant
            if self.frame.try_depth > 0:
                self.raise_py(AttributeError, node)
            raise Unsupported(f"{self.frame.qualname}:{self.line(node)} no field '{attr}' on {base.cls}")
        if isinstance(base, SData):
            return self.data_attr(base, attr, node)
        if isinstance(base, SSlice) and attr in ("start", "stop"):
            return getattr(base, attr)
        if isinstance(base, SExc):
            return BoundMethod(base, attr)
        h = getattr(base, "getattr", None)
        if h is not None and is_sym(base):
            return h(self, attr, node)
        if isinstance(base, (list, dict, str, tuple, SList, SStr, set)) or (is_sym(base) and hasattr(base, "method")):
            return BoundMethod(base, attr)
        if inspect.ismodule(base) or inspect.isclass(base):
            return getattr(base, attr)
        raise Unsupported(f"{self.frame.qualname}:{self.line(node)} attribute '{attr}' on {base!r}")

    def data_attr(self, v, attr, node):
        dt = v.ty.dt
        cands = dt.ctors_with_field(attr)
        if not cands:
            meths = [c for c in dt.ctors if c.real and self.src.class_has_method(c.real, attr)]
            if meths:
                return BoundMethod(v, attr)
            raise Unsupported(f"{self.frame.qualname}:{self.line(node)} no field '{attr}' in datatype {dt.name}")
        ftys = {c.ftypes[[f for f, _ in c.fields].index(attr)].name for c in cands}
        if self.ctx.spec_mode and len(ftys) == 1:
            c = None if len(cands) > 1 else cands[0]
        elif len(cands) == 1 and not self.ctx.spec_mode:
            c = cands[0]
            if len(dt.ctors) > 1 and self.frame.try_depth == 0:
                self.ctx.oblige("attr", dt.recognizer(c.name)(v.t), self.line(node), note=f"attribute '{attr}'")
            elif len(dt.ctors) > 1:
                c = self.resolve_ctor(v, cands, node, f"attribute '{attr}'")
        else:
            c = self.resolve_ctor(v, cands, node, f"attribute '{attr}'")
        if c is None:   # spec mode, same-typed candidates: If chain
            res = None
            for c2 in reversed(cands):
                acc = dt.accessor(c2.name, attr)(v.t)
                res = acc if res is None else z3.If(dt.recognizer(c2.name)(v.t), acc, res)
            fty = cands[0].ftypes[[f for f, _ in cands[0].fields].index(attr)]
            return fty.wrap(z3.simplify(res))
        fty = c.ftypes[[f for f, _ in c.fields].index(attr)]
        return self.simplify_value(fty.wrap(z3.simplify(dt.accessor(c.name, attr)(v.t))))

    def simplify_value(self, v):
        return v

    def resolve_ctor(self, v, cands, node, what):
        dt = v.ty.dt
        if len(dt.ctors) == 1:
            return cands[0]
        for c in cands:
            if self.ctx.entails(dt.recognizer(c.name)(v.t)):
                return c
        if self.ctx.spec_mode:
            tys = {c.ftypes[[f for f, _ in c.fields].index(what.split("'")[1])].name for c in cands} if "'" in what else set()
            if len(tys) == 1:
                return None
            raise Unsupported(f"{self.frame.qualname}:{self.line(node)} {what}: constructor not determined in specification")
        ok = z_or(*[dt.recognizer(c.name)(v.t) for c in cands])
        if self.frame.try_depth > 0:
            if not self.ctx.branch(zb(ok)):
                self.raise_py(AttributeError, node)
        else:
            self.ctx.oblige("attr", zb(ok), self.line(node), note=what)
        for c in cands[:-1]:
            if self.ctx.branch(dt.recognizer(c.name)(v.t)):
                return c
        return cands[-1]

    def real_class(self, qual):
        try:
            mod, cls = qual.split("@")[0].rsplit(".", 1)
            return getattr(importlib.import_module(mod), cls)
        except Exception:
            return None

"""Symbolic values and type descriptors for pyvc.

Python values are used as they are when concrete (int, bool, str, None, float, tuple, list, dict);
symbolic counterparts wrap z3 terms. Strings are *atoms*: an interned Int id (>= 0); None in a
``str?`` slot is -1. Lists of symbolic length are (len, Array Int->elem). Mutable things
(SObj, SList, SDictObj) are Python objects with identity, so aliasing is Python's aliasing.
"""
import z3


class Unsupported(Exception):
    pass


# ------------------------------------------------------------------------------------------
# string interning
_STR = {}
_STR_REV = {}


def intern(s):
    if s not in _STR:
        _STR[s] = len(_STR)
        _STR_REV[_STR[s]] = s
    return _STR[s]


def str_of_id(i):
    return _STR_REV.get(i)


# ------------------------------------------------------------------------------------------
class Sym:
    pass


class SInt(Sym):
    def __init__(self, t):
        self.t = t

    def __repr__(self):
        return f"SInt({self.t})"


class SReal(Sym):
    def __init__(self, t):
        self.t = t

    def __repr__(self):
        return f"SReal({self.t})"


class SBool(Sym):
    def __init__(self, t):
        self.t = t

    def __repr__(self):
        return f"SBool({self.t})"


class SStr(Sym):
    """String atom: z3 Int id. optional=True means the id may be -1 (= None)."""

    def __init__(self, t, optional=False):
        self.t = t
        self.optional = optional

    def __repr__(self):
        return f"SStr({self.t})"


class SData(Sym):
    """Value of an algebraic datatype (immutable)."""

    def __init__(self, t, ty):
        self.t = t
        self.ty = ty

    def __repr__(self):
        return f"SData<{self.ty.name}>({self.t})"


class SList(Sym):
    """List of symbolic length: mutable object (identity = aliasing)."""
    fresh = False

    def __init__(self, length, arr, elem):
        self.len = length      # z3 Int
        self.arr = arr         # z3 Array Int -> elem.sort()
        self.elem = elem       # Type

    distinct = False      # known to hold no value twice (set by models that guarantee it)

    def copy(self):
        c = SList(self.len, self.arr, self.elem)
        c.distinct = self.distinct
        return c

    def __repr__(self):
        return f"SList(len={self.len})"


class SObj(Sym):
    """Mutable object with named fields."""

    def __init__(self, cls, fields=None):
        self.cls = cls            # qualified class name
        self.fields = dict(fields or {})

    def __repr__(self):
        return f"SObj<{self.cls}>"


class SExc(Sym):
    def __init__(self, cls, args=()):
        self.cls = cls  # real exception class
        self.args = args

    def __repr__(self):
        return f"SExc({self.cls.__name__})"


class SOpaque(Sym):
    """A value about which nothing is known except identity of the z3 constant (sort U)."""

    def __init__(self, t, tag=""):
        self.t = t
        self.tag = tag

    def __repr__(self):
        return f"SOpaque({self.tag}:{self.t})"


class Star:
    """*seq at a call site where seq is symbolic (a list of symbolic length or an opaque sequence): kept as one argument; only callees
    that say how they take it (a *args parameter under contract, an explicit model) accept it"""

    def __init__(self, seq):
        self.seq = seq

    def __repr__(self):
        return f"Star({self.seq!r})"


class SSlice(Sym):
    def __init__(self, start, stop):
        self.start = start
        self.stop = stop


# ------------------------------------------------------------------------------------------
# types
class Type:
    name = "?"

    def sort(self):
        raise Unsupported(f"type {self.name} has no z3 sort")

    def wrap(self, t):
        raise NotImplementedError

    def unwrap(self, v, ctx=None):
        raise NotImplementedError

    def fresh(self, ctx, hint):
        return self.wrap(ctx.fresh(hint, self.sort()))

    def invariant(self, v):
        """z3 Bool that every value of this type satisfies (assumed for havoc/params)."""
        return z3.BoolVal(True)

    def __repr__(self):
        return self.name


class TInt(Type):
    name = "int"

    def sort(self):
        return z3.IntSort()

    def wrap(self, t):
        return SInt(t)

    def unwrap(self, v, ctx=None):
        if isinstance(v, bool):
            return z3.IntVal(int(v))
        if isinstance(v, int):
            return z3.IntVal(v)
        if isinstance(v, SInt):
            return v.t
        if isinstance(v, SBool):
            return z3.If(v.t, 1, 0)
        raise Unsupported(f"cannot use {v!r} as int")


class TReal(Type):
    name = "real"

    def sort(self):
        return z3.RealSort()

    def wrap(self, t):
        return SReal(t)

    def unwrap(self, v, ctx=None):
        if isinstance(v, (int, float)) and not isinstance(v, bool):
            return z3.RealVal(v)
        if isinstance(v, SReal):
            return v.t
        if isinstance(v, SInt):
            return z3.ToReal(v.t)
        raise Unsupported(f"cannot use {v!r} as real")


class TBool(Type):
    name = "bool"

    def sort(self):
        return z3.BoolSort()

    def wrap(self, t):
        return SBool(t)

    def unwrap(self, v, ctx=None):
        if isinstance(v, bool):
            return z3.BoolVal(v)
        if isinstance(v, SBool):
            return v.t
        raise Unsupported(f"cannot use {v!r} as bool")


class TStr(Type):
    def __init__(self, optional=False):
        self.optional = optional
        self.name = "str?" if optional else "str"

    def sort(self):
        return z3.IntSort()

    def wrap(self, t):
        return SStr(t, self.optional)

    def unwrap(self, v, ctx=None):
        if isinstance(v, str):
            return z3.IntVal(intern(v))
        if v is None and self.optional:
            return z3.IntVal(-1)
        if isinstance(v, SStr):
            return v.t
        if isinstance(v, SList) and type(v.elem).__name__ == "TChar":
            from .chars import text_id
            return text_id(v)
        raise Unsupported(f"cannot use {v!r} as {self.name}")

    def invariant(self, v):
        return v.t >= (-1 if self.optional else 0)


class TData(Type):
    """Algebraic datatype. `optional` admits the distinguished none-constructor."""

    def __init__(self, dt, optional=False):
        self.dt = dt              # DatatypeModel
        self.optional = optional
        self.name = dt.name + ("?" if optional else "")

    def sort(self):
        return self.dt.sort

    def wrap(self, t):
        return SData(t, self)

    def unwrap(self, v, ctx=None):
        if isinstance(v, SData) and v.ty.dt is self.dt:
            return v.t
        if v is None and self.dt.none_ctor is not None:
            return self.dt.none_term()
        return self.dt.coerce(v, ctx)

    def coerce(self, v, ctx):
        if isinstance(v, SData) or v is None:
            return v
        try:
            return SData(self.dt.coerce(v, ctx), self)
        except Unsupported:
            return v

    def invariant(self, v):
        inv = self.dt.invariant(v.t)
        if not self.optional and self.dt.none_ctor is not None:
            inv = z3.And(inv, z3.Not(self.dt.is_none(v.t)))
        return inv


class TList(Type):
    def __init__(self, elem):
        self.elem = elem
        self.name = f"list[{elem.name}]"

    def arr_sort(self):
        return z3.ArraySort(z3.IntSort(), self.elem.sort())

    def coerce(self, v, ctx):
        if isinstance(v, (list, tuple)):
            from .ops import slist_from_py
            return slist_from_py(list(v), self.elem, ctx)
        return v

    def fresh(self, ctx, hint):
        n = ctx.fresh(hint + "_len", z3.IntSort())
        a = ctx.fresh(hint + "_arr", self.arr_sort())
        return SList(n, a, self.elem)

    def invariant(self, v):
        return v.len >= 0


class TObj(Type):
    def __init__(self, cm):
        self.cm = cm  # ClassModel
        self.name = cm.qualname

    def fresh(self, ctx, hint):
        return self.cm.fresh(ctx, hint)

    def invariant(self, v):
        return z3.BoolVal(True)


class TOpaque(Type):
    """Uninterpreted individual (pandas objects, callables, ...)."""
    _sort = None

    def __init__(self, tag="any"):
        self.name = tag
        self.tag = tag

    def sort(self):
        if TOpaque._sort is None:
            TOpaque._sort = z3.DeclareSort("U")
        return TOpaque._sort

    def wrap(self, t):
        return SOpaque(t, self.tag)

    def unwrap(self, v, ctx=None):
        if isinstance(v, SOpaque):
            return v.t
        raise Unsupported(f"cannot use {v!r} as opaque")


class TOpt(Type):
    """T or None: decided once per path when the value is created (both alternatives are explored)."""

    def __init__(self, inner):
        self.inner = inner
        self.name = inner.name + "?"

    def fresh(self, ctx, hint):
        if ctx.branch(ctx.fresh(hint + "_is_none", z3.BoolSort())):
            return None
        return self.inner.fresh(ctx, hint)

    def invariant(self, v):
        return z3.BoolVal(True) if v is None else self.inner.invariant(v)

    def coerce(self, v, ctx):
        c = getattr(self.inner, "coerce", None)
        return v if v is None or c is None else c(v, ctx)


class TNone(Type):
    name = "None"

    def fresh(self, ctx, hint):
        return None

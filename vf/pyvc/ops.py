"""Operations on (symbolic or concrete) values."""
import z3

from .values import (Sym, SInt, SReal, SBool, SStr, SData, SList, SObj, SExc, SOpaque, SSlice,
                     Unsupported, intern, TInt, TReal, TBool, TStr, TData, TList, TObj)


_PREDS = {}


def opaque_pred(name):
    from .values import TOpaque
    if name not in _PREDS:
        _PREDS[name] = z3.Function(f"U!{name}", TOpaque().sort(), z3.BoolSort())
    return _PREDS[name]


def is_sym(v):
    return isinstance(v, Sym)


def is_numeric(v):
    return isinstance(v, (int, float, SInt, SReal, SBool))


def is_strlike(v):
    return isinstance(v, (str, SStr))


def num_term(v):
    """z3 arithmetic term and whether it is real."""
    if isinstance(v, bool):
        return z3.IntVal(int(v)), False
    if isinstance(v, int):
        return z3.IntVal(v), False
    if isinstance(v, float):
        return z3.RealVal(repr(v)), True
    if isinstance(v, SInt):
        return v.t, False
    if isinstance(v, SBool):
        return z3.If(v.t, z3.IntVal(1), z3.IntVal(0)), False
    if isinstance(v, SReal):
        return v.t, True
    raise Unsupported(f"not a number: {v!r}")


def str_term(v):
    if isinstance(v, str):
        return z3.IntVal(intern(v))
    if isinstance(v, SStr):
        return v.t
    raise Unsupported(f"not a string: {v!r}")


def int_term(v):
    t, real = num_term(v)
    if real:
        raise Unsupported(f"expected an int: {v!r}")
    return t


def type_of(v, reg=None):
    if isinstance(v, SInt):
        return TInt()
    if isinstance(v, SReal):
        return TReal()
    if isinstance(v, SBool):
        return TBool()
    if isinstance(v, SStr):
        return TStr(v.optional)
    if isinstance(v, SData):
        return v.ty
    if isinstance(v, SList):
        return TList(v.elem)
    if isinstance(v, bool):
        return TBool()
    if isinstance(v, int):
        return TInt()
    if isinstance(v, float):
        return TReal()
    if isinstance(v, str):
        return TStr(False)
    if isinstance(v, SObj) and reg is not None and v.cls in reg.classes:
        return TObj(reg.classes[v.cls])
    if isinstance(v, SOpaque):
        from .values import TOpaque
        return TOpaque(v.tag)
    if type(v).__name__ == "SDictV":
        from .dicts import TDict
        return TDict()
    if type(v).__name__ == "SFSet":
        from .sets import TFSet
        return TFSet(v.elem)
    if type(v).__name__ == "SChar":
        from .chars import TChar
        return TChar()
    if type(v).__name__ == "SRef":
        from .refs import TRef
        return TRef(v.model, v.reg)
    if type(v).__name__ == "SArr":
        from .arrays import TArr
        return TArr(str(v.ndim) if isinstance(v.ndim, int) else "?", v.dtype)
    if type(v).__name__ == "SArrList":
        from .arrays import TArrList
        return TArrList()
    return None


def to_bool_term(v):
    """Python truthiness as a z3 Bool (or python bool)."""
    if v is None:
        return False
    if isinstance(v, bool):
        return v
    if isinstance(v, (int, float, str, list, tuple, dict, set, frozenset)):
        return bool(v)
    if isinstance(v, SBool):
        return v.t
    if isinstance(v, SInt):
        return v.t != 0
    if isinstance(v, SReal):
        return v.t != 0
    if isinstance(v, SStr):
        return z3.And(v.t != -1, v.t != intern(""))
    if isinstance(v, SList):
        return v.len > 0
    if isinstance(v, SData):
        if v.ty.dt.none_ctor is not None:
            return z3.Not(v.ty.dt.is_none(v.t))
        if getattr(v.ty.dt, "truth_hook", None):
            return v.ty.dt.truth_hook(v.ty.dt, v.t)
        return True
    if isinstance(v, (SObj, SExc)):
        return True
    if isinstance(v, SOpaque):
        return opaque_pred("truthy")(v.t)
    if type(v).__name__ == "SSet":
        import z3 as _z
        from .values import TOpaque
        e = _z.Const("set_elem", TOpaque().sort())
        return _z.Exists([e], v.member(e))
    raise Unsupported(f"truthiness of {v!r}")


def bool_val(b):
    """Wrap a python bool / z3 Bool as a value."""
    if isinstance(b, bool):
        return b
    b = z3.simplify(b)
    if z3.is_true(b):
        return True
    if z3.is_false(b):
        return False
    return SBool(b)


def zb(b):
    return z3.BoolVal(b) if isinstance(b, bool) else b


def z_and(*bs):
    out = []
    for b in bs:
        if b is True:
            continue
        if b is False:
            return False
        out.append(b)
    if not out:
        return True
    return z3.And(*out) if len(out) > 1 else out[0]


def z_or(*bs):
    out = []
    for b in bs:
        if b is False:
            continue
        if b is True:
            return True
        out.append(b)
    if not out:
        return False
    return z3.Or(*out) if len(out) > 1 else out[0]


def z_not(b):
    if isinstance(b, bool):
        return not b
    return z3.Not(b)


def slist_from_py(lst, elem, ctx):
    """Concrete python list of values -> SList."""
    arr = z3.K(z3.IntSort(), elem.unwrap(lst[0], ctx)) if lst else ctx.fresh("emptyarr", z3.ArraySort(z3.IntSort(), elem.sort()))
    for i, v in enumerate(lst):
        arr = z3.Store(arr, i, elem.unwrap(v, ctx))
    return SList(z3.IntVal(len(lst)), arr, elem)


def eq(a, b, ctx):
    """Python == as python bool or z3 Bool."""
    if a is None or b is None:
        if a is None and b is None:
            return True
        v = b if a is None else a
        if isinstance(v, SData) and v.ty.dt.none_ctor is not None:
            return v.ty.dt.is_none(v.t)
        if isinstance(v, SData):
            try:                                  # a datatype that represents None by one of its values (Val: VNone)
                return v.t == v.ty.dt.coerce(None, ctx)
            except Unsupported:
                return False
        if isinstance(v, SStr) and v.optional:
            return v.t == -1
        if isinstance(v, SOpaque):
            return opaque_pred("is_none")(v.t)     # an opaque value may be None
        return False
    if not is_sym(a) and not is_sym(b) and not _contains_sym(a) and not _contains_sym(b):
        return a == b
    if type(a).__name__ == "SChar" or type(b).__name__ == "SChar" or (
            isinstance(a, SList) and type(a.elem).__name__ == "TChar") or (isinstance(b, SList) and type(b.elem).__name__ == "TChar"):
        from .chars import eq_hook
        r = eq_hook(a, b, ctx)
        if r is not None:
            return r
    if is_numeric(a) and is_numeric(b):
        ta, ra = num_term(a)
        tb, rb = num_term(b)
        if ra != rb:
            ta = ta if ra else z3.ToReal(ta)
            tb = tb if rb else z3.ToReal(tb)
        return ta == tb
    if is_strlike(a) and is_strlike(b):
        return str_term(a) == str_term(b)
    if isinstance(a, SData) or isinstance(b, SData):
        d, o = (a, b) if isinstance(a, SData) else (b, a)
        hook = getattr(d.ty.dt, "eq_hook", None)
        if hook is not None and not isinstance(o, SData):
            r = hook(d.ty.dt, d.t, o, ctx)
            if r is not None:
                return r
        if isinstance(o, SData):
            if o.ty.dt is not d.ty.dt:
                return False
            return d.t == o.t
        try:
            return d.t == d.ty.dt.coerce(o, ctx)
        except Unsupported:
            return False
    if isinstance(a, (SObj, SExc)) or isinstance(b, (SObj, SExc)):
        return a is b
    if isinstance(a, SOpaque) and isinstance(b, SOpaque):
        return a.t == b.t          # (None is one value among the opaque ones: lemma none_unique in vf/contracts/base.py)
    if isinstance(a, SSlice) and isinstance(b, SSlice):
        return z_and(zb(eq(a.start, b.start, ctx)), zb(eq(a.stop, b.stop, ctx)))
    if type(a).__name__ == "SSliceDict" and type(b).__name__ == "SSliceDict":
        return z3.And(a.dom == b.dom, a.start == b.start, a.stop == b.stop)
    if type(a).__name__ == "SRef" and type(b).__name__ == "SRef":
        return a.t == b.t if a.model is b.model else False
    if type(a).__name__ == "SArr" and type(b).__name__ == "SArr":
        from .arrays import arr_eq
        return arr_eq(a, b, ctx)
    if type(a).__name__ == "SDictV" or type(b).__name__ == "SDictV":
        from .dicts import TDict
        return TDict().unwrap(a, ctx) == TDict().unwrap(b, ctx)
    if isinstance(a, (list, tuple)) and isinstance(b, (list, tuple)):
        if type(a) is not type(b) or len(a) != len(b):
            return False
        return z_and(*[eq(x, y, ctx) for x, y in zip(a, b)])
    if isinstance(a, (SList, list)) and isinstance(b, (SList, list)):
        if isinstance(a, list):
            a = slist_from_py(a, b.elem, ctx)
        if isinstance(b, list):
            b = slist_from_py(b, a.elem, ctx)
        i = ctx.fresh("eqi", z3.IntSort())
        return z3.And(a.len == b.len,
                      z3.ForAll([i], z3.Implies(z3.And(0 <= i, i < a.len), a.arr[i] == b.arr[i])))
    if is_sym(a) != is_sym(b) or type(a) is not type(b):
        # different kinds of values (e.g. int vs str) are unequal in Python
        if (is_numeric(a) and is_strlike(b)) or (is_strlike(a) and is_numeric(b)):
            return False
    if (type(a) is SOpaque and is_strlike(b)) or (type(b) is SOpaque and is_strlike(a)):
        # an opaque value compared with a string: equal iff the value is that string - `U!as_str` maps an opaque value to the id of the
        # string it is (anything else for a non-string; the outcome of the comparison is then unconstrained, which over-approximates)
        o, st = (a, b) if type(a) is SOpaque else (b, a)
        from .opaque import ufun, U
        return ufun("U!as_str", U(), z3.IntSort())(o.t) == str_term(st)
    raise Unsupported(f"== between {a!r} and {b!r}")


def _contains_sym(v):
    if is_sym(v):
        return True
    if isinstance(v, (list, tuple)):
        return any(_contains_sym(x) for x in v)
    if isinstance(v, dict):
        return any(_contains_sym(x) for x in v.values())
    return False


def arith(op, a, b):
    """+ - * // % ** on numbers."""
    if not is_sym(a) and not is_sym(b):
        import operator as _o
        return {"+": _o.add, "-": _o.sub, "*": _o.mul, "/": _o.truediv, "//": _o.floordiv,
                "%": _o.mod, "**": _o.pow}[op](a, b)
    ta, ra = num_term(a)
    tb, rb = num_term(b)
    real = ra or rb or op == "/"
    if real:
        ta = ta if ra else z3.ToReal(ta)
        tb = tb if rb else z3.ToReal(tb)
    if op == "+":
        r = ta + tb
    elif op == "-":
        r = ta - tb
    elif op == "*":
        r = ta * tb
    elif op == "/":
        r = ta / tb
    elif op == "//" and not real:
        r = ta / tb   # z3 integer division is floor for positive divisor; callers must ensure b > 0
    elif op == "%" and not real:
        r = ta % tb
    else:
        raise Unsupported(f"arithmetic {op} on {a!r}, {b!r}")
    return SReal(z3.simplify(r)) if real else SInt(z3.simplify(r))


def compare(op, a, b, ctx):
    if op in ("==", "!="):
        r = eq(a, b, ctx)
        return z_not(r) if op == "!=" else r
    if not is_sym(a) and not is_sym(b):
        import operator as _o
        return {"<": _o.lt, "<=": _o.le, ">": _o.gt, ">=": _o.ge}[op](a, b)
    ta, ra = num_term(a)
    tb, rb = num_term(b)
    if ra != rb:
        ta = ta if ra else z3.ToReal(ta)
        tb = tb if rb else z3.ToReal(tb)
    return {"<": ta < tb, "<=": ta <= tb, ">": ta > tb, ">=": ta >= tb}[op]


def snapshot(v, memo=None):
    memo = {} if memo is None else memo
    if id(v) in memo:
        return memo[id(v)]
    if isinstance(v, SObj):
        o = SObj(v.cls)
        memo[id(v)] = o
        for k, x in v.fields.items():
            o.fields[k] = snapshot(x, memo)
        return o
    if isinstance(v, SList):
        o = v.copy()
        memo[id(v)] = o
        return o
    if isinstance(v, list):
        o = []
        memo[id(v)] = o
        o.extend(snapshot(x, memo) for x in v)
        return o
    if isinstance(v, dict):
        o = {}
        memo[id(v)] = o
        for k, x in v.items():
            o[k] = snapshot(x, memo)
        return o
    if isinstance(v, tuple):
        return tuple(snapshot(x, memo) for x in v)
    if hasattr(v, "snapshot"):
        o = v.snapshot(memo)
        memo[id(v)] = o
        return o
    return v

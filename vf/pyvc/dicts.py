"""Symbolic dict values (string keys -> opaque values) as an immutable z3 datatype of two arrays."""
import z3

from .values import Sym, SStr, SOpaque, SInt, SBool, Type, TOpaque, Unsupported, intern
from .ops import str_term, bool_val
from .interp import PyRaise
from .values import SExc

_DT = {}


def dict_sort():
    if "s" not in _DT:
        U = TOpaque().sort()
        d = z3.Datatype("Dict")
        d.declare("mkdict", ("dom", z3.ArraySort(z3.IntSort(), z3.BoolSort())), ("val", z3.ArraySort(z3.IntSort(), U)))
        _DT["s"] = d.create()
    return _DT["s"]


class SDictV(Sym):
    def __init__(self, t):
        self.t = t

    @property
    def dom(self):
        return dict_sort().dom(self.t)

    @property
    def val(self):
        return dict_sort().val(self.t)

    def contains(self, I, item):
        return z3.simplify(self.dom[str_term(item)])

    def getitem(self, I, idx, node):
        k = str_term(idx)
        if not I.ctx.spec_mode:
            if not I.ctx.branch(self.dom[k]):
                raise PyRaise(SExc(KeyError), I.line(node))
        return SOpaque(z3.simplify(self.val[k]), "any")

    def with_item(self, I, idx, v):
        k = str_term(idx)
        S = dict_sort()
        return SDictV(S.mkdict(z3.Store(self.dom, k, True), z3.Store(self.val, k, TOpaque().unwrap(v))))

    def method(self, I, name, args, kwargs, node):
        if name == "get":
            k = str_term(args[0])
            default = args[1] if len(args) > 1 else None
            if I.ctx.branch(self.dom[k]):
                return SOpaque(self.val[k], "any")
            return default
        if name == "copy":
            return self
        raise Unsupported(f"dict.{name} on a symbolic dict")

    def __repr__(self):
        return f"SDictV({self.t})"


class TDict(Type):
    name = "dict"

    def sort(self):
        return dict_sort()

    def wrap(self, t):
        return SDictV(t)

    def unwrap(self, v, ctx=None):
        if isinstance(v, SDictV):
            return v.t
        if isinstance(v, dict):
            S = dict_sort()
            dom = z3.K(z3.IntSort(), z3.BoolVal(False))
            val = z3.K(z3.IntSort(), z3.Const("U!default", TOpaque().sort()))
            for k, x in v.items():
                dom = z3.Store(dom, intern(k), True)
                val = z3.Store(val, intern(k), TOpaque().unwrap(x))
            return S.mkdict(dom, val)
        if isinstance(v, SOpaque):
            # an opaque value used as a mapping: its dict view is an uninterpreted function of the value
            from .opaque import ufun, U
            return ufun("U!asdict", U(), dict_sort())(v.t)
        raise Unsupported(f"cannot use {v!r} as a dict")


def empty_dict_term():
    return TDict().unwrap({})

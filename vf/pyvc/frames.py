"""pandas DataFrame as an opaque value with uninterpreted operations (used for design_matrices' branch logic)."""
import z3

from .values import Sym, SOpaque, SInt, SBool, TOpaque, Unsupported
from .opaque import ufun, U
from .ops import bool_val

I_ = z3.IntSort()


class SFrame(SOpaque):
    own_methods = True

    def getattr(self, I, attr, node):
        if attr == "shape":
            return (SInt(ufun("frame.nrows", U(), I_)(self.t)), SInt(ufun("frame.ncols", U(), I_)(self.t)))
        if attr == "columns":
            return SOpaque(ufun("frame.columns", U(), U())(self.t), "columns")
        if attr == "index":
            return SFrameIndex(ufun("frame.index", U(), U())(self.t), "any", self.t)
        from .interp import BoundMethod
        return BoundMethod(self, attr)

    def getitem(self, I, idx, node):
        if isinstance(idx, SMask):
            return SFrame(ufun("frame.filter", U(), U(), U())(self.t, idx.t), "frame")     # positional boolean filter
        if isinstance(idx, (str,)) or type(idx).__name__ == "SStr":
            from .pandas_m import TSeries, series_len       # frame[name]: the column of that name, one row per row of the frame
            from .ops import str_term
            col = TSeries().wrap(ufun("frame.col", U(), I_, U())(self.t, str_term(idx)))
            if not I.ctx.spec_mode:
                I.ctx.assume(series_len(col.t) == ufun("frame.nrows", U(), I_)(self.t))
            return col
        if isinstance(idx, SOpaque):
            return SFrame(ufun("frame.select", U(), U(), U())(self.t, idx.t), "frame")     # column subset (a copy)
        raise Unsupported(f"DataFrame[{idx!r}]")

    def method(self, I, name, args, kwargs, node):
        if name == "isna" and not args:
            return SIsna(self.t)
        if name == "copy":
            return self
        if not kwargs and all(isinstance(a, SOpaque) for a in args):
            return SFrame(ufun(f"frame.m.{name}/{len(args)}", *([U()] * (len(args) + 1)), U())(self.t, *[a.t for a in args]), "frame")
        return SFrame(I.ctx.fresh(f"frame_{name}", U()), "frame")

    def isinstance(self, I, c):
        import pandas as pd
        return c in (pd.DataFrame, object)


class SFrameIndex(SOpaque):
    """frame.index: an opaque value whose length is the frame's number of rows"""

    def __init__(self, t, tag, frame_t):
        super().__init__(t, tag)
        self.frame_t = frame_t

    def length(self, I):
        n = ufun("frame.nrows", U(), I_)(self.frame_t)
        I.ctx.assume(n >= 0)
        return SInt(n)


class SIsna(Sym):
    def __init__(self, t):
        self.t = t

    def getattr(self, I, attr, node):
        from .interp import BoundMethod
        return BoundMethod(self, attr)

    def method(self, I, name, args, kwargs, node):
        if name == "any" and kwargs.get("axis", args[0] if args else None) == 1:
            return SMask(ufun("frame.incomplete", U(), U())(self.t))
        raise Unsupported(f"isna().{name}")


class SMask(Sym):
    """Boolean row mask (a Series of bools) as an opaque term."""

    def __init__(self, t):
        self.t = t

    def getattr(self, I, attr, node):
        from .interp import BoundMethod
        return BoundMethod(self, attr)

    def method(self, I, name, args, kwargs, node):
        if name == "sum":
            c = ufun("mask.count", U(), I_)(self.t)
            if not I.ctx.spec_mode:
                I.ctx.assume(c >= 0)
            return SInt(c)
        raise Unsupported(f"mask.{name}")

    def invert(self, I):
        return SMask(ufun("mask.not", U(), U())(self.t))


class TFrame(TOpaque):
    def __init__(self):
        super().__init__("frame")

    def wrap(self, t):
        return SFrame(t, "frame")

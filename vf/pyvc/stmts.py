"""Statements, loops (cut by invariants), builtin models and the per-function verification driver."""
import ast
import builtins

import z3

from .values import (Sym, SInt, SReal, SBool, SStr, SData, SList, SObj, SExc, SOpaque, SSlice,
                     Unsupported, intern, TInt, TReal, TBool, TStr, TData, TList, TObj, TOpaque)
from .ctx import Ctx, PathEnd
from . import ops
from .ops import (eq, arith, compare, to_bool_term, bool_val, z_and, z_or, z_not, zb, snapshot,
                  int_term, is_sym, type_of)
from .interp import ReturnEx, BreakEx, ContinueEx, PyRaise, BoundMethod, Frame
from .execm import Interp


def assigned_names(nodes):
    out = []

    class V(ast.NodeVisitor):
        def visit_Name(self, n):
            if isinstance(n.ctx, (ast.Store, ast.Del)) and n.id not in out:
                out.append(n.id)

        def visit_FunctionDef(self, n):
            pass

        def visit_Lambda(self, n):
            pass
    for n in nodes:
        V().visit(n)
    return out


def mutated_names(nodes):
    """Locals on which a mutating method is called or that are subscript-assigned."""
    out = []
    MUT = {"append", "insert", "pop", "remove", "extend", "update", "sort", "add", "clear"}

    class V(ast.NodeVisitor):
        def visit_Call(self, n):
            f = n.func
            if isinstance(f, ast.Attribute) and f.attr in MUT and isinstance(f.value, ast.Name):
                if f.value.id not in out:
                    out.append(f.value.id)
            self.generic_visit(n)

        def visit_Subscript(self, n):
            if isinstance(n.ctx, ast.Store) and isinstance(n.value, ast.Name) and n.value.id not in out:
                out.append(n.value.id)
            self.generic_visit(n)
    for n in nodes:
        V().visit(n)
    return out


class Engine(Interp):
    # ================================================================== statements
    def exec_block(self, stmts):
        for s in stmts:
            self.exec(s)

    def exec(self, node):
        m = getattr(self, "ex_" + type(node).__name__, None)
        if m is None:
            raise Unsupported(f"{self.frame.qualname}:{self.line(node)} statement {type(node).__name__}")
        return m(node)

    def ex_Expr(self, node):
        if isinstance(node.value, ast.Constant):
            return   # docstring
        self.ev(node.value)

    def ex_Pass(self, node):
        pass

    def ex_Return(self, node):
        raise ReturnEx(self.ev(node.value) if node.value is not None else None)

    def ex_Break(self, node):
        raise BreakEx()

    def ex_Continue(self, node):
        raise ContinueEx()

    def ex_Assign(self, node):
        v = self.ev(node.value)
        for t in node.targets:
            self.assign(t, v)

    def ex_AnnAssign(self, node):
        if node.value is not None:
            self.assign(node.target, self.ev(node.value))

    def ex_AugAssign(self, node):
        from .interp import BIN
        load = ast.copy_location(ast.fix_missing_locations(
            ast.parse(ast.unparse(node.target), mode="eval").body), node)
        cur = self.ev(load)
        rhs = self.ev(node.value)
        op = BIN[type(node.op)]
        if op == "+" and isinstance(cur, list) and isinstance(rhs, (list, tuple)):
            cur.extend(rhs)      # in-place, like Python
            return
        h = getattr(cur, "iop", None)
        if h is not None and is_sym(cur):
            r = h(self, op, rhs, node)
            if r is not NotImplemented:
                self.assign(node.target, r)
                return
        self.assign(node.target, self.binop(op, cur, rhs, node))

    def assign(self, target, v):
        if isinstance(target, ast.Name):
            self.frame.env[target.id] = v
        elif isinstance(target, (ast.Tuple, ast.List)):
            vals = v if isinstance(v, (list, tuple)) else None
            if vals is None or len(vals) != len(target.elts):
                raise Unsupported("unpacking a symbolic sequence")
            for t, x in zip(target.elts, vals):
                self.assign(t, x)
        elif isinstance(target, ast.Attribute):
            obj = self.ev(target.value)
            self.setattr(obj, target.attr, v, target)
        elif isinstance(target, ast.Subscript):
            base = self.ev(target.value)
            idx = self.ev(target.slice)
            self.setitem(base, idx, v, target)
        else:
            raise Unsupported(f"assignment target {type(target).__name__}")

    def setattr(self, obj, attr, v, node):
        if isinstance(obj, SObj):
            q = obj.cls + ".__setattr__"
            if self.src.class_has_method(obj.cls, "__setattr__") and not self.in_setattr:
                self.in_setattr = True
                try:
                    self.call_function(q, obj, [attr, v], {}, node)
                finally:
                    self.in_setattr = False
                return
            # property setter?
            setter = self.find_setter(obj.cls, attr)
            if setter is not None:
                self.run_setter(obj, setter, v, node)
                return
            cm = self.reg.classes.get(obj.cls)
            if cm is not None and attr in cm.field_types and v is not None:
                ty = self.reg.type(cm.field_types[attr])
                if isinstance(ty, TData):
                    v = SData(ty.unwrap(v, self.ctx), ty)
                elif hasattr(ty, "coerce") and isinstance(v, (list, dict)):
                    was_fresh = id(v) in self.fresh_ids
                    v = ty.coerce(v, self.ctx)       # a literal stored in a field is viewed at the field's declared type
                    if was_fresh and hasattr(v, "fresh"):
                        v.fresh = True
            obj.fields[attr] = v
            return
        h = getattr(obj, "setattr", None)
        if h is not None:
            return h(self, attr, v, node)
        raise Unsupported(f"{self.frame.qualname}:{self.line(node)} attribute store on {obj!r}")

    in_setattr = False

    def find_setter(self, clsq, attr):
        try:
            modname, cls, _ = self.src.split(clsq + ".x")
        except Unsupported:
            return None
        tree = self.src.module_ast(modname)[0]
        for n in tree.body:
            if isinstance(n, ast.ClassDef) and n.name == cls:
                for f in n.body:
                    if isinstance(f, ast.FunctionDef) and f.name == attr:
                        for d in f.decorator_list:
                            if isinstance(d, ast.Attribute) and d.attr == "setter":
                                return (f, modname, cls)
        return None

    def run_setter(self, obj, setter, v, node):
        f, modname, cls = setter
        env = {f.args.args[0].arg: obj, f.args.args[1].arg: v}
        self.inline_call(f"{modname}.{cls}.{f.name}(setter)", f, modname, cls, env, None)

    def setitem(self, base, idx, v, node):
        if isinstance(base, list):
            if isinstance(idx, int):
                try:
                    base[idx] = v
                except IndexError:
                    self.raise_py(IndexError, node)
                return
            raise Unsupported("symbolic index store on a concrete list")
        if isinstance(base, dict):
            if is_sym(idx):
                raise Unsupported("symbolic key store on a concrete dict")
            base[idx] = v
            return
        if isinstance(base, SList):
            it = int_term(idx)
            eff = z3.If(it < 0, it + base.len, it)
            self.index_check(z3.And(0 <= eff, eff < base.len), node)
            base.arr = z3.Store(base.arr, eff, base.elem.unwrap(v, self.ctx))
            return
        h = getattr(base, "setitem", None)
        if h is not None:
            return h(self, idx, v, node)
        if isinstance(base, SData) and "__setitem__" in getattr(base.ty.dt, "mutators", {}) and isinstance(node.value, ast.Name):
            self.frame.env[node.value.id] = base.ty.dt.mutators["__setitem__"](self, base, [idx, v])
            return
        w = getattr(base, "with_item", None)
        if w is not None:      # immutable value: functional update written back to where it came from
            return self.assign(node.value, w(self, idx, v))
        if isinstance(base, SObj):
            return self.call_method(base, "__setitem__", [idx, v], {}, node)
        raise Unsupported(f"{self.frame.qualname}:{self.line(node)} subscript store on {base!r}")

    def ex_Delete(self, node):
        for t in node.targets:
            if isinstance(t, ast.Name):
                self.frame.env.pop(t.id, None)
            else:
                raise Unsupported("del of a non-local")

    def ex_If(self, node):
        if self.truth(self.ev(node.test)):
            self.exec_block(node.body)
        else:
            self.exec_block(node.orelse)

    def ex_Assert(self, node):
        b = zb(to_bool_term(self.ev(node.test)))
        self.ctx.oblige("assert", b, self.line(node))

    def ex_Raise(self, node):
        if node.exc is None:
            if self.current_exc is None:
                raise Unsupported("bare raise outside a handler")
            raise PyRaise(self.current_exc, self.line(node))
        e = self.ev(node.exc)
        import inspect
        if inspect.isclass(e) and issubclass(e, BaseException):
            e = SExc(e)
        if not isinstance(e, SExc):
            raise Unsupported(f"raise of {e!r}")
        raise PyRaise(e, self.line(node))

    current_exc = None

    def ex_Try(self, node):
        fr = self.frame
        fr.try_depth += 1
        try:
            try:
                self.exec_block(node.body)
            finally:
                fr.try_depth -= 1
        except PyRaise as pr:
            handled = False
            for h in node.handlers:
                if self.handler_matches(h, pr.exc):
                    handled = True
                    saved = self.current_exc
                    self.current_exc = pr.exc
                    if h.name:
                        fr.env[h.name] = pr.exc
                    try:
                        try:
                            self.exec_block(h.body)
                        finally:
                            self.current_exc = saved
                    except BaseException:
                        self.run_finally(node)
                        raise
                    break
            if not handled:
                self.run_finally(node)
                raise
            self.run_finally(node)
            return
        except (ReturnEx, BreakEx, ContinueEx):
            self.run_finally(node)
            raise
        try:
            self.exec_block(node.orelse)
        except BaseException:
            self.run_finally(node)
            raise
        self.run_finally(node)

    def run_finally(self, node):
        if node.finalbody:
            self.exec_block(node.finalbody)

    def handler_matches(self, h, exc):
        if h.type is None:
            return True
        t = self.ev(h.type)
        ts = t if isinstance(t, tuple) else (t,)
        return any(issubclass(exc.cls, c) for c in ts)

    def ex_FunctionDef(self, node):
        from .interp import Closure
        self.frame.env[node.name] = DefClosure(node, self.frame)

    def ex_Import(self, node):
        raise Unsupported("import inside a function")

    # ================================================================== loops
    def loop_spec(self, node):
        fr = self.frame
        k = fr.loop_ids.get(id(node), 0)
        c = fr.contract
        if c is None or c.inline:
            return None, k
        return c.loops.get(k), k

    def ex_While(self, node):
        spec, k = self.loop_spec(node)
        if spec is None:
            return self.unrolled_while(node)
        self.cut_loop(node, spec, k, lambda: self.truth(self.ev(node.test)), node.body, node.orelse)

    unroll_bound = 64

    def unrolled_while(self, node, bound=None):
        bound = bound or self.unroll_bound
        for _ in range(bound):
            if not self.truth(self.ev(node.test)):
                self.exec_block(node.orelse)
                return
            try:
                self.exec_block(node.body)
            except BreakEx:
                return
            except ContinueEx:
                continue
        raise Unsupported(f"{self.frame.qualname}:{self.line(node)} loop without invariant did not finish in {bound} unrollings")

    def ex_For(self, node):
        spec, k = self.loop_spec(node)
        it = self.iterable(self.ev(node.iter), node)
        if isinstance(it, (list, tuple)) and spec is None:
            for x in list(it):
                self.assign(node.target, x)
                try:
                    self.exec_block(node.body)
                except BreakEx:
                    return
                except ContinueEx:
                    continue
            self.exec_block(node.orelse)
            return
        if spec is None:
            raise Unsupported(f"{self.frame.qualname}:{self.line(node)} for-loop over a symbolic sequence needs an invariant")
        seq = self.to_slist(it) if not isinstance(it, SList) else it
        env = self.frame.env
        ghost = f"_i{k}"
        env[ghost] = 0

        def test():
            return self.truth(bool_val(int_term(env[ghost]) < seq.len))

        def pre_body():
            i = env[ghost]
            t = z3.simplify(seq.arr[int_term(i)])
            from .ctx import is_light
            if not is_light(t):
                # an element given by a recursive specification function: name it, so that what the body learns about it
                # (constructor tests) is visible to the cheap feasibility solver
                c = self.ctx.fresh("elem", t.sort())
                self.ctx.assume(c == t)
                t = c
            facts = getattr(seq, "elem_facts", None)
            if facts is not None:        # ground instances of the (separately proved) lemmas about the i-th element
                facts(self, int_term(i), t)
            self.assign(node.target, seq.elem.wrap(t))

        def post_body():
            env[ghost] = arith("+", env[ghost], 1)
        self.cut_loop(node, spec, k, test, node.body, node.orelse, pre_body, post_body, ghost=ghost)

    def cut_loop(self, node, spec, k, test, body, orelse, pre_body=None, post_body=None, ghost=None):
        fr = self.frame
        env = fr.env
        line = self.line(node)
        ctags = tuple(fr.contract.tags) if fr.contract else ()

        def inv_terms():
            out = []
            for cl in spec.invariant:
                src, tags = self.clause(cl)
                out.append((src, tags, self.spec_eval(src, dict(env), fr.old, fr.contract.namespace if fr.contract else None)))
            return out
        for n_, ts_ in spec.havoc.items():      # values of declared loop variables are viewed at their declared type
            ty_ = self.reg.type(ts_)
            if n_ in env and hasattr(ty_, "coerce"):
                env[n_] = ty_.coerce(env[n_], self.ctx)
        for src, tags, t in inv_terms():
            self.ctx.oblige("inv-init", t, line, tags=tags or ctags, note=f"loop{k}: {src}")
        # havoc
        names = list(spec.havoc.keys())
        for n in assigned_names(body) + mutated_names(body):
            if n not in names and n in env:
                names.append(n)
        if ghost and ghost not in names:
            names.append(ghost)
        for n in names:
            ts = spec.havoc.get(n)
            if ts is None:
                if n == ghost:
                    ty = TInt()
                else:
                    ty = type_of(env.get(n), self.reg)
                    if ty is None:
                        if n not in env or env[n] is None:
                            continue
                        raise Unsupported(f"{fr.qualname}:{line} loop{k}: cannot infer the type of havoced '{n}'; declare it")
            else:
                ty = self.reg.type(ts)
            v = ty.fresh(self.ctx, f"{n}_l{k}")
            if getattr(env.get(n), "fresh", False) and hasattr(v, "fresh"):
                v.fresh = True          # an array allocated before the loop is still this activation's own array
            env[n] = v
            if v is not None:
                self.ctx.assume(ty.invariant(v))
        mods = spec.modifies if spec.modifies is not None else (fr.contract.modifies if fr.contract else [])
        for path in mods:
            self.havoc_path(path, env)
        for cs in getattr(spec, "cases", []):
            self.ctx.branch(self.spec_eval(cs, dict(env), fr.old, fr.contract.namespace if fr.contract else None))
        for src, tags, t in inv_terms():
            self.ctx.assume(t)
        m0 = None
        if spec.decreases:
            m0 = int_term(self.spec_value(spec.decreases, dict(env), fr.old, fr.contract.namespace if fr.contract else None))
        if test():
            try:
                if pre_body:
                    pre_body()
                try:
                    self.exec_block(body)
                except ContinueEx:
                    pass
                if post_body:
                    post_body()
            except BreakEx:
                return
            for src, tags, t in inv_terms():
                self.ctx.oblige("inv-preserve", t, line, tags=tags or ctags, note=f"loop{k}: {src}")
            if m0 is not None:
                m1 = int_term(self.spec_value(spec.decreases, dict(env), fr.old, fr.contract.namespace if fr.contract else None))
                self.ctx.oblige("decreases", z3.And(m0 >= 0, m1 < m0), line, tags=ctags, note=f"loop{k}")
            raise PathEnd()
        self.exec_block(orelse)

    # ================================================================== verification driver
    def verify_function(self, q):
        """Explore all paths of q against its contract; obligations accumulate in self.ctx."""
        c = self.reg.contracts[q]
        fnode, modname, cls, path, h = self.src.find(c.of or q)
        clsq = (modname + "." + cls) if cls else None
        is_method = cls is not None and not any(
            isinstance(d, ast.Name) and d.id == "staticmethod" for d in fnode.decorator_list)
        globs = vars(self.src.real_module(modname))

        def run():
            fr = Frame(q, fnode, modname, clsq, c, globs)
            self.frame = fr
            self.depth = 0
            self.ghost = {}
            self.catches_index = "IndexError" in c.raises     # an out-of-range index is then an exceptional outcome
            self.global_cache = {}
            self._fresh_ids = set()
            self._fresh_keep = []
            self.opaque_heap = {}
            self.opaque_heap_old = None
            self.ctx.cur_tags = tuple(c.tags)
            self.ctx.want_exc = 1 if any(v is not None for v in c.raises.values()) or c.raises_ensures else 0
            env = fr.env
            args = fnode.args
            pnames = [a.arg for a in args.args]
            is_cm = any(isinstance(dd, ast.Name) and dd.id == "classmethod" for dd in fnode.decorator_list)
            if is_method and is_cm:
                env[pnames[0]] = self.real_class(clsq)
                pnames = pnames[1:]
            elif is_method:
                sname = pnames[0]
                stype = c.self_type or clsq
                env[sname] = self.reg.type(stype).fresh(self.ctx, "self")
                if isinstance(env[sname], Sym) and not isinstance(env[sname], SObj):
                    self.ctx.assume(self.reg.type(stype).invariant(env[sname]))
                pnames = pnames[1:]
            if False:
                pass
            pos_defaults = dict(zip([a.arg for a in args.args][len(args.args) - len(args.defaults):], args.defaults))
            kw_defaults = {a.arg: d for a, d in zip(args.kwonlyargs, args.kw_defaults) if d is not None}
            for p in pnames + [a.arg for a in args.kwonlyargs]:
                ts = c.params.get(p)
                if ts is None and (p in pos_defaults or p in kw_defaults):
                    # an undeclared parameter with a default: verified as called without it (the default object,
                    # which Python shares between calls, is not fresh)
                    env[p] = self.const_default(pos_defaults.get(p, kw_defaults.get(p)))
                    continue
                if ts is None:
                    raise Unsupported(f"{q}: parameter '{p}' has no declared type")
                ty = self.reg.type(ts)
                v = ty.fresh(self.ctx, p)
                env[p] = v
                if v is not None:
                    self.ctx.assume(ty.invariant(v))
            if args.vararg is not None:      # *args of symbolic length: a list of the declared element type
                ts = c.params.get(args.vararg.arg)
                if ts is None:
                    env[args.vararg.arg] = ()      # undeclared *args: verified as called without extra arguments
                else:
                    ty = self.reg.type(ts)
                    env[args.vararg.arg] = ty.fresh(self.ctx, args.vararg.arg)
                    self.ctx.assume(ty.invariant(env[args.vararg.arg]))
            if args.kwarg is not None and args.kwarg.arg not in env:
                env[args.kwarg.arg] = {}
            for cl in c.requires:
                src, _ = self.clause(cl)
                self.ctx.assume(self.spec_eval(src, dict(env), None, c.namespace))
            self.ctx.oblige("pre-sat", z3.BoolVal(True), fnode.lineno, expect_sat=True, note="requires satisfiable")
            fr.old = {k: snapshot(v) for k, v in env.items()}
            # attribute heaps of opaque objects are realised lazily, so the pre-state heap is "whatever is read first":
            # reads through old() use the initial arrays
            self.opaque_heap_old = "initial"
            fr.entry_field_ids = {}
            for paths_ in getattr(c, "frame_when", {}).values():
                for path_ in paths_:
                    parts_ = path_.split(".")
                    o_ = env.get(parts_[0])
                    for p_ in parts_[1:]:
                        o_ = o_.fields.get(p_) if isinstance(o_, SObj) else None
                    fr.entry_field_ids[path_] = (id(o_), o_)
            fr.entry = dict(env)      # parameters in postconditions denote the values passed in (rebinding a
            #                           parameter inside the body does not change what the contract talks about)
            try:
                self.exec_block(fnode.body)
                result = None
            except ReturnEx as r:
                result = r.value
            except PyRaise as pr:
                self.note_live_path()
                self.check_exceptional(c, pr, modname, env, fr.old, fnode)
                return
            self.note_live_path()
            self.check_normal(c, result, env, fr.old, fnode, modname)
        self.live_paths = 0
        self.path_sat_left = 2
        self.ctx.explore(run)
        # vacuity guard: some path must reach its end with a satisfiable (quantifier-free part of the) path condition - if every
        # path died on contradictory assumptions (assumed callee contracts, lemmas, loop invariants), everything was "proved"
        self.ctx.oblige("live-path", z3.BoolVal(self.live_paths > 0), fnode.lineno,
                        note="at least one path reaches the end of the function with consistent assumptions", assume_after=False)

    def note_live_path(self):
        try:
            if self.ctx.solver.check() != z3.unsat:
                self.live_paths += 1
        except z3.Z3Exception:
            self.live_paths += 1

    def check_normal(self, c, result, env, old, fnode, modname):
        line = fnode.lineno
        if c.returns is not None and result is not None:
            rty = self.reg.type(c.returns)
            if isinstance(rty, TData):
                result = SData(rty.unwrap(result, self.ctx), rty)
            elif hasattr(rty, "coerce"):
                result = rty.coerce(result, self.ctx)
        post_env = dict(env)
        post_env.update(getattr(self.frame, "entry", {}))
        post_env["result"] = result
        if self.path_sat_left > 0:
            # the assumptions collected on this path (callee contracts, invariants, axioms of the models, lemmas) must be jointly
            # satisfiable - checked with the full path condition on the first few live paths of every function
            self.path_sat_left -= 1
            self.ctx.oblige("path-sat", z3.BoolVal(True), line, expect_sat=True, note="assumptions on this path are jointly satisfiable")
        # iff-conditions of raises: a normal return means none of them held
        for exc_name, cond in c.raises.items():
            if cond is not None:
                self.ctx.oblige("post", z3.Not(self.spec_eval(cond, dict(old), None, c.namespace)), line,
                                note=f"returned although {exc_name} iff {cond}")
        for cl in c.ensures:
            src, tags = self.clause(cl)
            self.ctx.oblige("post", self.spec_eval(src, post_env, old, c.namespace), line, tags=tags or tuple(c.tags),
                            note=src, assume_after=False)
        self.check_frame(c, env, old, line)
        for cond, paths_ in getattr(c, "frame_when", {}).items():
            co = self.spec_eval(cond, dict(old), None, c.namespace)
            for path_ in paths_:
                parts_ = path_.split(".")
                o_ = env.get(parts_[0])
                for p_ in parts_[1:]:
                    o_ = o_.fields.get(p_) if isinstance(o_, SObj) else None
                same = id(o_) == self.frame.entry_field_ids.get(path_, (None, None))[0]
                # not assigned on this path (in-place writes to a non-fresh array are fresh-write obligations that fail)
                self.ctx.oblige("frame", z3.Implies(co, z3.BoolVal(bool(same))), line, note=f"{path_} is not assigned when {cond}",
                                assume_after=False)

    def check_frame(self, c, env, old, line):
        mods = set(c.modifies)
        for name, ov in old.items():
            cur = env.get(name)
            if isinstance(ov, SObj) and isinstance(cur, SObj):
                self.frame_obj(name, cur, ov, mods, line)

    def frame_obj(self, path, cur, ov, mods, line, depth=0):
        for f, oldv in ov.fields.items():
            p = f"{path}.{f}"
            if p in mods:
                continue
            newv = cur.fields.get(f)
            if isinstance(oldv, SObj) and isinstance(newv, SObj) and depth < 3:
                self.frame_obj(p, newv, oldv, mods, line, depth + 1)
                continue
            try:
                same = eq(newv, oldv, self.ctx)
            except Unsupported:
                continue
            self.ctx.oblige("frame", zb(same), line, note=f"{p} unchanged", assume_after=False)
        for f in cur.fields:
            if f not in ov.fields and f"{path}.{f}" not in mods and f"{path}.*" not in mods:
                self.ctx.oblige("frame", z3.BoolVal(False), line, note=f"{path}.{f} added", assume_after=False)

    def check_exceptional(self, c, pr, modname, env, old, fnode):
        exc = pr.exc
        for exc_name, cond in c.raises.items():
            cls_exc = self.exc_class(exc_name, modname)
            if issubclass(exc.cls, cls_exc):
                if cond is not None:
                    self.ctx.oblige("post-exc", self.spec_eval(cond, dict(old), None, c.namespace), pr.line,
                                    note=f"raised {exc.cls.__name__} only if {cond}", assume_after=False)
                else:
                    self.ctx.oblige("post-exc", z3.BoolVal(True), pr.line, note=f"may raise {exc_name}",
                                    assume_after=False)
                for src in c.raises_ensures.get(exc_name, []):
                    self.ctx.oblige("post-exc", self.spec_eval(src, dict(env), old, c.namespace), pr.line, note=src,
                                    assume_after=False)
                return
        self.ctx.oblige("post-exc", z3.BoolVal(False), pr.line,
                        note=f"unexpected {exc.cls.__name__}", assume_after=False)


class DefClosure:
    """Nested def: inlined at the call site."""

    def __init__(self, node, frame):
        self.node = node
        self.frame = frame

    def call(self, interp, args, kwargs, node):
        raise Unsupported("nested def call")


def ordinal_after(fr, ordinal):
    return fr.loop_ordinal


# ---------------------------------------------------------------------------------------------
# builtin models
def _m_len(I, args, kwargs, node):
    v = args[0]
    if isinstance(v, (list, tuple, dict, str, set, frozenset)):
        return len(v)
    if isinstance(v, SList):
        return SInt(v.len)
    if isinstance(v, SStr):
        from .opaque import ufun
        n = ufun("str.len", z3.IntSort(), z3.IntSort())(v.t)
        I.ctx.assume(z3.And(n >= 0, (n == 0) == (v.t == intern(""))))
        return SInt(n)
    h = getattr(v, "length", None)
    if h is not None:
        return h(I)
    if isinstance(v, SObj):
        return I.call_method(v, "__len__", [], {}, node)
    raise Unsupported(f"len of {v!r}")


def _m_isinstance(I, args, kwargs, node):
    v, cls = args
    classes = cls if isinstance(cls, tuple) else (cls,)
    return bool_val(z_or(*[_isinst1(I, v, c) for c in classes]))


def _isinst1(I, v, c):
    import numbers
    if not is_sym(v):
        return isinstance(v, c)
    q = getattr(c, "__module__", "") + "." + getattr(c, "__qualname__", "")
    if isinstance(v, SData):
        dt = v.ty.dt
        if q in I.reg.real_to_ctor and I.reg.real_to_ctor[q][0] is dt:
            return dt.recognizer(I.reg.real_to_ctor[q][1].name)(v.t)
        hook = getattr(dt, "isinstance_hook", None)
        if hook is not None:
            r = hook(dt, v.t, c)
            if r is not None:
                return r
        return False
    if isinstance(v, SObj):
        real = I.real_class(v.cls)
        if real is None:
            return v.cls == q
        return issubclass(real, c)
    if isinstance(v, SBool):
        return c in (bool, int, object, numbers.Integral, numbers.Number)
    if isinstance(v, SInt):
        return c in (int, object, numbers.Integral, numbers.Number)
    if isinstance(v, SReal):
        return c in (float, object, numbers.Number)
    if isinstance(v, SStr):
        if c in (str, object):
            return (v.t != -1) if v.optional else True
        return False
    if isinstance(v, SList):
        return c in (list, object)
    if isinstance(v, SExc):
        return issubclass(v.cls, c)
    h = getattr(v, "isinstance", None)
    if h is not None:
        return h(I, c)
    return False


def _m_range(I, args, kwargs, node):
    if all(isinstance(a, int) for a in args):
        return list(range(*args))
    if len(args) == 1:
        lo, hi = z3.IntVal(0), int_term(args[0])
    elif len(args) == 2:
        lo, hi = int_term(args[0]), int_term(args[1])
    else:
        raise Unsupported("range with a step")
    i = z3.Int("rg_i")
    n = z3.simplify(z3.If(hi > lo, hi - lo, 0))
    return SList(n, z3.Lambda([i], i + lo), TInt())


def _m_list(I, args, kwargs, node):
    if not args:
        return []
    if isinstance(args[0], SOpaque):
        from .opaque import ufun, U
        return SOpaque(ufun("U!list", U(), U())(args[0].t), "any")
    v = I.iterable(args[0], node)
    if isinstance(v, (list, tuple)):
        return list(v)
    return v.copy()


def _m_tuple(I, args, kwargs, node):
    if not args:
        return ()
    v = I.iterable(args[0], node)
    if isinstance(v, (list, tuple)):
        return tuple(v)
    return v.copy()      # a tuple of symbolic length: an (unmodified) list value


def _m_str(I, args, kwargs, node):
    v = args[0]
    if not is_sym(v):
        return str(v)
    if isinstance(v, SStr):
        return v
    if type(v).__name__ == "SChar":
        from .opaque import ufun
        return SStr(ufun("str.of_char", z3.IntSort(), z3.IntSort())(v.t))
    if not isinstance(v, SOpaque):
        return SStr(I.ctx.fresh("str", z3.IntSort()))
    hook = getattr(I.reg, "str_of", None)
    if hook is not None:
        return hook(I, v)
    return SStr(I.ctx.fresh("str", z3.IntSort()))


def _m_enumerate(I, args, kwargs, node):
    v = I.iterable(args[0], node)
    if isinstance(v, (list, tuple)):
        return [(i, x) for i, x in enumerate(v)]
    raise Unsupported("enumerate over a symbolic list")


def _m_zip(I, args, kwargs, node):
    vs = [I.iterable(a, node) for a in args]
    if all(isinstance(v, (list, tuple)) for v in vs):
        return [tuple(t) for t in zip(*vs)]
    raise Unsupported("zip over symbolic lists")


def _m_hasattr(I, args, kwargs, node):
    v, name = args
    if isinstance(v, SObj):
        return name in v.fields or I.src.class_has_method(v.cls, name)
    if isinstance(v, SData):
        cands = v.ty.dt.ctors_with_field(name)
        return bool_val(z_or(*[v.ty.dt.recognizer(c.name)(v.t) for c in cands]))
    h = getattr(v, "hasattr", None)
    if h is not None:
        return h(I, name)
    if not is_sym(v):
        return hasattr(v, name)
    raise Unsupported(f"hasattr on {v!r}")


def _m_getattr(I, args, kwargs, node):
    return I.getattr(args[0], args[1], node)


def _m_setattr(I, args, kwargs, node):
    name = args[1]
    if is_sym(name):
        name = I.concretize(name)
        if name is None:
            # the class's own __setattr__ decides (it may narrow the name)
            if isinstance(args[0], SObj) and I.src.class_has_method(args[0].cls, "__setattr__") and not I.in_setattr:
                I.in_setattr = True
                try:
                    I.call_function(args[0].cls + ".__setattr__", args[0], [args[1], args[2]], {}, node)
                finally:
                    I.in_setattr = False
                return None
            raise Unsupported("setattr with a symbolic name")
    I.setattr(args[0], name, args[2], node)
    return None


def _m_all(I, args, kwargs, node):
    v = I.iterable(args[0], node)
    if isinstance(v, (list, tuple)):
        return bool_val(z_and(*[zb(to_bool_term(x)) for x in v]))
    if isinstance(v.elem, TBool):
        j = I.ctx.fresh("allj", z3.IntSort())
        return SBool(z3.ForAll([j], z3.Implies(z3.And(0 <= j, j < v.len), v.arr[j])))
    raise Unsupported("all() over a symbolic non-bool list")


def _m_any(I, args, kwargs, node):
    v = I.iterable(args[0], node)
    if isinstance(v, (list, tuple)):
        return bool_val(z_or(*[zb(to_bool_term(x)) for x in v]))
    if isinstance(v.elem, TBool):
        j = I.ctx.fresh("anyj", z3.IntSort())
        return SBool(z3.Exists([j], z3.And(0 <= j, j < v.len, v.arr[j])))
    raise Unsupported("any() over a symbolic non-bool list")


def _m_type(I, args, kwargs, node):
    v = args[0]
    if isinstance(v, SObj):
        rc = I.real_class(v.cls)
        if rc is not None:
            return rc
    if not is_sym(v):
        return type(v)
    return SOpaque(I.ctx.fresh("type", TOpaque().sort()), "type")


def _m_slice(I, args, kwargs, node):
    if len(args) == 2:
        return SSlice(args[0], args[1])
    raise Unsupported("slice() arity")


def _m_callable(I, args, kwargs, node):
    h = getattr(args[0], "callable", None)
    if h is not None:
        return h(I)
    if not is_sym(args[0]):
        return callable(args[0])
    raise Unsupported("callable() of a symbolic value")


def _m_set(I, args, kwargs, node):
    from .sets import m_set_of
    r = m_set_of(I, args, kwargs, node)
    if r is not None:
        return r
    from .pandas_m import m_set
    return m_set(I, args, kwargs, node)


def _m_frozenset(I, args, kwargs, node):
    from .sets import m_set_of
    r = m_set_of(I, args, kwargs, node)
    if r is not None:
        return r
    raise Unsupported("frozenset() of something that is not a symbolic set")


def _m_is_fresh(I, args, kwargs, node):
    """Specification builtin: the container was created by a literal / comprehension in this activation
    (a default-argument object is shared between calls and therefore never fresh)."""
    v = args[0]
    if isinstance(v, (list, dict)):
        return id(v) in I.fresh_ids
    return bool(getattr(v, "fresh", False))


def _m_sum(I, args, kwargs, node):
    v = args[0]
    h = getattr(v, "pysum", None)
    if h is not None:
        return h(I)
    if isinstance(v, (list, tuple)):
        tot = 0
        for x in v:
            tot = arith("+", tot, x)
        return tot
    raise Unsupported(f"sum() of {v!r}")


def _m_sorted(I, args, kwargs, node):
    v = args[0]
    if isinstance(v, (list, tuple)) and not any(is_sym(x) for x in v):
        return sorted(v)
    hook = getattr(I.reg, "sorted_model", None)
    if hook is not None:
        return hook(I, v, node)
    raise Unsupported("sorted() of a symbolic sequence")


def _m_hash(I, args, kwargs, node):
    """hash(x): exactly one argument (TypeError otherwise); an uninterpreted function of the value(s)."""
    if len(args) != 1 or kwargs:
        I.raise_py(TypeError, node)
    from .opaque import ufun
    v = args[0]
    parts = list(v) if isinstance(v, tuple) else [v]
    acc = z3.IntVal(len(parts))
    h2 = ufun("hash.mix", z3.IntSort(), z3.IntSort(), z3.IntSort())
    for p in parts:
        if isinstance(p, SOpaque):
            t = ufun("hash.obj", p.t.sort(), z3.IntSort())(p.t)
        elif isinstance(p, SList):
            t = ufun("hash.list", p.arr.sort(), z3.IntSort(), z3.IntSort())(p.arr, p.len)
        elif isinstance(p, (str, SStr)):
            t = ufun("hash.str", z3.IntSort(), z3.IntSort())(ops.str_term(p))
        elif p is None:
            t = z3.IntVal(-7)
        elif ops.is_numeric(p):
            t = ufun("hash.num", z3.RealSort(), z3.IntSort())(z3.ToReal(ops.num_term(p)[0]) if not ops.num_term(p)[1] else ops.num_term(p)[0])
        elif inspect_isclass(p):
            t = z3.IntVal(abs(hash(p.__name__)) % 100003)
        elif type(p).__name__ == "SFSet":          # hash of a (frozen)set: a function of its members
            t = ufun(f"hash.set!{p.t.sort()}", p.t.sort(), z3.IntSort())(p.t)
        else:
            raise Unsupported(f"hash of {p!r}")
        acc = h2(acc, t)
    return SInt(acc)


def inspect_isclass(p):
    import inspect
    return inspect.isclass(p)


Engine.builtin_models = {
    hash: _m_hash,
    set: _m_set, frozenset: _m_frozenset, sum: _m_sum, sorted: _m_sorted,
    len: _m_len, isinstance: _m_isinstance, range: _m_range, list: _m_list, tuple: _m_tuple,
    str: _m_str, enumerate: _m_enumerate, zip: _m_zip, hasattr: _m_hasattr, getattr: _m_getattr,
    setattr: _m_setattr, all: _m_all, any: _m_any, type: _m_type, slice: _m_slice,
    callable: _m_callable,
}

"""numpy arrays for pyvc: shape + an element closure (python function from index terms to a z3 term).

An SArr is a mutable python object (identity = aliasing). In-place writes are accepted only on arrays
that are *fresh* in the current activation (allocated by an operation whose external contract says it
allocates); writing to anything else raises a `fresh-write` obligation that is false.
Elements are mathematical reals (ints embed); boolean arrays have dtype 'bool' and Bool elements.
"""
import z3

from .values import Sym, SInt, SReal, SBool, SStr, SSlice, SList, SOpaque, Type, Unsupported, TInt, TReal, TBool
from . import ops
from .ops import int_term, num_term, bool_val, to_bool_term, zb, is_sym

R = z3.RealSort()
I_ = z3.IntSort()


def rterm(v):
    t, real = num_term(v)
    return t if real else z3.ToReal(t)


class SArr(Sym):
    def __init__(self, ndim, n0, n1, at, dtype="num", fresh=False):
        self.ndim = ndim          # python int (1 or 2) or z3 Int term
        self.n0 = n0              # z3 Int
        self.n1 = n1              # z3 Int (number of columns; for 1-D arrays conceptually 1)
        self.at = at              # closure (i, j) -> z3 term (j ignored for 1-D)
        self.dtype = dtype        # 'num' | 'bool'
        self.fresh = fresh

    def snapshot(self, memo):
        return SArr(self.ndim, self.n0, self.n1, self.at, self.dtype, False)

    # ---- observation -------------------------------------------------------------------------
    def getattr(self, I, attr, node):
        self.resolve_rank(I)
        if attr == "ndim":
            return self.ndim if isinstance(self.ndim, int) else SInt(self.ndim)
        if attr == "shape":
            return ShapeTuple(self)
        if attr == "T":
            if self.ndim == 2:
                a = self.at
                return SArr(2, self.n1, self.n0, lambda i, j: a(j, i), self.dtype, True)
            if self.ndim == 1:
                return self
            raise Unsupported("transpose of an array of unknown rank")
        if attr == "values":
            return self
        if attr == "dtype":
            return DType(self.dtype)
        from .interp import BoundMethod
        return BoundMethod(self, attr)

    def length(self, I):
        return SInt(self.n0)

    def isinstance(self, I, c):
        import numpy as np
        return c in (np.ndarray, object)

    def index_ok(self, I, i, n, node):
        if I.ctx.spec_mode:
            return
        I.ctx.oblige("index", z3.And(0 <= i, i < n), I.line(node), note="array index")

    def norm_index(self, idx, n, I=None):
        """python int / SInt index with negative wrap (mathematical indexing inside specifications)."""
        if isinstance(idx, SReal):          # an entry of an integer-valued array used as an index
            t = z3.simplify(z3.ToInt(idx.t))
        else:
            t = int_term(idx)
        if I is not None and I.ctx.spec_mode:
            return t
        if I is not None and not isinstance(idx, int) and I.ctx.entails(t >= 0):
            return t
        if isinstance(idx, int):
            return z3.IntVal(idx) if idx >= 0 else n + idx
        return z3.If(t < 0, t + n, t)

    def resolve_rank(self, I):
        """A symbolic rank that the path condition forces to 1 or 2 becomes concrete."""
        if not isinstance(self.ndim, int):
            for k in (1, 2):
                # only what the path condition itself forces may be remembered: under the guard of a specification
                # sub-expression (possibly contradictory with the path) anything is entailed
                if I.ctx.entails_pc(self.ndim == k):
                    self.ndim = k
                    break

    def getitem(self, I, idx, node):
        import numpy as np
        self.resolve_rank(I)
        a = self.at
        if not isinstance(idx, tuple):
            idx = (idx,)
        if self.ndim == 1 or (len(idx) == 1 and not isinstance(self.ndim, int)):
            if len(idx) == 1:
                k = idx[0]
                if isinstance(k, SArr) and k.dtype == "bool":
                    # x[mask]: some of the entries, in order - abstracted to a fresh vector of at most len(x) unconstrained entries
                    cnt = I.ctx.fresh("mask.n", I_)
                    I.ctx.assume(z3.And(cnt >= 0, cnt <= self.n0))
                    f = z3.Function(str(I.ctx.fresh("mask.el", I_)), I_, R if self.dtype != "bool" else z3.BoolSort())
                    return SArr(1, cnt, z3.IntVal(1), lambda i, j: f(i), self.dtype, True)
                if isinstance(k, SArr):       # fancy indexing of a vector by an integer vector
                    kk = k.at
                    return SArr(1, k.n0, z3.IntVal(1), lambda i, j: a(z3.ToInt(kk(i, 0)), 0), self.dtype, True)
                if isinstance(k, (SSlice, slice)):
                    lo, ln = self.slice_bounds(k, self.n0)
                    return SArr(1, ln, z3.IntVal(1), lambda i, j: a(i + lo, 0), self.dtype, False)
                t = self.norm_index(k, self.n0, I)
                self.index_ok(I, t, self.n0, node)
                return self.wrap_elem(a(t, z3.IntVal(0)))
            if len(idx) == 2 and I.ctx.spec_mode and not any(isinstance(q, (SSlice, slice)) or q is None for q in idx):
                # a 2-index read of a vector inside a specification (an operand that is only meaningful under a
                # guard that is false here): some value, no obligation
                return self.wrap_elem(a(self.norm_index(idx[0], self.n0, I), self.norm_index(idx[1], self.n1, I)))
            if len(idx) == 2 and idx[1] is None and isinstance(idx[0], (SSlice, slice)):   # x[:, np.newaxis]
                lo, ln = self.slice_bounds(idx[0], self.n0)
                return SArr(2, ln, z3.IntVal(1), lambda i, j: a(i + lo, 0), self.dtype, False)
            raise Unsupported("index form on a 1-D array")
        if (not isinstance(self.ndim, int) and len(idx) == 2 and I.ctx.spec_mode
                and not any(isinstance(q, (SSlice, slice)) or q is None for q in idx)):
            # a [r, c] read inside a specification of an array whose rank the path has not fixed (yet): the entry function
            return self.wrap_elem(a(self.norm_index(idx[0], self.n0, I), self.norm_index(idx[1], self.n1, I)))
        if not isinstance(self.ndim, int) or self.ndim != 2:
            raise Unsupported("indexing an array of unknown rank")
        if len(idx) == 1:
            k = idx[0]
            if isinstance(k, SArr) and k.dtype != "bool":       # M[codes]: fancy row indexing -> fresh array
                kk = k.at
                return SArr(2, k.n0, self.n1, lambda i, j: a(z3.ToInt(kk(i, 0)), j), self.dtype, True)
            if isinstance(k, (SSlice, slice)):
                lo, ln = self.slice_bounds(k, self.n0)
                return SArr(2, ln, self.n1, lambda i, j: a(i + lo, j), self.dtype, False)
            t = self.norm_index(k, self.n0, I)
            self.index_ok(I, t, self.n0, node)
            return SArr(1, self.n1, z3.IntVal(1), lambda i, j: a(t, i), self.dtype, False)
        r, c = idx
        rs = isinstance(r, (SSlice, slice))
        cs = isinstance(c, (SSlice, slice))
        if rs and cs:
            lo, ln = self.slice_bounds(r, self.n0)
            lo2, ln2 = self.slice_bounds(c, self.n1)
            return SArr(2, ln, ln2, lambda i, j: a(i + lo, j + lo2), self.dtype, False)
        if rs:
            lo, ln = self.slice_bounds(r, self.n0)
            t = self.norm_index(c, self.n1, I)
            self.index_ok(I, t, self.n1, node)
            return SArr(1, ln, z3.IntVal(1), lambda i, j: a(i + lo, t), self.dtype, False)
        if cs:
            lo2, ln2 = self.slice_bounds(c, self.n1)
            t = self.norm_index(r, self.n0, I)
            self.index_ok(I, t, self.n0, node)
            return SArr(1, ln2, z3.IntVal(1), lambda i, j: a(t, i + lo2), self.dtype, False)
        t = self.norm_index(r, self.n0, I)
        u = self.norm_index(c, self.n1, I)
        self.index_ok(I, t, self.n0, node)
        self.index_ok(I, u, self.n1, node)
        return self.wrap_elem(a(t, u))

    def wrap_elem(self, t):
        return bool_val(t) if self.dtype == "bool" else SReal(z3.simplify(t))

    def slice_bounds(self, sl, n):
        lo, hi = (sl.start, sl.stop)

        def clip(v, default):
            if v is None:
                return default
            t = int_term(v)
            t = z3.If(t < 0, t + n, t)
            return z3.If(t < 0, 0, z3.If(t > n, n, t))
        a = z3.simplify(clip(lo, z3.IntVal(0)))
        b = z3.simplify(clip(hi, n))
        return a, z3.simplify(z3.If(b > a, b - a, 0))

    # ---- in-place writes ----------------------------------------------------------------------
    def setitem(self, I, idx, v, node):
        I.ctx.oblige("fresh-write", z3.BoolVal(bool(self.fresh)), I.line(node),
                     note="in-place write to an array allocated in this activation")
        if not isinstance(idx, tuple):
            idx = (idx,)
        old = self.at
        n0, n1 = self.n0, self.n1

        def val_at(i, j, ri, cj):
            """value to store at (i,j); ri, cj: offsets within the written region"""
            if isinstance(v, SArr):
                if v.ndim == 2:
                    return v.at(ri, cj)
                return v.at(cj if ri is None else ri, 0) if True else None
            return rterm(v) if self.dtype == "num" else zb(to_bool_term(v))

        def region(k, n):
            """(membership predicate, offset function) of an index along one axis"""
            if isinstance(k, (SSlice, slice)):
                lo, ln = self.slice_bounds(k, n)
                return (lambda t: z3.And(t >= lo, t < lo + ln)), (lambda t: t - lo), ln
            if isinstance(k, SArr) and k.dtype == "bool":
                return (lambda t: k.at(t, 0)), None, None
            t0 = self.norm_index(k, n, I)
            self.index_ok(I, t0, n, node)
            return (lambda t: t == t0), (lambda t: z3.IntVal(0)), z3.IntVal(1)
        if self.ndim == 1:
            inr, offr, ln = region(idx[0], n0)
            if isinstance(v, SArr):
                if offr is None:
                    raise Unsupported("mask write of an array value")
                if not I.ctx.spec_mode:
                    I.ctx.oblige("shape", ln == v.n0, I.line(node), note="written region and value have the same length")
                self.at = lambda i, j: z3.If(inr(i), v.at(offr(i), 0), old(i, j))
            else:
                c = rterm(v) if self.dtype == "num" else zb(to_bool_term(v))
                self.at = lambda i, j: z3.If(inr(i), c, old(i, j))
            return
        if self.ndim != 2:
            raise Unsupported("write to an array of unknown rank")
        if len(idx) == 1:
            idx = (idx[0], SSlice(None, None))
        inr, offr, lnr = region(idx[0], n0)
        inc, offc, lnc = region(idx[1], n1)
        if isinstance(v, SArr):
            if offr is None or offc is None:
                raise Unsupported("mask write of an array value")
            row_scalar = not isinstance(idx[0], (SSlice, slice))
            col_scalar = not isinstance(idx[1], (SSlice, slice))
            if v.ndim == 2:
                I.ctx.oblige("shape", z3.And(lnr == v.n0, lnc == v.n1), I.line(node), note="written region and value have the same shape")
                self.at = lambda i, j: z3.If(z3.And(inr(i), inc(j)), v.at(offr(i), offc(j)), old(i, j))
            elif col_scalar:       # P[:, k] = vector
                I.ctx.oblige("shape", lnr == v.n0, I.line(node), note="written column and value have the same length")
                self.at = lambda i, j: z3.If(z3.And(inr(i), inc(j)), v.at(offr(i), 0), old(i, j))
            elif row_scalar:
                I.ctx.oblige("shape", lnc == v.n0, I.line(node), note="written row and value have the same length")
                self.at = lambda i, j: z3.If(z3.And(inr(i), inc(j)), v.at(offc(j), 0), old(i, j))
            else:
                raise Unsupported("broadcast write")
        else:
            c = rterm(v) if self.dtype == "num" else zb(to_bool_term(v))
            self.at = lambda i, j: z3.If(z3.And(inr(i), inc(j)), c, old(i, j))

    # ---- arithmetic ---------------------------------------------------------------------------
    def binop(self, I, op, other, refl):
        self.resolve_rank(I)
        if isinstance(other, SArr):
            other.resolve_rank(I)
            a, b = (other, self) if refl else (self, other)
            if a.ndim == b.ndim or (isinstance(a.ndim, int) and isinstance(b.ndim, int)):
                if a.ndim == b.ndim:
                    if not I.ctx.spec_mode:
                        I.ctx.oblige("shape", z3.And(a.n0 == b.n0, a.n1 == b.n1) if a.ndim == 2 else a.n0 == b.n0,
                                     0, note="elementwise operands have equal shapes")
                    return SArr(a.ndim, a.n0, a.n1, lambda i, j: _arith(op, a.at(i, j), b.at(i, j)), "num", True)
                if a.ndim == 2 and b.ndim == 1:      # (n, p) op (p,): broadcast along rows
                    if not I.ctx.spec_mode:
                        I.ctx.oblige("shape", a.n1 == b.n0, 0, note="broadcast operand length equals the number of columns")
                    return SArr(2, a.n0, a.n1, lambda i, j: _arith(op, a.at(i, j), b.at(j, 0)), "num", True)
            raise Unsupported("array operands of different rank")
        if ops.is_numeric(other):
            c = rterm(other)
            a = self.at
            if refl:
                return SArr(self.ndim, self.n0, self.n1, lambda i, j: _arith(op, c, a(i, j)), "num", True)
            return SArr(self.ndim, self.n0, self.n1, lambda i, j: _arith(op, a(i, j), c), "num", True)
        return NotImplemented

    def iop(self, I, op, other, node):
        I.ctx.oblige("fresh-write", z3.BoolVal(bool(self.fresh)), I.line(node), note="augmented assignment on an array allocated here")
        r = self.binop(I, op, other, False)
        if r is NotImplemented:
            return r
        self.at = r.at
        return self

    def cmpop(self, I, op, other, refl):
        if I.ctx.spec_mode and isinstance(other, SArr) and op in ("==", "!="):
            return NotImplemented        # in specifications == on arrays is equality of shape and all entries
        if isinstance(other, SArr):
            a, b = (other, self) if refl else (self, other)
            return SArr(a.ndim, a.n0, a.n1, lambda i, j: _cmp(op, a.at(i, j), b.at(i, j)), "bool", True)
        if ops.is_numeric(other):
            c = rterm(other)
            a = self.at
            if refl:
                return SArr(self.ndim, self.n0, self.n1, lambda i, j: _cmp(op, c, a(i, j)), "bool", True)
            return SArr(self.ndim, self.n0, self.n1, lambda i, j: _cmp(op, a(i, j), c), "bool", True)
        return NotImplemented

    def invert(self, I):
        a = self.at
        return SArr(self.ndim, self.n0, self.n1, lambda i, j: z3.Not(a(i, j)), "bool", True)

    def pysum(self, I):
        """builtin sum() of a boolean vector: a count that is zero exactly when no entry is true."""
        if self.dtype != "bool" or self.ndim != 1:
            raise Unsupported("sum() of a non-boolean array")
        c = I.ctx.fresh("count", I_)
        r = z3.Int("cnt_r")
        a = self.at
        I.ctx.assume(z3.And(c >= 0, (c == 0) == z3.Not(z3.Exists([r], z3.And(0 <= r, r < self.n0, a(r, 0))))))
        return SInt(c)

    def method(self, I, name, args, kwargs, node):
        a = self.at
        if name == "any" or name == "all":
            axis = kwargs.get("axis", args[0] if args else None)
            q = z3.Exists if name == "any" else z3.ForAll

            def truth(t):
                return t if self.dtype == "bool" else t != 0
            if axis is None:
                i = I.ctx.fresh("ai", I_)
                j = I.ctx.fresh("aj", I_)
                if self.ndim == 1:
                    rng = z3.And(0 <= i, i < self.n0)
                    body = truth(a(i, 0))
                    return bool_val(q([i], z3.And(rng, body) if name == "any" else z3.Implies(rng, body)))
                rng = z3.And(0 <= i, i < self.n0, 0 <= j, j < self.n1)
                body = truth(a(i, j))
                return bool_val(q([i, j], z3.And(rng, body) if name == "any" else z3.Implies(rng, body)))
            if axis == 1 and self.ndim == 2:
                n1 = self.n1

                def row(i, _):
                    j = z3.Int(f"anyj!{id(self) % 9973}")
                    rng = z3.And(0 <= j, j < n1)
                    body = truth(a(i, j))
                    return q([j], z3.And(rng, body) if name == "any" else z3.Implies(rng, body))
                return SArr(1, self.n0, z3.IntVal(1), row, "bool", True)
            raise Unsupported(f".{name}(axis={axis})")
        if name == "flatten" and self.ndim == 1:
            return SArr(1, self.n0, self.n1, a, self.dtype, True)
        if name == "copy":
            return SArr(self.ndim, self.n0, self.n1, a, self.dtype, True)
        if name == "tolist" or name == "to_numpy":
            return self
        if name == "sum" and not args and not kwargs:
            return SReal(I.ctx.fresh("arrsum", R))
        if name == "sort" and not args and not kwargs and self.ndim == 1:
            # in-place ascending sort: same length, ascending, every entry an entry of the old vector and vice versa
            I.ctx.oblige("fresh-write", z3.BoolVal(bool(self.fresh)), I.line(node), note="in-place sort of an array allocated here")
            f = z3.Function(str(I.ctx.fresh("sorted.el", I_)), I_, R)
            i, j = z3.Ints("so_i so_j")
            n = self.n0
            I.ctx.assume(z3.ForAll([i, j], z3.Implies(z3.And(0 <= i, i <= j, j < n), f(i) <= f(j))))
            I.ctx.assume(z3.ForAll([i], z3.Implies(z3.And(0 <= i, i < n), z3.Exists([j], z3.And(0 <= j, j < n, f(i) == a(j, 0))))))
            I.ctx.assume(z3.ForAll([j], z3.Implies(z3.And(0 <= j, j < n), z3.Exists([i], z3.And(0 <= i, i < n, f(i) == a(j, 0))))))
            self.at = lambda i, j: f(i)
            return None
        raise Unsupported(f"{I.frame.qualname}:{I.line(node)} ndarray.{name}")

    def __repr__(self):
        return f"SArr(ndim={self.ndim}, shape=({self.n0},{self.n1}), {self.dtype})"


class ShapeTuple(Sym):
    """shape of an array whose rank is symbolic: only indexing is supported."""

    def __init__(self, arr):
        self.arr = arr

    def getitem(self, I, idx, node):
        if idx == 0 or idx == -2:
            return SInt(self.arr.n0)
        if idx == 1 or idx == -1:
            self.arr.resolve_rank(I)
            if not I.ctx.spec_mode:        # specifications index mathematically (operands of 'and' are all evaluated)
                if isinstance(self.arr.ndim, int):
                    if self.arr.ndim != 2:
                        if idx == -1:
                            return SInt(self.arr.n0)
                        I.raise_py(IndexError, node)
                else:
                    I.ctx.oblige("index", self.arr.ndim == 2, I.line(node), note="shape[1] of a 2-D array")
            return SInt(self.arr.n1)
        raise Unsupported("shape index")

    def length(self, I):
        self.arr.resolve_rank(I)
        return self.arr.ndim if isinstance(self.arr.ndim, int) else SInt(self.arr.ndim)

    def iterate(self, I):
        self.arr.resolve_rank(I)
        if self.arr.ndim == 1:
            return [SInt(self.arr.n0)]
        if self.arr.ndim == 2:
            return [SInt(self.arr.n0), SInt(self.arr.n1)]
        raise Unsupported("iteration over the shape of an array of unknown rank")


class DType(Sym):
    def __init__(self, kind):
        self.kind_ = kind

    def getattr(self, I, attr, node):
        if attr == "kind":
            return "b" if self.kind_ == "bool" else "f"
        if attr == "ordered":
            return False
        raise Unsupported(f"dtype.{attr}")

    def hasattr(self, I, name):
        return name in ("kind",)


def _arith(op, x, y):
    if op == "+":
        return x + y
    if op == "-":
        return x - y
    if op == "*":
        return x * y
    if op == "/":
        return x / y
    raise Unsupported(f"array operator {op}")


def _cmp(op, x, y):
    return {"==": x == y, "!=": x != y, "<": x < y, "<=": x <= y, ">": x > y, ">=": x >= y}[op]


# ---------------------------------------------------------------------------------------------
class SArrList(Sym):
    """A python list of 1-D arrays of a common length (e.g. the columns collected before column_stack)."""

    def __init__(self, length, rows, at):
        self.len = length
        self.rows = rows
        self.at = at          # (k, r) -> element r of the k-th array

    def snapshot(self, memo):
        return SArrList(self.len, self.rows, self.at)

    def length(self, I):
        return SInt(self.len)

    def method(self, I, name, args, kwargs, node):
        if name == "append":
            v = args[0]
            if not isinstance(v, SArr) or v.ndim != 1:
                raise Unsupported("append of a non-vector to a list of vectors")
            if not I.ctx.spec_mode:
                I.ctx.oblige("shape", z3.Or(self.len == 0, v.n0 == self.rows), I.line(node), note="appended column has the common length")
            old, n, va = self.at, self.len, v.at
            self.at = lambda k, r: z3.If(k == n, va(r, 0), old(k, r))
            self.rows = z3.simplify(z3.If(n == 0, v.n0, self.rows))
            self.len = z3.simplify(n + 1)
            return None
        raise Unsupported(f"list-of-arrays.{name}")

    def getitem(self, I, idx, node):
        k = int_term(idx)
        a = self.at
        return SArr(1, self.rows, z3.IntVal(1), lambda i, j: a(k, i), "num", False)

    def getattr(self, I, attr, node):
        if attr == "rows":
            return SInt(self.rows)
        from .interp import BoundMethod
        return BoundMethod(self, attr)


class TArr(Type):
    """Fresh symbolic array: uninterpreted element function; rank 1, 2 or symbolic ('?')."""

    def __init__(self, rank="2", dtype="num"):
        self.rank = rank
        self.dtype = dtype
        self.name = {"1": "arr1", "2": "arr2", "?": "arr"}[rank] + ("b" if dtype == "bool" else "")

    def fresh(self, ctx, hint):
        n0 = ctx.fresh(hint + ".n0", I_)
        n1 = ctx.fresh(hint + ".n1", I_)
        f = z3.Function(str(ctx.fresh(hint + ".el", I_)), I_, I_, z3.BoolSort() if self.dtype == "bool" else R)
        ctx.assume(z3.And(n0 >= 0, n1 >= 0))
        if self.rank == "?":
            nd = ctx.fresh(hint + ".ndim", I_)
            ctx.assume(z3.Or(nd == 1, nd == 2))
        else:
            nd = int(self.rank)
        if nd == 1:
            ctx.assume(n1 == 1)
        return SArr(nd, n0, n1, (lambda i, j: f(i, j)), self.dtype, False)

    def invariant(self, v):
        return z3.BoolVal(True)


class TArrList(Type):
    name = "list[arr1]"

    def coerce(self, v, ctx):
        if isinstance(v, list) and not v:
            return SArrList(z3.IntVal(0), ctx.fresh("emptyrows", I_), lambda k, r: z3.RealVal(0))
        return v

    def fresh(self, ctx, hint):
        n = ctx.fresh(hint + ".len", I_)
        rows = ctx.fresh(hint + ".rows", I_)
        f = z3.Function(str(ctx.fresh(hint + ".el", I_)), I_, I_, R)
        ctx.assume(z3.And(n >= 0, rows >= 0))
        return SArrList(n, rows, lambda k, r: f(k, r))

    def invariant(self, v):
        return z3.BoolVal(True)


def arr_eq(a, b, ctx):
    """Elementwise equality incl. shape, as a z3 Bool."""
    i = ctx.fresh("eqi", I_)
    j = ctx.fresh("eqj", I_)
    if a.ndim == 1 and b.ndim == 1:
        return z3.And(a.n0 == b.n0, z3.ForAll([i], z3.Implies(z3.And(0 <= i, i < a.n0), a.at(i, 0) == b.at(i, 0))))
    if a.ndim == 2 and b.ndim == 2:
        return z3.And(a.n0 == b.n0, a.n1 == b.n1,
                      z3.ForAll([i, j], z3.Implies(z3.And(0 <= i, i < a.n0, 0 <= j, j < a.n1), a.at(i, j) == b.at(i, j))))
    raise Unsupported("array equality with unknown rank")


# ---------------------------------------------------------------------------------------------
# numpy / scipy externals (assumed contracts; each is also validated against the real library by vf.rtc.extvalid)
def _shape_arg(a):
    if isinstance(a, tuple):
        return [int_term(x) for x in a]
    return [int_term(a)]


def np_eye(I, a, kw, node):
    n = int_term(a[0])
    return SArr(2, n, n, lambda i, j: z3.If(i == j, z3.RealVal(1), z3.RealVal(0)), "num", True)


def np_zeros(I, a, kw, node):
    sh = _shape_arg(a[0])
    if len(sh) == 1:
        return SArr(1, sh[0], z3.IntVal(1), lambda i, j: z3.RealVal(0), "num", True)
    return SArr(2, sh[0], sh[1], lambda i, j: z3.RealVal(0), "num", True)


def np_ones(I, a, kw, node):
    sh = _shape_arg(a[0])
    if len(sh) == 1:
        return SArr(1, sh[0], z3.IntVal(1), lambda i, j: z3.RealVal(1), "num", True)
    return SArr(2, sh[0], sh[1], lambda i, j: z3.RealVal(1), "num", True)


def np_empty(I, a, kw, node):
    sh = _shape_arg(a[0])
    f = z3.Function(str(I.ctx.fresh("empty.el", I_)), I_, I_, R)
    if len(sh) == 1:
        return SArr(1, sh[0], z3.IntVal(1), lambda i, j: f(i, j), "num", True)
    return SArr(2, sh[0], sh[1], lambda i, j: f(i, j), "num", True)


def np_vstack(I, a, kw, node):
    parts = a[0]
    if isinstance(parts, (list, tuple)) and all(isinstance(p, SArr) and p.ndim == 1 for p in parts):
        n = parts[0].n0                      # stacking k vectors of length n gives a (k, n) matrix
        for p in parts[1:]:
            I.ctx.oblige("shape", p.n0 == n, I.line(node), note="vstack operands have the same length")

        def at1(i, j):
            t = parts[-1].at(j, 0)
            for k in range(len(parts) - 2, -1, -1):
                t = z3.If(i == k, parts[k].at(j, 0), t)
            return t
        return SArr(2, z3.IntVal(len(parts)), n, at1, "num", True)
    if isinstance(parts, (list, tuple)) and all(isinstance(p, SArr) and p.ndim == 2 for p in parts):
        n1 = parts[0].n1
        for p in parts[1:]:
            I.ctx.oblige("shape", p.n1 == n1, I.line(node), note="vstack operands have the same number of columns")
        offs = [z3.IntVal(0)]
        for p in parts:
            offs.append(z3.simplify(offs[-1] + p.n0))

        def at(i, j):
            t = parts[-1].at(i - offs[len(parts) - 1], j)
            for k in range(len(parts) - 2, -1, -1):
                t = z3.If(i < offs[k + 1], parts[k].at(i - offs[k], j), t)
            return t
        return SArr(2, offs[-1], n1, at, "num", True)
    raise Unsupported("np.vstack form")


def np_column_stack(I, a, kw, node):
    parts = a[0]
    if isinstance(parts, SArrSeq):
        return column_stack_seq(I, parts, node)
    if isinstance(parts, SArrList):
        p = parts
        return SArr(2, p.rows, p.len, lambda i, j: p.at(j, i), "num", True)
    if isinstance(parts, (list, tuple)) and all(isinstance(p, SArr) and isinstance(p.ndim, int) for p in parts):
        n0 = parts[0].n0
        for p in parts[1:]:
            I.ctx.oblige("shape", p.n0 == n0, I.line(node), note="column_stack operands have the same number of rows")
        widths = [p.n1 if p.ndim == 2 else z3.IntVal(1) for p in parts]
        offs = [z3.IntVal(0)]
        for w in widths:
            offs.append(z3.simplify(offs[-1] + w))

        def at(i, j):
            t = parts[-1].at(i, j - offs[len(parts) - 1]) if parts[-1].ndim == 2 else parts[-1].at(i, 0)
            for k in range(len(parts) - 2, -1, -1):
                e = parts[k].at(i, j - offs[k]) if parts[k].ndim == 2 else parts[k].at(i, 0)
                t = z3.If(j < offs[k + 1], e, t)
            return t
        return SArr(2, n0, offs[-1], at, "num", True)
    raise Unsupported(f"np.column_stack form {parts!r}")


def np_mod(I, a, kw, node):
    x, m = a
    if not (isinstance(m, int) and m == 1):
        raise Unsupported("np.mod with a modulus other than 1")
    if not isinstance(x, SArr):
        raise Unsupported("np.mod of a non-array")
    f = x.at
    return SArr(x.ndim, x.n0, x.n1, lambda i, j: f(i, j) - z3.ToReal(z3.ToInt(f(i, j))), "num", True)


def np_less_equal(I, a, kw, node):
    x, y = a
    return SArr(x.ndim, x.n0, x.n1, lambda i, j: x.at(i, j) <= y.at(i, j), "bool", True)


def _np_cmp(op):
    def model(I, a, kw, node):
        x, y = a
        xv = (lambda i, j: x.at(i, j)) if isinstance(x, SArr) else (lambda i, j: rterm(x))
        yv = (lambda i, j: y.at(i, j)) if isinstance(y, SArr) else (lambda i, j: rterm(y))
        sh = x if isinstance(x, SArr) else y
        return SArr(sh.ndim, sh.n0, sh.n1, lambda i, j: _cmp(op, xv(i, j), yv(i, j)), "bool", True)
    return model


def np_copy(I, a, kw, node):
    x = a[0]
    return SArr(x.ndim, x.n0, x.n1, x.at, x.dtype, True)


def np_asarray(I, a, kw, node):
    if type(a[0]).__name__ == "SSeries" and getattr(I.reg, "series_numeric_asarray", False):
        from .pandas_m import series_as_array
        return series_as_array(a[0])
    return a[0]


def np_where(I, a, kw, node):
    c, x, y = a
    xv = (lambda i, j: x.at(i, j)) if isinstance(x, SArr) else (lambda i, j: rterm(x))
    yv = (lambda i, j: y.at(i, j)) if isinstance(y, SArr) else (lambda i, j: rterm(y))
    return SArr(c.ndim, c.n0, c.n1, lambda i, j: z3.If(c.at(i, j), xv(i, j), yv(i, j)), "num", True)


def match_affine(e, p, ctx):
    """e == i*p + k syntactically (up to commutativity) -> (i, k), else None."""
    def same(x, y):
        return x.eq(y) or (ctx is not None and ctx.entails(x == y))
    if z3.is_app(e) and e.decl().kind() == z3.Z3_OP_ADD:
        ch = e.children()
        for idx, c in enumerate(ch):
            if z3.is_app(c) and c.decl().kind() == z3.Z3_OP_MUL and len(c.children()) == 2:
                x, y = c.children()
                i = x if same(y, p) else (y if same(x, p) else None)
                if i is not None:
                    rest = [d for j, d in enumerate(ch) if j != idx]
                    k = rest[0] if len(rest) == 1 else z3.Sum(rest)
                    return i, k
    if z3.is_app(e) and e.decl().kind() == z3.Z3_OP_MUL and len(e.children()) == 2:
        x, y = e.children()
        i = x if same(y, p) else (y if same(x, p) else None)
        if i is not None:
            return i, z3.IntVal(0)
    return None


def khatri_rao(I, a, kw, node):
    """scipy.linalg.khatri_rao(A, B)[i*p + k, c] = A[i, c] * B[k, c]  (p = rows of B)."""
    A, B = a
    A.resolve_rank(I)
    B.resolve_rank(I)
    if A.ndim != 2 or B.ndim != 2:
        raise Unsupported("khatri_rao of non-matrices")
    I.ctx.oblige("shape", A.n1 == B.n1, I.line(node), note="khatri_rao operands have the same number of columns")
    p = B.n0
    K = z3.Function(str(I.ctx.fresh("kr.el", I_)), I_, I_, R)
    i, k, c = z3.Ints("kr_i kr_k kr_c")
    I.ctx.assume(z3.ForAll([i, k, c], z3.Implies(z3.And(0 <= i, i < A.n0, 0 <= k, k < p, 0 <= c, c < A.n1),
                                                 K(i * p + k, c) == A.at(i, c) * B.at(k, c))))
    ctx = I.ctx

    def at(r, cc):
        m = match_affine(r, p, ctx)
        if m is not None:
            return A.at(m[0], cc) * B.at(m[1], cc)
        return K(r, cc)
    return SArr(2, z3.simplify(A.n0 * p), A.n1, at, "num", True)


def np_any(I, a, kw, node):
    return a[0].method(I, "any", [], {}, node)


def np_all(I, a, kw, node):
    return a[0].method(I, "all", [], {}, node)


def np_linspace(I, a, kw, node):
    """np.linspace(lo, hi, num): num samples, an uninterpreted function of (lo, hi, num, position) that starts at lo and stays
    between lo and hi (the closed form lo + i*(hi-lo)/(num-1) is nonlinear in num and not needed by the proofs; validated by
    ext-valid). num >= 0 is an obligation (numpy raises otherwise)."""
    from .opaque import ufun
    lo, hi, num = rterm(a[0]), rterm(a[1]), int_term(a[2] if len(a) > 2 else kw["num"])
    if not I.ctx.spec_mode:
        I.ctx.oblige("shape", num >= 0, I.line(node), note="np.linspace: non-negative number of samples")
    lin = ufun("np.linspace", R, R, I_, I_, R)
    i = z3.Int("ls_i")
    n = z3.Int("ls_n")
    I.ctx.assume(z3.ForAll([n, i], z3.Implies(z3.And(0 <= i, i < n, lo <= hi), z3.And(lo <= lin(lo, hi, n, i), lin(lo, hi, n, i) <= hi)),
                           patterns=[lin(lo, hi, n, i)]))
    return SArr(1, z3.simplify(num), z3.IntVal(1), lambda i, j: lin(lo, hi, num, i), "num", True)


def _vec_lambda(x):
    i = z3.Int("red_i")
    return z3.Lambda([i], x.at(i, z3.IntVal(0)))


def np_percentile(I, a, kw, node):
    """np.percentile(x, q) for a vector q: one value per entry of q, a function of the data and of q[i]; for 0 <= q[i] <= 100
    and non-empty x it lies between min(x) and max(x) (assumed; validated by ext-valid)."""
    from .opaque import ufun
    x, q = a[0], a[1]
    if not isinstance(x, SArr) or not isinstance(q, SArr):
        raise Unsupported("np.percentile of non-arrays")
    import hashlib
    A = z3.ArraySort(I_, R)
    mn, mx = ufun("np.min", I_, A, R), ufun("np.max", I_, A, R)
    xl = _vec_lambda(x)
    # one function symbol per data vector (named by the vector's term), so that patterns need not mention the lambda
    key = hashlib.sha1((x.n0.sexpr() + "|" + xl.sexpr()).encode()).hexdigest()[:16]
    pct = ufun("np.percentile!" + key, R, R)
    v = z3.Real("pc_v")
    I.ctx.assume(z3.ForAll([v], z3.Implies(z3.And(0 <= v, v <= 100, x.n0 >= 1),
                                           z3.And(mn(x.n0, xl) <= pct(v), pct(v) <= mx(x.n0, xl))), patterns=[pct(v)]))
    return SArr(1, q.n0, z3.IntVal(1), lambda i, j: pct(q.at(i, 0)), "num", True)


def _as_vec(I, v):
    """python list / SList of numbers / vector -> (length term, entry closure)."""
    if isinstance(v, SArr):
        v.resolve_rank(I)
        if v.ndim != 1:
            raise Unsupported("np.concatenate of a non-vector")
        return v.n0, (lambda i: v.at(i, z3.IntVal(0)))
    if isinstance(v, (list, tuple)):
        terms = [rterm(e) for e in v]

        def at(i):
            r = terms[-1] if terms else z3.RealVal(0)
            for k in range(len(terms) - 2, -1, -1):
                r = z3.If(i == k, terms[k], r)
            return r
        return z3.IntVal(len(v)), at
    if isinstance(v, SList):
        from .values import TReal, TInt
        if isinstance(v.elem, TReal):
            return v.len, (lambda i: v.arr[i])
        if isinstance(v.elem, TInt):
            return v.len, (lambda i: z3.ToReal(v.arr[i]))
    raise Unsupported(f"np.concatenate operand {v!r}")


def np_concatenate(I, a, kw, node):
    parts = a[0]
    if not isinstance(parts, (list, tuple)) or len(parts) != 2:
        raise Unsupported("np.concatenate of other than two vectors")
    (n0, f0), (n1, f1) = _as_vec(I, parts[0]), _as_vec(I, parts[1])
    return SArr(1, z3.simplify(n0 + n1), z3.IntVal(1), lambda i, j: z3.If(i < n0, f0(i), f1(i - n0)), "num", True)


def external_objects():
    import numpy as np
    from scipy import linalg
    return {np.any: np_any, np.all: np_all, np.linspace: np_linspace, np.percentile: np_percentile, np.concatenate: np_concatenate,
            np.eye: np_eye, np.zeros: np_zeros, np.ones: np_ones, np.empty: np_empty, np.vstack: np_vstack,
            np.column_stack: np_column_stack, np.copy: np_copy, np.mod: np_mod, np.less_equal: np_less_equal, np.greater: _np_cmp('>'), np.less: _np_cmp('<'),
            np.greater_equal: _np_cmp('>='), np.equal: _np_cmp('=='), np.not_equal: _np_cmp('!='), np.asarray: np_asarray, np.where: np_where,
            linalg.khatri_rao: khatri_rao}


# ---------------------------------------------------------------------------------------------
class SArrSeq(Sym):
    """A python list of arrays of a common number of rows but individual widths (what gets column_stack'ed).
    W: z3 Array Int->Int of widths (a 1-D array counts as width 1); el(k, i, j): entries of the k-th array."""

    def __init__(self, length, W, rows, el):
        self.len, self.W, self.rows, self.el = length, W, rows, el

    def snapshot(self, memo):
        return SArrSeq(self.len, self.W, self.rows, self.el)

    def length(self, I):
        return SInt(self.len)

    def getattr(self, I, attr, node):
        from .interp import BoundMethod
        if attr == "rows":
            return SInt(self.rows)
        return BoundMethod(self, attr)

    def method(self, I, name, args, kwargs, node):
        if name == "append":
            v = args[0]
            if not isinstance(v, SArr):
                raise Unsupported("append of a non-array")
            w = v.n1 if v.ndim == 2 else (z3.IntVal(1) if v.ndim == 1 else z3.If(v.ndim == 2, v.n1, 1))
            old, n, va = self.el, self.len, v.at
            self.el = lambda k, i, j: z3.If(k == n, va(i, j), old(k, i, j))
            self.W = z3.Store(self.W, n, w)
            self.rows = z3.simplify(z3.If(n == 0, v.n0, self.rows))
            self.len = z3.simplify(n + 1)
            return None
        if name == "width":       # specification helper: width of the k-th element
            return SInt(z3.simplify(self.W[int_term(args[0])]))
        raise Unsupported(f"list-of-arrays.{name}")


class TArrSeq(Type):
    name = "arrseq"

    def fresh(self, ctx, hint):
        n = ctx.fresh(hint + ".len", I_)
        rows = ctx.fresh(hint + ".rows", I_)
        W = ctx.fresh(hint + ".W", z3.ArraySort(I_, I_))
        f = z3.Function(str(ctx.fresh(hint + ".el", I_)), I_, I_, I_, R)
        ctx.assume(z3.And(n >= 0, rows >= 0))
        return SArrSeq(n, W, rows, lambda k, i, j: f(k, i, j))

    def coerce(self, v, ctx):
        if isinstance(v, list) and not v:
            return SArrSeq(z3.IntVal(0), z3.K(I_, z3.IntVal(0)), ctx.fresh("emptyrows", I_), lambda k, i, j: z3.RealVal(0))
        return v

    def invariant(self, v):
        return z3.BoolVal(True)


def width_of(a):
    if a.ndim == 2:
        return a.n1
    if a.ndim == 1:
        return z3.IntVal(1)
    return z3.If(a.ndim == 2, a.n1, z3.IntVal(1))


def seq_from_elements(length, j, elem_arr, rows=None):
    """List of arrays given by the array `elem_arr` whose shape / entries are terms in the index variable j."""
    W = z3.Lambda([j], width_of(elem_arr))
    at = elem_arr.at

    def el(k, i, c):
        return z3.substitute(at(i, c), (j, k))
    return SArrSeq(length, W, rows if rows is not None else z3.substitute(elem_arr.n0, (j, z3.IntVal(0))), el)


def column_stack_seq(I, seq, node):
    """np.column_stack of a list of arrays: widths add up (prefix sums), block k occupies columns
    [psum(W, k), psum(W, k+1))."""
    psum = I.reg.specs.get("psum")
    if psum is None:
        raise Unsupported("column_stack of a symbolic list needs the 'psum' specification function")
    I.define_spec(psum)
    n1 = psum.z3fn(seq.W, seq.len)
    Rf = z3.Function(str(I.ctx.fresh("cs.el", I_)), I_, I_, R)
    k, i, c = z3.Ints("cs_k cs_i cs_c")
    I.ctx.assume(z3.ForAll([k, i, c], z3.Implies(z3.And(0 <= k, k < seq.len, 0 <= c, c < seq.W[k]),
                                                 Rf(i, psum.z3fn(seq.W, k) + c) == seq.el(k, i, c))))
    return SArr(2, seq.rows, n1, lambda a, b: Rf(a, b), "num", True)

"""Minimal pandas model: a Series is an opaque value with a length and row values (uninterpreted functions);
set(series), set(list), set difference / emptiness; pd.Categorical(x, categories=L).codes."""
import z3

from .values import Sym, SInt, SStr, SBool, SOpaque, SList, TOpaque, Unsupported
from .arrays import SArr
from .opaque import ufun, U
from .ops import bool_val

I_ = z3.IntSort()


def series_len(t):
    return ufun("series.len", U(), I_)(t)


def series_val(t, r):
    return ufun("series.val", U(), I_, U())(t, r)


class SSeries(SOpaque):
    """A pandas Series: comparisons are elementwise over its rows."""

    def cmpop(self, I, op, other, refl):
        if I.ctx.spec_mode or op not in ("==", "!="):
            return NotImplemented
        if isinstance(other, SOpaque):
            o = other.t
        else:
            return NotImplemented
        t = self.t
        f = (lambda i, j: series_val(t, i) == o) if op == "==" else (lambda i, j: series_val(t, i) != o)
        return SArr(1, series_len(t), z3.IntVal(1), f, "bool", True)

    def getattr(self, I, attr, node):
        if attr == "values":
            return self
        from .opaque import o_getattr
        from .interp import BoundMethod
        return BoundMethod(self, attr)


class TSeries(TOpaque):
    def __init__(self):
        super().__init__("series")

    def wrap(self, t):
        return SSeries(t, "series")

    def fresh(self, ctx, hint):
        v = self.wrap(ctx.fresh(hint, self.sort()))
        ctx.assume(series_len(v.t) >= 0)
        return v


def sorted_unique(I, v, node):
    """sorted(x.unique().tolist()): the distinct row values in increasing order (order = uninterpreted 'le')."""
    t = v.t if isinstance(v, SOpaque) else None
    base = None
    if t is not None and z3.is_app(t) and t.decl().name() == "U!m.tolist":
        u = t.arg(0)
        if z3.is_app(u) and u.decl().name() == "U!m.unique":
            base = u.arg(0)
    if base is None:
        raise Unsupported("sorted() of an opaque value of unknown origin")
    n = ufun("series.nunique", U(), I_)(base)
    sv = ufun("series.sorted", U(), I_, U())
    le = ufun("U!le", U(), U(), z3.BoolSort())
    r, k = z3.Ints("su_r su_k")
    ln = series_len(base)
    I.ctx.assume(z3.And(n >= 0, z3.Implies(ln >= 1, n >= 1)))
    I.ctx.assume(z3.ForAll([k], z3.Implies(z3.And(0 <= k, k < n), z3.Exists([r], z3.And(0 <= r, r < ln, series_val(base, r) == sv(base, k))))))
    I.ctx.assume(z3.ForAll([r], z3.Implies(z3.And(0 <= r, r < ln), le(sv(base, 0), series_val(base, r)))))
    return SList(n, z3.Lambda([k], sv(base, k)), TOpaque("any"))


class SSet(Sym):
    """Set given by a membership predicate over opaque values."""

    def __init__(self, member):
        self.member = member       # z3 term of sort U -> z3 Bool

    def binop(self, I, op, other, refl):
        if isinstance(other, SSet) and op == "-":
            a, b = (other, self) if refl else (self, other)
            return SSet(lambda v: z3.And(a.member(v), z3.Not(b.member(v))))
        return NotImplemented

    def nonempty(self, ctx):
        v = ctx.fresh("setel", U())
        return z3.Exists([v], self.member(v))

    def iterate(self, I):
        # some enumeration of the members: a list of unknown length whose items are members
        n = I.ctx.fresh("setlen", I_)
        arr = I.ctx.fresh("setitems", z3.ArraySort(I_, U()))
        I.ctx.assume(n >= 0)
        return SList(n, arr, TOpaque("any"))


def m_set(I, args, kwargs, node):
    if not args:
        return set()
    x = args[0]
    if isinstance(x, (list, tuple, set)) and not any(isinstance(e, Sym) for e in x):
        return set(x)
    if isinstance(x, SOpaque) and x.tag == "columns":
        return SOpaque(ufun("U!set", U(), U())(x.t), "any")      # the set of column names, as an opaque value
    if isinstance(x, SOpaque):          # a Series / array of row values
        t = x.t
        n = series_len(t)

        def member(v):
            r = z3.Int("set_r")
            return z3.Exists([r], z3.And(0 <= r, r < n, series_val(t, r) == v))
        return SSet(member)
    if isinstance(x, SList) and isinstance(x.elem, TOpaque):
        def member(v):
            k = z3.Int("set_k")
            return z3.Exists([k], z3.And(0 <= k, k < x.len, x.arr[k] == v))
        return SSet(member)
    raise Unsupported(f"set() of {x!r}")


def categorical_codes(I, x, levels):
    """codes[r] = index of x[r] in levels (first occurrence), -1 if absent."""
    t = x.t
    n = series_len(t)
    I.ctx.assume(n >= 0)
    code = ufun("cat.code", U(), z3.ArraySort(I_, U()), I_, I_, I_)
    r, k = z3.Ints("cc_r cc_k")
    c = code(t, levels.arr, levels.len, r)
    present = z3.Exists([k], z3.And(0 <= k, k < levels.len, levels.arr[k] == series_val(t, r)))
    I.ctx.assume(z3.ForAll([r], z3.Implies(z3.And(0 <= r, r < n),
                                           z3.And(c >= -1, c < levels.len,
                                                  (c == -1) == z3.Not(present),
                                                  z3.Implies(c >= 0, levels.arr[c] == series_val(t, r)))),
                           patterns=[c]))
    return SArr(1, n, z3.IntVal(1), lambda i, j: z3.ToReal(code(t, levels.arr, levels.len, i)), "num", False)


class CategoricalObj(Sym):
    def __init__(self, codes):
        self.codes = codes

    def getattr(self, I, attr, node):
        if attr == "codes":
            return self.codes
        raise Unsupported(f"Categorical.{attr}")


def m_Categorical(I, args, kwargs, node):
    x = args[0]
    cats = kwargs.get("categories")
    if not isinstance(x, SOpaque) or not isinstance(cats, SList):
        raise Unsupported("pd.Categorical form")
    return CategoricalObj(categorical_codes(I, x, cats))


def m_warn(I, args, kwargs, node):
    I.ghost["warned"] = True
    return None


def external_objects():
    import warnings
    import pandas as pd
    return {pd.Categorical: m_Categorical, warnings.warn: m_warn}

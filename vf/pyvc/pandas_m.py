"""Minimal pandas model: a Series is an opaque value with a length and row values (uninterpreted functions);
set(series), set(list), set difference / emptiness; pd.Categorical(x, categories=L).codes."""
import z3

from .values import Sym, SInt, SStr, SBool, SOpaque, SList, TOpaque, Unsupported
from .arrays import SArr
from .opaque import ufun, U
from .ops import bool_val

I_ = z3.IntSort()


def series_len(t):
    return ufun("series.len", U(), I_)(t)


def series_val(t, r):
    return ufun("series.val", U(), I_, U())(t, r)


def series_num(t, r):
    """the numeric value of row r of a (numeric) Series"""
    return ufun("series.num", U(), I_, z3.RealSort())(t, r)


def series_as_array(x):
    """np.asarray(series) / series.values for numeric data: a vector of the row values (a view: not fresh)"""
    t = x.t
    return SArr(1, series_len(t), z3.IntVal(1), lambda i, j: series_num(t, i), "num", False)


class SSeries(SOpaque):
    """A pandas Series: comparisons are elementwise over its rows."""

    def isinstance(self, I, c):
        import numpy as np
        import pandas as pd
        if c is pd.Series or c is object:
            return True
        if c is np.ndarray:
            return False
        from .opaque import o_isinstance
        return o_isinstance(self, I, c)

    def cmpop(self, I, op, other, refl):
        if I.ctx.spec_mode or op not in ("==", "!="):
            return NotImplemented
        if isinstance(other, SOpaque):
            o = other.t
        else:
            return NotImplemented
        t = self.t
        f = (lambda i, j: series_val(t, i) == o) if op == "==" else (lambda i, j: series_val(t, i) != o)
        return SArr(1, series_len(t), z3.IntVal(1), f, "bool", True)

    def getattr(self, I, attr, node):
        if attr == "values":
            return self if getattr(I.reg, "series_values_opaque", True) and not getattr(self, "numeric_view", False) else series_as_array(self)
        from .opaque import o_getattr
        from .interp import BoundMethod
        return BoundMethod(self, attr)


class TSeries(TOpaque):
    def __init__(self):
        super().__init__("series")

    def wrap(self, t):
        return SSeries(t, "series")

    def fresh(self, ctx, hint):
        v = self.wrap(ctx.fresh(hint, self.sort()))
        ctx.assume(series_len(v.t) >= 0)
        return v


def sorted_unique(I, v, node):
    """sorted(x.unique().tolist()): the distinct row values in increasing order (order = uninterpreted 'le')."""
    t = v.t if isinstance(v, SOpaque) else None
    base = None
    if t is not None and z3.is_app(t) and t.decl().name() == "U!m.tolist":
        u = t.arg(0)
        if z3.is_app(u) and u.decl().name() == "U!m.unique":
            base = u.arg(0)
    if base is None:
        raise Unsupported("sorted() of an opaque value of unknown origin")
    return unique_sorted_axioms(I, base)


class SSet(Sym):
    """Set given by a membership predicate over opaque values."""

    def __init__(self, member):
        self.member = member       # z3 term of sort U -> z3 Bool

    def binop(self, I, op, other, refl):
        if isinstance(other, SSet) and op == "-":
            a, b = (other, self) if refl else (self, other)
            return SSet(lambda v: z3.And(a.member(v), z3.Not(b.member(v))))
        return NotImplemented

    def cmpop(self, I, op, other, refl):
        """set == set: the same members"""
        if isinstance(other, SSet) and op in ("==", "!="):
            v = I.ctx.fresh("seteq", U())
            same = z3.ForAll([v], self.member(v) == other.member(v))
            return same if op == "==" else z3.Not(same)
        return NotImplemented

    def nonempty(self, ctx):
        v = ctx.fresh("setel", U())
        return z3.Exists([v], self.member(v))

    def iterate(self, I):
        # some enumeration of the members: a list of unknown length whose items are members
        n = I.ctx.fresh("setlen", I_)
        arr = I.ctx.fresh("setitems", z3.ArraySort(I_, U()))
        I.ctx.assume(n >= 0)
        return SList(n, arr, TOpaque("any"))


def m_set(I, args, kwargs, node):
    if not args:
        return set()
    x = args[0]
    if isinstance(x, (list, tuple, set)) and not any(isinstance(e, Sym) for e in x):
        return set(x)
    if isinstance(x, SOpaque) and x.tag == "columns":
        return SOpaque(ufun("U!set", U(), U())(x.t), "any")      # the set of column names, as an opaque value
    if isinstance(x, SOpaque):          # a Series / array of row values
        t = x.t
        n = series_len(t)

        def member(v):
            r = z3.Int("set_r")
            return z3.Exists([r], z3.And(0 <= r, r < n, series_val(t, r) == v))
        return SSet(member)
    if isinstance(x, SList) and isinstance(x.elem, TOpaque):
        def member(v):
            k = z3.Int("set_k")
            return z3.Exists([k], z3.And(0 <= k, k < x.len, x.arr[k] == v))
        return SSet(member)
    raise Unsupported(f"set() of {x!r}")


def categorical_codes(I, x, levels):
    """codes[r] = index of x[r] in levels (first occurrence), -1 if absent."""
    t = x.t
    n = series_len(t)
    I.ctx.assume(n >= 0)
    code = ufun("cat.code", U(), z3.ArraySort(I_, U()), I_, I_, I_)
    r, k = z3.Ints("cc_r cc_k")
    c = code(t, levels.arr, levels.len, r)
    present = z3.Exists([k], z3.And(0 <= k, k < levels.len, levels.arr[k] == series_val(t, r)))
    body = z3.Implies(z3.And(0 <= r, r < n),
                      z3.And(c >= -1, c < levels.len, (c == -1) == z3.Not(present),
                             z3.Implies(c >= 0, levels.arr[c] == series_val(t, r))))
    try:
        ax = z3.ForAll([r], body, patterns=[c])
    except z3.Z3Exception:          # the category list is a lambda term: let z3 choose the trigger
        ax = z3.ForAll([r], body)
    I.ctx.assume(ax)
    if getattr(levels, "distinct", False):
        # duplicate-free categories: the code of a row is THE index of its value
        I.ctx.assume(z3.ForAll([r, k], z3.Implies(z3.And(0 <= r, r < n, 0 <= k, k < levels.len, levels.arr[k] == series_val(t, r)),
                                                  code(t, levels.arr, levels.len, r) == k)))
    return SArr(1, n, z3.IntVal(1), lambda i, j: z3.ToReal(code(t, levels.arr, levels.len, i)), "num", False)


class CategoricalObj(Sym):
    def __init__(self, codes):
        self.codes = codes

    def getattr(self, I, attr, node):
        if attr == "codes":
            return self.codes
        raise Unsupported(f"Categorical.{attr}")


def m_Categorical(I, args, kwargs, node):
    x = args[0]
    cats = kwargs.get("categories")
    if not isinstance(x, SOpaque) or not isinstance(cats, SList):
        raise Unsupported("pd.Categorical form")
    return CategoricalObj(categorical_codes(I, x, cats))


def m_warn(I, args, kwargs, node):
    I.ghost["warned"] = True
    return None


def external_objects():
    import warnings
    import pandas as pd
    # (one model for both forms of pd.Categorical - with and without categories= - so that the order in which contract modules
    # register their externals does not decide which form is understood)
    return {pd.Categorical: lambda I, args, kwargs, node: m_Categorical2(I, args, kwargs, node), warnings.warn: m_warn}


# ---------------------------------------------------------------------------------------------
# training-time categorical machinery: np.unique / sorted, CategoricalDtype, pd.Categorical(...).astype(dtype)
def unique_sorted_axioms(I, base):
    """sorted(np.unique(x).tolist()): the distinct row values of x in increasing order."""
    n = ufun("series.nunique", U(), I_)(base)
    sv = ufun("series.sorted", U(), I_, U())
    le = ufun("U!le", U(), U(), z3.BoolSort())
    r, k, a, b = z3.Ints("su_r su_k su_a su_b")
    ln = series_len(base)
    I.ctx.assume(z3.And(n >= 0, z3.Implies(ln >= 1, n >= 1)))
    I.ctx.assume(z3.ForAll([k], z3.Implies(z3.And(0 <= k, k < n), z3.Exists([r], z3.And(0 <= r, r < ln, series_val(base, r) == sv(base, k))))))
    I.ctx.assume(z3.ForAll([r], z3.Implies(z3.And(0 <= r, r < ln), z3.Exists([k], z3.And(0 <= k, k < n, sv(base, k) == series_val(base, r))))))
    I.ctx.assume(z3.ForAll([a, b], z3.Implies(z3.And(0 <= a, a < b, b < n), z3.And(sv(base, a) != sv(base, b), le(sv(base, a), sv(base, b))))))
    I.ctx.assume(z3.ForAll([r], z3.Implies(z3.And(0 <= r, r < ln), le(sv(base, 0), series_val(base, r)))))
    res = SList(n, z3.Lambda([k], sv(base, k)), TOpaque("any"))
    res.distinct = True
    return res


def m_np_unique(I, args, kwargs, node):
    x = args[0]
    return SOpaque(ufun("U!m.unique", U(), U())(x.t), "any")


class SDtype(Sym):
    def __init__(self, categories):
        self.categories = categories


def m_CategoricalDtype(I, args, kwargs, node):
    return SDtype(kwargs.get("categories"))


class CategoricalFull(Sym):
    """pd.Categorical over the rows of `base` with an explicit list of categories."""

    def __init__(self, base, categories):
        self.base = base                # SOpaque series
        self.categories = categories    # SList of opaque values

    def getattr(self, I, attr, node):
        if attr == "codes":
            return categorical_codes(I, self.base, self.categories)
        if attr == "categories":
            return _Tolist(self.categories)
        from .interp import BoundMethod
        return BoundMethod(self, attr)

    def method(self, I, name, args, kwargs, node):
        if name == "astype" and isinstance(args[0], SDtype):
            return CategoricalFull(self.base, args[0].categories)
        raise Unsupported(f"Categorical.{name}")

    def cmpop(self, I, op, other, refl):
        if I.ctx.spec_mode or op not in ("==", "!="):
            return NotImplemented
        o = other.t if isinstance(other, SOpaque) else None
        if o is None:
            return NotImplemented
        t = self.base.t
        f = (lambda i, j: series_val(t, i) == o) if op == "==" else (lambda i, j: series_val(t, i) != o)
        return SArr(1, series_len(t), z3.IntVal(1), f, "bool", True)


class _Tolist(Sym):
    def __init__(self, lst):
        self.lst = lst

    def getattr(self, I, attr, node):
        from .interp import BoundMethod
        return BoundMethod(self, attr)

    def method(self, I, name, args, kwargs, node):
        if name == "tolist":
            return self.lst.copy()
        raise Unsupported(f"Index.{name}")


def declared_categories(I, x):
    """categories of data that already is categorical: some duplicate-free list determined by x; every row value
    is one of them (no missing values)."""
    n = ufun("cat.ncat", U(), I_)(x.t)
    cv = ufun("cat.cat", U(), I_, U())
    k, a, b, r = z3.Ints("dc_k dc_a dc_b dc_r")
    I.ctx.assume(n >= 0)
    I.ctx.assume(z3.ForAll([a, b], z3.Implies(z3.And(0 <= a, a < b, b < n), cv(x.t, a) != cv(x.t, b))))
    I.ctx.assume(z3.ForAll([r], z3.Implies(z3.And(0 <= r, r < series_len(x.t)),
                                           z3.Exists([k], z3.And(0 <= k, k < n, cv(x.t, k) == series_val(x.t, r))))))
    res = SList(n, z3.Lambda([k], cv(x.t, k)), TOpaque("any"))
    res.distinct = True
    return res


_old_m_Categorical = m_Categorical


def m_Categorical2(I, args, kwargs, node):
    x = args[0]
    if "categories" in kwargs:
        return _old_m_Categorical(I, args, kwargs, node)
    if not isinstance(x, SOpaque):
        raise Unsupported("pd.Categorical form")
    return CategoricalFull(x, declared_categories(I, x))


def external_objects_training():
    import numpy as np
    import pandas as pd
    return {np.unique: m_np_unique, pd.api.types.CategoricalDtype: m_CategoricalDtype, pd.Categorical: m_Categorical2}

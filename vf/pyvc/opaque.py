"""Behaviour of opaque values (user callables, pandas objects, frames, modules): every observation is an
uninterpreted function of the value, so equal inputs give equal observations and nothing else is known.
Calling an opaque callable returns a fresh opaque value and is assumed not to touch modelled state."""
import z3

from .values import SOpaque, SStr, SInt, SBool, TOpaque, Unsupported, intern
from .ops import str_term, bool_val

_F = {}


def ufun(name, *sorts):
    if name not in _F:
        _F[name] = z3.Function(name, *sorts)
    return _F[name]


def U():
    return TOpaque().sort()


def heap_array(I, attr, sort):
    """Mutable attributes of opaque objects: one z3 array per attribute name (object -> value), updated by Store.
    Only attributes that some verified function assigns are kept here (declared in reg.opaque_attr_types)."""
    heap = I.__dict__.setdefault("opaque_heap", {})
    if attr not in heap:
        heap[attr] = z3.Const(f"heap0!{attr}", z3.ArraySort(U(), sort))
    return heap[attr]


def o_getattr(self, I, attr, node):
    types = getattr(I.reg, "opaque_attr_types", {})
    if isinstance(attr, str) and attr in types:
        ty = I.reg.type(types[attr])
        return ty.wrap(z3.simplify(heap_array(I, attr, ty.sort())[self.t]))
    if isinstance(attr, str):
        k = z3.IntVal(intern(attr))
    else:
        k = str_term(attr)
    return SOpaque(ufun("U!attr", U(), z3.IntSort(), U())(self.t, k), "any")


def o_setattr(self, I, attr, v, node):
    types = getattr(I.reg, "opaque_attr_types", {})
    if attr not in types:
        raise Unsupported(f"{I.frame.qualname}:{I.line(node)} store to attribute '{attr}' of an opaque object (declare it in opaque_attr_types)")
    ty = I.reg.type(types[attr])
    arr = heap_array(I, attr, ty.sort())
    I.opaque_heap[attr] = z3.Store(arr, self.t, ty.unwrap(v, I.ctx))
    return None


def o_hasattr(self, I, name):
    return bool_val(ufun("U!hasattr", U(), z3.IntSort(), z3.BoolSort())(self.t, z3.IntVal(intern(name))))


def o_call(self, I, args, kwargs, node):
    return SOpaque(I.ctx.fresh("callres", U()), "any")


def o_method(self, I, name, args, kwargs, node):
    if not args and not kwargs:      # argument-less accessor methods are functions of the receiver
        return SOpaque(ufun(f"U!m.{name}", U(), U())(self.t), "any")
    if not kwargs and args and all(isinstance(a, SOpaque) for a in args):    # pure methods of opaque arguments
        return SOpaque(ufun(f"U!m.{name}/{len(args)}", *([U()] * (len(args) + 1)), U())(self.t, *[a.t for a in args]), "any")
    return SOpaque(I.ctx.fresh(f"m_{name}", U()), "any")


def o_iterate(self, I):
    raise Unsupported("iteration over an opaque value")


def o_isinstance(self, I, c):
    """Class membership of an opaque object: an uninterpreted predicate per class."""
    name = getattr(c, "__name__", str(c))
    return ufun(f"isinst!{name}", U(), z3.BoolSort())(self.t)


def o_binop(self, I, op, other, refl):
    """a (op) b on opaque objects: the value-level result of the operands' operator overload - an uninterpreted function of the
    operator and the two operands (in-place effects of such overloads on their operands are not modelled)."""
    if not isinstance(other, SOpaque):
        return NotImplemented
    a, b = (other, self) if refl else (self, other)
    return SOpaque(ufun(f"U!binop.{op}", U(), U(), U())(a.t, b.t), "any")


SOpaque.binop = o_binop
SOpaque.isinstance = o_isinstance
SOpaque.getattr = o_getattr
SOpaque.setattr = o_setattr
SOpaque.hasattr = o_hasattr
SOpaque.call = o_call
SOpaque.method = o_method

"""References to objects that a function only reads: fields and pure methods are uninterpreted functions of
the reference (and the arguments). Used for term objects inside matrices.py / GroupSpecificTerm."""
import z3

from .values import Sym, SInt, SStr, SBool, SOpaque, Type, TOpaque, Unsupported, intern
from .arrays import SArr
from .opaque import ufun, U
from .ops import str_term

I_ = z3.IntSort()
R_ = z3.RealSort()


def arr_from(prefix, args, rank):
    """Array whose rank / shape / entries are uninterpreted functions of `args` (z3 terms)."""
    sorts = [a.sort() for a in args]
    n0 = ufun(prefix + ".n0", *sorts, I_)(*args)
    n1 = ufun(prefix + ".n1", *sorts, I_)(*args)
    el = ufun(prefix + ".el", *sorts, I_, I_, R_)
    if rank == "?":
        nd = ufun(prefix + ".ndim", *sorts, I_)(*args)
    else:
        nd = int(rank)
    return SArr(nd, n0, n1, (lambda i, j: el(*args, i, j)), "num", False), n0, n1, nd


class RefModel:
    def __init__(self, name, fields, methods=None):
        self.name = name
        self.fields = fields            # {field: type-string}; 'arr' / 'arr1' / 'arr2' / 'ref:<model>' handled here
        self.methods = methods or {}    # {method: (result type-string, [assumption builders])}
        self.sort = z3.DeclareSort("Ref_" + name)


class SRef(Sym):
    def __init__(self, t, model, reg):
        self.t = t
        self.model = model
        self.reg = reg

    def getattr(self, I, attr, node):
        m = self.model
        if attr in m.fields:
            ts = m.fields[attr]
            return self.field_value(I, f"{m.name}.{attr}", [self.t], ts)
        if attr in m.methods:
            from .interp import BoundMethod
            return BoundMethod(self, attr)
        raise Unsupported(f"{I.frame.qualname}:{I.line(node)} reference {m.name} has no modelled field '{attr}'")

    def field_value(self, I, prefix, args, ts):
        if ts in ("arr", "arr1", "arr2"):
            rank = {"arr": "?", "arr1": "1", "arr2": "2"}[ts]
            a, n0, n1, nd = arr_from(prefix, args, rank)
            if not I.ctx.spec_mode:
                I.ctx.assume(z3.And(n0 >= 0, n1 >= 0))
                if rank == "?":
                    I.ctx.assume(z3.Or(nd == 1, nd == 2))
            return a
        if ts.startswith("ref:"):
            rm = self.reg.refs[ts[4:]]
            f = ufun(prefix, *[a.sort() for a in args], rm.sort)
            return SRef(f(*args), rm, self.reg)
        ty = self.reg.type(ts)
        f = ufun(prefix, *[a.sort() for a in args], ty.sort())
        v = ty.wrap(f(*args))
        if not I.ctx.spec_mode:
            I.ctx.assume(ty.invariant(v))
        return v

    def method(self, I, name, args, kwargs, node):
        m = self.model
        if name not in m.methods:
            raise Unsupported(f"reference {m.name} has no modelled method '{name}'")
        ts = m.methods[name]
        zargs = [self.t]
        for a in args:
            if isinstance(a, SOpaque):
                zargs.append(a.t)
            elif isinstance(a, SRef):
                zargs.append(a.t)
            else:
                raise Unsupported(f"argument {a!r} of a pure method on a reference")
        return self.field_value(I, f"{m.name}.{name}()", zargs, ts)

    def isinstance(self, I, c):
        return False

    def __repr__(self):
        return f"SRef<{self.model.name}>({self.t})"


class TRef(Type):
    def __init__(self, model, reg):
        self.model = model
        self.reg = reg
        self.name = "ref:" + model.name

    def sort(self):
        return self.model.sort

    def wrap(self, t):
        return SRef(t, self.model, self.reg)

    def unwrap(self, v, ctx=None):
        if isinstance(v, SRef) and v.model is self.model:
            return v.t
        raise Unsupported(f"cannot use {v!r} as {self.name}")


class SSliceDict(Sym):
    """dict: str -> slice(start, stop); mutable object."""

    def __init__(self, dom, start, stop, fresh=False):
        self.dom, self.start, self.stop = dom, start, stop
        self.fresh = fresh

    def snapshot(self, memo):
        return SSliceDict(self.dom, self.start, self.stop)

    def contains(self, I, item):
        return z3.simplify(self.dom[str_term(item)])

    def getitem(self, I, idx, node):
        from .values import SSlice
        from .interp import PyRaise
        from .values import SExc
        k = str_term(idx)
        if not I.ctx.spec_mode:
            if I.frame.try_depth > 0:
                if not I.ctx.branch(self.dom[k]):
                    raise PyRaise(SExc(KeyError), I.line(node))
            else:
                I.ctx.oblige("key", self.dom[k], I.line(node), note="dict key present")
        return SSlice(SInt(z3.simplify(self.start[k])), SInt(z3.simplify(self.stop[k])))

    def setitem(self, I, idx, v, node):
        from .values import SSlice
        from .ops import int_term
        k = str_term(idx)
        if not isinstance(v, SSlice):
            raise Unsupported("non-slice value stored in a slice dict")
        self.dom = z3.Store(self.dom, k, True)
        self.start = z3.Store(self.start, k, int_term(v.start))
        self.stop = z3.Store(self.stop, k, int_term(v.stop))


class TSliceDict(Type):
    name = "slicedict"

    def fresh(self, ctx, hint):
        A = z3.ArraySort(I_, I_)
        return SSliceDict(ctx.fresh(hint + ".dom", z3.ArraySort(I_, z3.BoolSort())), ctx.fresh(hint + ".start", A),
                          ctx.fresh(hint + ".stop", A))

    def coerce(self, v, ctx):
        if isinstance(v, dict) and not v:
            return SSliceDict(z3.K(I_, z3.BoolVal(False)), z3.K(I_, z3.IntVal(0)), z3.K(I_, z3.IntVal(0)), True)
        return v


class STermDict(Sym):
    """An insertion-ordered dict {term.name: term}: modelled by the ordered list of its values."""

    def __init__(self, lst):
        self.lst = lst      # SList of references

    def snapshot(self, memo):
        return STermDict(self.lst.copy())

    def method(self, I, name, args, kwargs, node):
        if name == "values":
            return self.lst
        raise Unsupported(f"term dict .{name}()")

    def getattr(self, I, attr, node):
        from .interp import BoundMethod
        return BoundMethod(self, attr)

    def length(self, I):
        return SInt(self.lst.len)


class TTermDict(Type):
    name = "termdict"

    def __init__(self, reg):
        self.reg = reg

    def fresh(self, ctx, hint):
        from .values import TList
        return STermDict(TList(self.reg.type("ref:Term")).fresh(ctx, hint))

    def invariant(self, v):
        return v.lst.len >= 0

"""Strings scanned character by character: a list of code points; single characters are SChar (code point,
-1 for the empty string that Scanner.peek returns at the end of input)."""
import z3

from .values import Sym, SInt, SBool, SStr, SList, SOpaque, Type, TOpaque, Unsupported, intern
from .opaque import ufun, U
from .ops import bool_val, int_term

I_ = z3.IntSort()
_PRED = {}


def cpred(name):
    if name not in _PRED:
        _PRED[name] = z3.Function("chr." + name, I_, z3.BoolSort())
    return _PRED[name]


def class_axioms():
    """Facts about str.isdigit / isalpha / isalnum that the scanner relies on (validated against CPython by ext-valid)."""
    c = z3.Int("chr_c")
    dig, alp, aln = cpred("isdigit"), cpred("isalpha"), cpred("isalnum")
    # NB: isalnum is NOT isalpha-or-isdigit in CPython (e.g. U+00BD is alnum only); only the implication holds
    ax = [z3.ForAll([c], z3.Implies(z3.Or(dig(c), alp(c)), aln(c))),
          z3.ForAll([c], z3.Implies(dig(c), z3.Not(alp(c))), patterns=[dig(c)]),
          z3.Not(dig(z3.IntVal(-1))), z3.Not(alp(z3.IntVal(-1))), z3.Not(aln(z3.IntVal(-1)))]      # "" is none of them
    for ch in "0123456789":
        ax.append(dig(z3.IntVal(ord(ch))))
    for ch in " \n\t\r'\"()[]{}`,.+-/*!=<>%~:|_":
        ax.append(z3.Not(dig(z3.IntVal(ord(ch)))))
        ax.append(z3.Not(alp(z3.IntVal(ord(ch)))))
        ax.append(z3.Not(aln(z3.IntVal(ord(ch)))))
    return ax


def validate_class_axioms(limit=0x3000):
    """The same facts checked against CPython's str methods (used by ext-valid)."""
    bad = []
    for c in range(limit):
        ch = chr(c)
        if (ch.isdigit() or ch.isalpha()) and not ch.isalnum():
            bad.append(("alnum-implication", c))
        if ch.isdigit() and ch.isalpha():
            bad.append(("digit-alpha-disjoint", c))
    for ch in "0123456789":
        if not ch.isdigit():
            bad.append(("ascii-digit", ord(ch)))
    for ch in " \n\t\r'\"()[]{}`,.+-/*!=<>%~:|_":
        if ch.isdigit() or ch.isalpha() or ch.isalnum():
            bad.append(("punct", ord(ch)))
    if "".isdigit() or "".isalpha() or "".isalnum():
        bad.append(("empty", -1))
    return bad


class SChar(Sym):
    def __init__(self, t):
        self.t = t

    def code_of(self, other):
        if isinstance(other, SChar):
            return other.t
        if isinstance(other, str) and len(other) <= 1:
            return z3.IntVal(ord(other) if other else -1)
        return None

    def cmpop(self, I, op, other, refl):
        if op not in ("==", "!="):
            return NotImplemented
        o = self.code_of(other)
        if o is None:
            return False if op == "==" else True
        return (self.t == o) if op == "==" else (self.t != o)

    def getattr(self, I, attr, node):
        from .interp import BoundMethod
        return BoundMethod(self, attr)

    def method(self, I, name, args, kwargs, node):
        if name in ("isdigit", "isalpha", "isalnum"):
            t = z3.simplify(self.t)
            if z3.is_int_value(t):        # a concrete character: CPython's own answer
                c = t.as_long()
                return getattr("" if c < 0 else chr(c), name)()
            return bool_val(cpred(name)(self.t))
        raise Unsupported(f"str.{name} on a scanned character")

    def __repr__(self):
        return f"SChar({self.t})"


class TChar(Type):
    name = "char"

    def sort(self):
        return I_

    def wrap(self, t):
        return SChar(t)

    def unwrap(self, v, ctx=None):
        if isinstance(v, SChar):
            return v.t
        if isinstance(v, str) and len(v) <= 1:
            return z3.IntVal(ord(v) if v else -1)
        raise Unsupported(f"cannot use {v!r} as a character")

    def invariant(self, v):
        return v.t >= -1


def text_id(chars):
    """The string spelled by a list of characters, as an atom id (uninterpreted function of contents and length)."""
    n = z3.simplify(chars.len)
    if z3.is_int_value(n) and n.as_long() <= 4096:          # fully concrete text: the atom of the actual string
        cs = [z3.simplify(chars.arr[k]) for k in range(n.as_long())]
        if all(z3.is_int_value(c) for c in cs):
            return z3.IntVal(intern("".join(chr(c.as_long()) for c in cs)))
    i = z3.Int("txt_i")
    arr = z3.simplify(z3.Lambda([i], chars.arr[i]))
    return ufun("str.of_chars", z3.ArraySort(I_, I_), I_, I_)(arr, chars.len)


def eq_hook(a, b, ctx):
    """== between scanned text / characters and python strings."""
    if isinstance(a, SChar) or isinstance(b, SChar):
        c, o = (a, b) if isinstance(a, SChar) else (b, a)
        oc = c.code_of(o)
        return False if oc is None else c.t == oc
    if isinstance(a, SList) and isinstance(a.elem, TChar) and isinstance(b, (str, SStr)):
        return text_id(a) == (z3.IntVal(intern(b)) if isinstance(b, str) else b.t)
    if isinstance(b, SList) and isinstance(b.elem, TChar) and isinstance(a, (str, SStr)):
        return eq_hook(b, a, ctx)
    return None

"""Finite sets of datatype values (Python set / frozenset) as z3 sets (Array elem -> Bool) with an uninterpreted cardinality.

What is assumed of cardinality is added as *ground* facts at the operation that needs it (no quantified set theory in the VCs):
    len(s)            card(s) >= 0, card(s) == 0 iff s is empty
    a.difference(b)   0 <= card(a - b) <= card(a);  b subset of a  =>  card(a - b) == card(a) - card(b)
    s.add(x)          card(s + {x}) == card(s) + (0 if x in s else 1)
    list(s)           a list of card(s) members of s; card(s) == 1  =>  s == {list(s)[0]} == {the(s)}
`the(s)` is the specification-level choice function (`next(iter(s))` when executed).
A set object is mutable (`add` updates it in place); `set(x)` / `frozenset(x)` of a set make a new object with the same members.
"""
import z3

from .values import Sym, SInt, SList, Type, Unsupported
from .ops import bool_val
from .opaque import ufun


def _card(t):
    return ufun(f"set.card!{t.sort()}", t.sort(), z3.IntSort())(t)


def _the(t):
    return ufun(f"set.the!{t.sort()}", t.sort(), t.sort().domain())(t)


class SFSet(Sym):
    def __init__(self, t, elem):
        self.t = t          # z3 term of sort Array(elem, Bool)
        self.elem = elem    # Type of the members

    def copy(self):
        return SFSet(self.t, self.elem)

    def _other(self, v):
        if isinstance(v, SFSet) and v.elem.sort() == self.elem.sort():
            return v.t
        raise Unsupported(f"set operation with {v!r}")

    def length(self, I):
        n = _card(self.t)
        I.ctx.assume(z3.And(n >= 0, (n == 0) == (self.t == z3.EmptySet(self.elem.sort()))))
        return SInt(n)

    def contains(self, I, item):
        return z3.IsMember(self.elem.unwrap(item, I.ctx), self.t)

    def cmpop(self, I, op, other, refl):
        if isinstance(other, SFSet) and op in ("==", "!="):
            same = self.t == self._other(other)
            return same if op == "==" else z3.Not(same)
        if isinstance(other, SFSet) and op in ("<=", ">="):
            a, b = (self.t, other.t) if (op == "<=") != refl else (other.t, self.t)
            return z3.IsSubset(a, b)
        return NotImplemented

    def binop(self, I, op, other, refl):
        if isinstance(other, SFSet) and op == "|":
            return SFSet(z3.SetUnion(self.t, self._other(other)), self.elem)
        return NotImplemented

    def iterate(self, I):
        n = _card(self.t)
        arr = I.ctx.fresh("setitems", z3.ArraySort(z3.IntSort(), self.elem.sort()))
        k = z3.Int("si_k")
        I.ctx.assume(n >= 0)
        I.ctx.assume(z3.ForAll([k], z3.Implies(z3.And(0 <= k, k < n), z3.IsMember(arr[k], self.t)), patterns=[arr[k]]))
        single = z3.SetAdd(z3.EmptySet(self.elem.sort()), arr[0])
        I.ctx.assume(z3.Implies(n == 1, z3.And(self.t == single, arr[0] == _the(self.t))))
        return SList(n, arr, self.elem)

    def method(self, I, name, args, kwargs, node):
        if name == "issuperset":
            return bool_val(z3.IsSubset(self._other(args[0]), self.t))
        if name == "issubset":
            return bool_val(z3.IsSubset(self.t, self._other(args[0])))
        if name == "difference":
            o = self._other(args[0])
            d = z3.SetDifference(self.t, o)
            I.ctx.assume(z3.And(_card(d) >= 0, _card(d) <= _card(self.t),
                                z3.Implies(z3.IsSubset(o, self.t), _card(d) == _card(self.t) - _card(o))))
            return SFSet(d, self.elem)
        if name == "union":
            return SFSet(z3.SetUnion(self.t, self._other(args[0])), self.elem)
        if name == "add":
            x = self.elem.unwrap(args[0], I.ctx)
            new = z3.SetAdd(self.t, x)
            I.ctx.assume(_card(new) == _card(self.t) + z3.If(z3.IsMember(x, self.t), 0, 1))
            self.t = new
            return None
        if name == "copy":
            return self.copy()
        raise Unsupported(f"set.{name} on a symbolic set")

    def __repr__(self):
        return f"SFSet({self.t})"


class TFSet(Type):
    def __init__(self, elem):
        self.elem = elem
        self.name = f"set[{elem.name}]"

    def sort(self):
        return z3.SetSort(self.elem.sort())

    def wrap(self, t):
        return SFSet(t, self.elem)

    def unwrap(self, v, ctx=None):
        if isinstance(v, SFSet):
            return v.t
        if isinstance(v, (set, frozenset, list, tuple)):
            t = z3.EmptySet(self.elem.sort())
            for x in v:
                t = z3.SetAdd(t, self.elem.unwrap(x, ctx))
            return t
        raise Unsupported(f"cannot use {v!r} as a set")


def m_set_of(I, args, kwargs, node):
    """set(x) / frozenset(x) where x is a symbolic set: a new set object with the same members (None: not handled here)."""
    if len(args) == 1 and isinstance(args[0], SFSet):
        return args[0].copy()
    return None


def the(s):
    """the element of a one-element set (specification helper; executable)"""
    return next(iter(s))


def _m_the(I, a, kw, node):
    s = a[0]
    if not isinstance(s, SFSet):
        raise Unsupported("the() of something that is not a symbolic set")
    return s.elem.wrap(_the(s.t))


def setminus(a, b):
    """a - b (specification helper; executable)"""
    return a - b


def _m_setminus(I, a, kw, node):
    return a[0].method(I, "difference", [a[1]], {}, node)


def with_elem(s, x):
    """s | {x} (specification helper; executable)"""
    return frozenset(s) | {x}


def _m_with_elem(I, a, kw, node):
    s = a[0]
    return SFSet(z3.SetAdd(s.t, s.elem.unwrap(a[1], I.ctx)), s.elem)


def externals():
    return {f"{__name__}.the": _m_the, f"{__name__}.setminus": _m_setminus, f"{__name__}.with_elem": _m_with_elem}

"""Symbolic executor: calls, contracts, statements, loops, per-function verification."""
import ast
import re
import inspect
import textwrap

import z3

from .values import (Sym, SInt, SReal, SBool, SStr, SData, SList, SObj, SExc, SOpaque, SSlice, Star,
                     Unsupported, intern, TInt, TReal, TBool, TStr, TData, TList, TObj, TOpaque, TNone)
from .ctx import Ctx, PathEnd
from . import ops
from .ops import (eq, arith, compare, to_bool_term, bool_val, z_and, z_or, z_not, zb, snapshot,
                  int_term, is_sym, type_of)
from .interp import (ExprMixin, ReturnEx, BreakEx, ContinueEx, PyRaise, BoundMethod, Closure, Frame,
                     qual_of)
from .registry import SpecFn, Contract, Loop
from . import opaque as _opaque  # noqa: F401  (installs the hooks on SOpaque)


class Old:
    pass


OLD = Old()


class IsFresh:
    pass


IS_FRESH = IsFresh()


class Interp(ExprMixin):
    def __init__(self, reg, src, ctx, namespace=None):
        self.reg = reg
        self.src = src
        self.ctx = ctx
        self.reg_namespace = namespace if namespace is not None else getattr(reg, "namespace", {})
        self.frame = None
        self.str_concat = getattr(reg, "str_concat", None)
        self.catches_index = False
        self.special = {"old": OLD, "forall": "__forall__", "exists": "__exists__",
                        "implies": "__implies__", "ite": "__ite__", "is_fresh": IS_FRESH}
        self.dropped = []     # nodes modelled as no-ops (reported in the evidence)
        self.ghost = {}       # ghost effects of the current path (e.g. 'warned')

    # ================================================================== calls
    def ev_Call(self, node):
        f = node.func
        # special forms of the contract language
        if isinstance(f, ast.Name) and f.id not in self.frame.env:
            if f.id == "old":
                return self.eval_old(node.args[0])
            if f.id in ("forall", "exists"):
                return self.eval_quant(f.id, node)
            if f.id in ("forall_obj", "exists_obj"):
                return self.eval_quant_obj(f.id, node)
            if f.id == "implies":
                a = zb(to_bool_term(self.ev(node.args[0])))
                if z3.is_false(z3.simplify(a)):
                    return True          # the consequent is not evaluated under a false antecedent (it may be meaningless there)
                self.ctx.guards.append(a)
                try:
                    b = zb(to_bool_term(self.ev(node.args[1])))
                finally:
                    self.ctx.guards.pop()
                return bool_val(z3.Implies(a, b))
            if f.id == "ite":
                c = zb(to_bool_term(self.ev(node.args[0])))
                return self.merge(c, self.ev(node.args[1]), self.ev(node.args[2]))
        # logger / print: modelled as no-ops
        if isinstance(f, ast.Attribute) and isinstance(f.value, ast.Name) and f.value.id == "_log":
            self.dropped.append((self.frame.qualname, self.line(node), "_log call"))
            return None
        if isinstance(f, ast.Name) and f.id == "print":
            self.dropped.append((self.frame.qualname, self.line(node), "print call"))
            return None
        # super().__setattr__(k, v)
        if (isinstance(f, ast.Attribute) and isinstance(f.value, ast.Call)
                and isinstance(f.value.func, ast.Name) and f.value.func.id == "super"):
            return self.call_super(f.attr, node)
        # in-place mutation of a value-typed local (e.g. args.append(x) on a snoc-list datatype)
        if isinstance(f, ast.Attribute) and isinstance(f.value, ast.Name):
            recv = self.frame.env.get(f.value.id)
            if isinstance(recv, SData) and f.attr in getattr(recv.ty.dt, "mutators", {}):
                self.frame.env[f.value.id] = recv.ty.dt.mutators[f.attr](self, recv, self.ev_seq(node.args))
                return None
        if isinstance(f, ast.Attribute):
            base = self.ev(f.value)
            if isinstance(base, SOpaque) and not hasattr(type(base), "own_methods"):
                vals = [self.ev(a.value if isinstance(a, ast.Starred) else a) for a in node.args]
                kws = {kw.arg: self.ev(kw.value) for kw in node.keywords}
                if any(isinstance(a, ast.Starred) for a in node.args):
                    vals = [1] * len(vals)
                return base.method(self, f.attr, vals, kws, node)
            fn = self.getattr(base, f.attr, f)
        else:
            fn = self.ev(f)
        if isinstance(fn, SOpaque) or (isinstance(fn, BoundMethod) and isinstance(fn.obj, SOpaque)):
            for a in node.args:      # arguments are evaluated for their effects; an opaque callee reveals nothing
                self.ev(a.value if isinstance(a, ast.Starred) else a)
            for kw in node.keywords:
                self.ev(kw.value)
            return self.call(fn, [], {}, node)
        args = self.ev_seq(node.args, allow_star=True)
        kwargs = {}
        for kw in node.keywords:
            if kw.arg is None:
                d = self.ev(kw.value)
                if not isinstance(d, dict):
                    raise Unsupported("** of a symbolic mapping")
                kwargs.update(d)
            else:
                kwargs[kw.arg] = self.ev(kw.value)
        return self.call(fn, args, kwargs, node)

    def call_super(self, name, node):
        args = self.ev_seq(node.args)
        slf = self.frame.env.get("self")
        if name == "__setattr__" and isinstance(slf, SObj):
            k, v = args
            if is_sym(k):
                c = self.concretize(k)
                if c is None:
                    raise Unsupported("setattr with a symbolic attribute name")
                k = c
            slf.fields[k] = v
            return None
        if name == "__init__":
            return None
        raise Unsupported(f"super().{name}")

    def eval_old(self, expr):
        fr = self.frame
        if fr.old is None:
            raise Unsupported("old() outside a postcondition")
        saved = fr.env
        saved_heap = getattr(self, "opaque_heap", None)
        fr.env = fr.old
        if saved_heap is not None and getattr(self, "opaque_heap_old", None) == "initial":
            self.opaque_heap = {}           # initial (unwritten) attribute arrays
        try:
            return self.ev(expr)
        finally:
            fr.env = saved
            if saved_heap is not None:
                for k_, v_ in self.opaque_heap.items():
                    saved_heap.setdefault(k_, v_)
                self.opaque_heap = saved_heap

    def eval_quant(self, kind, node):
        # forall(lo, hi, lambda i: body)  /  forall(lambda i: body) with explicit guard inside
        args = node.args
        lam = args[-1]
        if not isinstance(lam, ast.Lambda):
            raise Unsupported("quantifier needs a lambda")
        names = [a.arg for a in lam.args.args]
        vars_ = [self.ctx.fresh(f"q_{n}", z3.IntSort()) for n in names]
        saved = dict(self.frame.env)
        guard = True
        if len(args) == 3:
            lo = int_term(self.ev(args[0]))
            hi = int_term(self.ev(args[1]))
            guard = z3.And(*[z3.And(lo <= v, v < hi) for v in vars_])
        for n, v in zip(names, vars_):
            self.frame.env[n] = SInt(v)
        self.ctx.spec_mode += 1
        if guard is not True:
            self.ctx.guards.append(guard)
        try:
            body = zb(to_bool_term(self.ev(lam.body)))
        finally:
            if guard is not True:
                self.ctx.guards.pop()
            self.ctx.spec_mode -= 1
            self.frame.env = saved
        if kind == "forall":
            return SBool(z3.ForAll(vars_, z3.Implies(zb(guard), body)))
        return SBool(z3.Exists(vars_, z3.And(zb(guard), body)))

    def eval_quant_obj(self, kind, node):
        """forall_obj(lambda x: body): quantification over opaque objects."""
        lam = node.args[-1]
        names = [a.arg for a in lam.args.args]
        vars_ = [self.ctx.fresh(f"qo_{n}", TOpaque().sort()) for n in names]
        saved = dict(self.frame.env)
        for n, v in zip(names, vars_):
            self.frame.env[n] = SOpaque(v, "any")
        self.ctx.spec_mode += 1
        try:
            body = zb(to_bool_term(self.ev(lam.body)))
        finally:
            self.ctx.spec_mode -= 1
            self.frame.env = saved
        return SBool(z3.ForAll(vars_, body) if kind == "forall_obj" else z3.Exists(vars_, body))

    def call(self, fn, args, kwargs, node):
        if any(isinstance(a, Star) for a in args):
            # *symbolic-sequence: only an explicit model, or a class / function under contract (its *args parameter) takes it
            try:
                model = self.reg.external_objects.get(fn)
            except TypeError:
                model = None
            q = qual_of(fn) if model is None and not isinstance(fn, (BoundMethod, Closure, SObj)) else None
            if model is None and not (q is not None and q not in self.reg.externals and (q in self.reg.classes or q in self.reg.contracts)):
                raise Unsupported(f"{self.frame.qualname}:{self.line(node)} starred symbolic sequence passed to {fn!r}")
        if isinstance(fn, BoundMethod):
            return self.call_method(fn.obj, fn.name, args, kwargs, node)
        if isinstance(fn, Closure):
            return self.call_closure(fn, args, kwargs, node)
        if isinstance(fn, SObj) and self.src.class_has_method(fn.cls, "__call__"):
            return self.call_method(fn, "__call__", args, kwargs, node)
        if fn is IS_FRESH:
            from .stmts import _m_is_fresh
            return _m_is_fresh(self, args, kwargs, node)
        if isinstance(fn, SpecFn):
            return self.apply_spec(fn, args)
        if hasattr(fn, "__spec__"):
            return self.apply_spec(fn.__spec__, args)
        if fn in self.builtin_models:
            return self.builtin_models[fn](self, args, kwargs, node)
        if inspect.isclass(fn) and issubclass(fn, BaseException):
            return SExc(fn, tuple(args))
        try:
            model = self.reg.external_objects.get(fn)
        except TypeError:
            model = None
        if model is not None:
            return model(self, args, kwargs, node)
        q = qual_of(fn)
        if q is not None:
            if q in self.reg.real_to_ctor:
                return self.construct_data(q, args, kwargs, node)
            if q in self.reg.externals:          # an explicit model of the callable wins over constructing a declared class
                return self.reg.externals[q](self, args, kwargs, node)
            if q in self.reg.classes:
                return self.construct_obj(q, args, kwargs, node)
            if q in self.reg.contracts:
                return self.call_function(q, None, args, kwargs, node)
        h = getattr(fn, "call", None)
        if h is not None and is_sym(fn):
            return h(self, args, kwargs, node)
        raise Unsupported(f"{self.frame.qualname}:{self.line(node)} call to {q or fn!r} has no contract or model")

    def construct_data(self, q, args, kwargs, node):
        dt, c = self.reg.real_to_ctor[q]
        vals = list(args)
        names = [f for f, _ in c.fields]
        for i in range(len(vals), len(names)):
            n = names[i]
            if n in kwargs:
                vals.append(kwargs[n])
            elif n in c.defaults:
                vals.append(c.defaults[n])
            else:
                raise Unsupported(f"{q}: missing argument {n}")
        if len(vals) != len(names):
            self.raise_py(TypeError, node)
        terms = [ty.unwrap(v, self.ctx) for ty, v in zip(c.ftypes, vals)]
        return SData(z3.simplify(dt.make(c.name, *terms)), TData(dt))

    def construct_obj(self, q, args, kwargs, node):
        obj = SObj(q)
        if self.src.class_has_method(q, "__init__"):
            self.call_function(q + ".__init__", obj, args, kwargs, node)
        return obj

    def spec_is_recursive(self, sp):
        if getattr(sp, "recursive", None) is None:
            names = set(self.reg.specs)

            def callees(s):
                src = textwrap.dedent(inspect.getsource(s.pyfunc))
                return {n.func.id for n in ast.walk(ast.parse(src))
                        if isinstance(n, ast.Call) and isinstance(n.func, ast.Name) and n.func.id in names}
            seen, todo = set(), list(callees(sp))
            while todo:
                n = todo.pop()
                if n in seen:
                    continue
                seen.add(n)
                todo.extend(callees(self.reg.specs[n]))
            sp.recursive = sp.name in seen
        return sp.recursive

    def inline_spec(self, sp, args):
        src = textwrap.dedent(inspect.getsource(sp.pyfunc))
        fn = [n for n in ast.parse(src).body if isinstance(n, ast.FunctionDef)][0]
        body = [s for s in fn.body if not (isinstance(s, ast.Expr) and isinstance(s.value, ast.Constant))]
        if len(body) != 1 or not isinstance(body[0], ast.Return):
            raise Unsupported(f"spec {sp.name} must be a single return expression")
        fr = Frame("spec:" + sp.name, fn, None, None, None, sp.pyfunc.__globals__)
        for (n, ts), a in zip(sp.params, args):
            ty = self.reg.type(ts)
            if isinstance(ty, TData) and not isinstance(a, SData):
                a = SData(ty.unwrap(a, self.ctx), ty)
            fr.env[n] = a
        saved = self.frame
        self.frame = fr
        self.ctx.spec_mode += 1
        try:
            return self.ev(body[0].value)
        finally:
            self.ctx.spec_mode -= 1
            self.frame = saved

    def apply_spec(self, sp, args):
        if len(args) != len(sp.params):
            raise Unsupported(f"spec {sp.name}: arity")
        if not self.spec_is_recursive(sp):
            return self.inline_spec(sp, args)
        self.define_spec(sp)
        terms = [self.reg.type(ts).unwrap(a, self.ctx) if not isinstance(a, SList) else a.arr
                 for (n, ts), a in zip(sp.params, args)]
        return self.reg.type(sp.ret).wrap(sp.z3fn(*terms))

    def define_spec(self, sp):
        if sp.defined:
            return
        sp.defined = True
        psorts = []
        for n, ts in sp.params:
            ty = self.reg.type(ts)
            psorts.append(ty.arr_sort() if isinstance(ty, TList) else ty.sort())
        rty = self.reg.type(sp.ret)
        sp.z3fn = z3.RecFunction(sp.name, *psorts, rty.sort())
        src = textwrap.dedent(inspect.getsource(sp.pyfunc))
        fn = [n for n in ast.parse(src).body if isinstance(n, ast.FunctionDef)][0]
        body = [s for s in fn.body if not (isinstance(s, ast.Expr) and isinstance(s.value, ast.Constant))]
        if len(body) != 1 or not isinstance(body[0], ast.Return):
            raise Unsupported(f"spec {sp.name} must be a single return expression")
        consts = [z3.Const(f"{sp.name}_{n}", s) for (n, _), s in zip(sp.params, psorts)]
        fr = Frame("spec:" + sp.name, fn, None, None, None, sp.pyfunc.__globals__)
        for (n, ts), c in zip(sp.params, consts):
            ty = self.reg.type(ts)
            fr.env[n] = SList(z3.Int(f"{sp.name}_{n}_len"), c, ty.elem) if isinstance(ty, TList) else ty.wrap(c)
        saved_frame, saved_guards = self.frame, self.ctx.guards
        self.frame = fr
        self.ctx.guards = []
        self.ctx.spec_mode += 1
        try:
            v = self.ev(body[0].value)
        finally:
            self.ctx.spec_mode -= 1
            self.frame = saved_frame
            self.ctx.guards = saved_guards
        sp.consts = consts
        sp.body = rty.unwrap(v, self.ctx)
        z3.RecAddDefinition(sp.z3fn, consts, sp.body)

    def call_closure(self, clo, args, kwargs, node):
        lam = clo.node
        saved = self.frame
        fr = Frame(clo.frame.qualname + ".<lambda>", lam, clo.frame.modname, clo.frame.clsqual, None,
                   clo.frame.globals)
        fr.env = dict(clo.frame.env)
        fr.old = clo.frame.old
        for a, v in zip(lam.args.args, args):
            fr.env[a.arg] = v
        self.frame = fr
        try:
            return self.ev(lam.body)
        finally:
            self.frame = saved

    # ------------------------------------------------------------------ methods
    def call_method(self, obj, name, args, kwargs, node):
        if isinstance(obj, SObj):
            q = obj.cls + "." + name
            if "@" in obj.cls:          # an object of a class-model variant 'Class@tag': its methods are the variants 'Class.m#tag'
                base_, tag_ = obj.cls.split("@", 1)
                q = base_ + "." + name
                if q + "#" + tag_ in self.reg.contracts:
                    return self.call_function(q + "#" + tag_, obj, args, kwargs, node)
            if q in self.reg.externals:
                return self.reg.externals[q](self, [obj] + list(args), kwargs, node)
            return self.call_function(self.pick_variant(q, args), obj, args, kwargs, node)
        if isinstance(obj, SData):
            dt = obj.ty.dt
            # dynamic dispatch on a datatype value with a uniform contract (each constructor's real method is verified against it)
            key = (dt.name, name, args[0].cls if args and isinstance(args[0], SObj) else None)
            uq = getattr(self.reg, "dt_methods", {}).get(key)
            if uq is not None and self.frame.qualname.split("#")[0] not in getattr(self.reg, "dt_method_impls", {}).get(key, ()):
                c = self.reg.contracts[uq]
                fnode, modname, cls, path, h = self.src.find(c.of)
                env = self.bind_params(fnode, obj, args, kwargs, node, True)
                env[fnode.args.args[0].arg] = obj
                return self.apply_contract(c, uq, fnode, modname, cls, env, node)
            cands = [c for c in dt.ctors if c.real and self.src.class_has_method(c.real, name)]
            c = self.resolve_ctor(obj, cands, node, f"method {name}")
            return self.call_function(c.real + "." + name, obj, args, kwargs, node)
        if isinstance(obj, (SList, list)):
            return self.list_method(obj, name, args, node)
        if isinstance(obj, dict):
            return self.dict_method(obj, name, args, kwargs, node)
        if isinstance(obj, (str, SStr)):
            return self.str_method(obj, name, args, node)
        h = getattr(obj, "method", None)
        if h is not None:
            return h(self, name, args, kwargs, node)
        raise Unsupported(f"{self.frame.qualname}:{self.line(node)} method {name} on {obj!r}")

    def pick_variant(self, q, args):
        """A method with several contracts (q and q#tag, one per operand class): at a call site the variant whose declared parameter
        classes are the classes of the object arguments is the callee's contract; otherwise the base contract."""
        objs = [a.cls if isinstance(a, SObj) else None for a in args]
        if not any(objs):
            return q
        for vq, c in self.reg.contracts.items():
            if vq.startswith(q + "#") and getattr(c, "of", None) == q:
                tys = list((c.params or {}).values())[:len(args)]
                if len(tys) == len(args) and any(objs) and all((o is None and t not in self.reg.classes) or o == t for o, t in zip(objs, tys)):
                    return vq
        return q

    def list_method(self, lst, name, args, node):
        if isinstance(lst, list):
            if name == "append":
                lst.append(args[0])
                return None
            if name == "copy":
                return list(lst)
            if name == "insert" and isinstance(args[0], int):
                lst.insert(args[0], args[1])
                return None
            if name == "extend" and isinstance(args[0], (list, tuple)):
                lst.extend(args[0])
                return None
            if name == "pop" and (not args or isinstance(args[0], int)):
                try:
                    return lst.pop(*args)
                except IndexError:
                    self.raise_py(IndexError, node)
            if name == "index":
                for j, x in enumerate(lst):
                    if self.ctx.branch(zb(eq(args[0], x, self.ctx))):
                        return j
                self.raise_py(ValueError, node)
            if name == "remove":
                for j, x in enumerate(lst):
                    if self.ctx.branch(zb(eq(args[0], x, self.ctx))):
                        del lst[j]
                        return None
                self.raise_py(ValueError, node)
            raise Unsupported(f"list.{name} on a concrete list")
        if name == "append":
            lst.arr = z3.Store(lst.arr, lst.len, lst.elem.unwrap(args[0], self.ctx))
            lst.len = z3.simplify(lst.len + 1)
            return None
        if name == "copy":
            return lst.copy()
        if name == "insert":
            k = int_term(args[0])
            k = z3.If(k < 0, z3.If(k + lst.len < 0, 0, k + lst.len), z3.If(k > lst.len, lst.len, k))
            x = lst.elem.unwrap(args[1], self.ctx)
            i = z3.Int("ins_i")
            old = lst.arr
            lst.arr = z3.Lambda([i], z3.If(i < k, old[i], z3.If(i == k, x, old[i - 1])))
            lst.len = z3.simplify(lst.len + 1)
            return None
        if name == "index":
            t = lst.elem.unwrap(args[0], self.ctx)
            k = self.ctx.fresh("idxk", z3.IntSort())
            found = z3.Exists([k], z3.And(0 <= k, k < lst.len, lst.arr[k] == t))
            if not self.ctx.branch(found):
                self.raise_py(ValueError, node)
            j = self.list_index_term(lst, t)
            self.ctx.assume(z3.And(0 <= j, j < lst.len, lst.arr[j] == t,
                                   z3.ForAll([k], z3.Implies(z3.And(0 <= k, k < j), lst.arr[k] != t))))
            return SInt(j)
        if name == "remove":
            t = lst.elem.unwrap(args[0], self.ctx)
            k = self.ctx.fresh("rmk", z3.IntSort())
            found = z3.Exists([k], z3.And(0 <= k, k < lst.len, lst.arr[k] == t))
            if not self.ctx.branch(found):
                self.raise_py(ValueError, node)
            p = self.list_index_term(lst, t)
            self.ctx.assume(z3.And(0 <= p, p < lst.len, lst.arr[p] == t,
                                   z3.ForAll([k], z3.Implies(z3.And(0 <= k, k < p), lst.arr[k] != t))))
            # the first occurrence goes, the rest shifts left. The new contents are a fresh array related to the old one
            # in both directions with explicit index maps (trigger-friendly; a lambda would hide the terms to match on)
            i = z3.Int("rm_i")
            old = lst.arr
            n_old = lst.len
            new = self.ctx.fresh("removed", old.sort())
            self.ctx.assume(z3.ForAll([i], z3.Implies(z3.And(0 <= i, i < n_old - 1), new[i] == old[z3.If(i < p, i, i + 1)]),
                                      patterns=[new[i]]))
            self.ctx.assume(z3.ForAll([i], z3.Implies(z3.And(0 <= i, i < n_old, i != p), new[z3.If(i < p, i, i - 1)] == old[i]),
                                      patterns=[old[i]]))
            lst.arr = new
            lst.len = z3.simplify(n_old - 1)
            return None
        raise Unsupported(f"list.{name} on a symbolic list")

    def list_index_term(self, lst, t):
        """list.index as a term: an uninterpreted function of (contents, length, item), so that two calls agree."""
        from .opaque import ufun
        f = ufun("idx!" + lst.elem.name, z3.ArraySort(z3.IntSort(), lst.elem.sort()), z3.IntSort(), lst.elem.sort(), z3.IntSort())
        return f(lst.arr, lst.len, t)

    def dict_method(self, d, name, args, kwargs, node):
        if name == "items":
            return [(k, v) for k, v in d.items()]
        if name == "keys":
            return list(d.keys())
        if name == "values":
            return list(d.values())
        if name == "get":
            key = args[0]
            default = args[1] if len(args) > 1 else None
            if not is_sym(key):
                return d.get(key, default)
            for k in d:
                if self.ctx.branch(zb(eq(key, k, self.ctx))):
                    return d[k]
            return default
        if name == "update" and isinstance(args[0], dict):
            d.update(args[0])
            return None
        if name == "copy":
            return dict(d)
        raise Unsupported(f"dict.{name}")

    def str_method(self, s, name, args, node):
        if isinstance(s, str) and all(isinstance(a, (str, int)) for a in args):
            return getattr(s, name)(*args)
        hook = getattr(self.reg, "str_methods", {}).get(name)
        if hook is not None:
            return hook(self, [s] + list(args), {}, node)
        if name == "join" and isinstance(s, str):
            parts = args[0]
            if isinstance(parts, (list, tuple)) and all(isinstance(p, str) for p in parts):
                return s.join(parts)
            if self.str_join is not None:
                return self.str_join(self, s, parts, node)
            return SStr(self.ctx.fresh("joined", z3.IntSort()))
        raise Unsupported(f"{self.frame.qualname}:{self.line(node)} str.{name} on {s!r}")

    str_join = None

    # ------------------------------------------------------------------ call by contract / inline
    def bind_params(self, fnode, slf, args, kwargs, node, is_method):
        a = fnode.args
        names = [x.arg for x in a.args]
        if is_method:
            names = names[1:]
        defaults = a.defaults
        ndef = len(defaults)
        env = {}
        if a.vararg is None and len(args) > len(names):
            self.raise_py(TypeError, node)
        if any(isinstance(v, Star) for v in args[:len(names)]) or (a.vararg is None and any(isinstance(v, Star) for v in args)):
            raise Unsupported(f"{self.frame.qualname}:{self.line(node)} starred symbolic sequence bound to named parameters")
        for n, v in zip(names, args):
            env[n] = v
        if a.vararg is not None:
            extra = args[len(names):]
            env[a.vararg.arg] = self.concat_star(extra, node) if any(isinstance(v, Star) for v in extra) else tuple(extra)
        kw = dict(kwargs)
        for i, n in enumerate(names):
            if n in env:
                if n in kw:
                    self.raise_py(TypeError, node)
                continue
            if n in kw:
                env[n] = kw.pop(n)
            else:
                k = i - (len(names) - ndef)
                if k >= 0:
                    env[n] = self.const_default(defaults[k])
                else:
                    self.raise_py(TypeError, node)
        for x, d in zip(a.kwonlyargs, a.kw_defaults):
            if x.arg in kw:
                env[x.arg] = kw.pop(x.arg)
            elif d is not None:
                env[x.arg] = self.const_default(d)
            else:
                self.raise_py(TypeError, node)
        if a.kwarg is not None:
            env[a.kwarg.arg] = kw
        elif kw:
            self.raise_py(TypeError, node)
        return env

    def concat_star(self, parts, node):
        """the *args tuple of f(a, *L1, b, *L2): one list of symbolic length (elements in call order)"""
        lists = [p.seq for p in parts if isinstance(p, Star)]
        if not all(isinstance(l, SList) for l in lists):
            raise Unsupported(f"{self.frame.qualname}:{self.line(node)} starred opaque sequence bound to *args")
        ety = lists[0].elem
        if len(parts) == 1:       # f(*L): the tuple holds exactly L's elements (a new sequence object over the same contents)
            return SList(lists[0].len, lists[0].arr, ety)
        k = z3.Int("cat_k")
        total = z3.IntVal(0)
        body = None
        segs = []
        for p in parts:
            if isinstance(p, Star):
                segs.append((total, p.seq.len, p.seq.arr[k - total]))
                total = z3.simplify(total + p.seq.len)
            else:
                segs.append((total, z3.IntVal(1), ety.unwrap(p, self.ctx)))
                total = z3.simplify(total + 1)
        for start, ln, term in reversed(segs):
            body = term if body is None else z3.If(k < start + ln, term, body)
        return SList(total, z3.Lambda([k], body), ety)

    def const_default(self, d):
        try:
            v = ast.literal_eval(d)
            if isinstance(v, (list, dict, set)):
                self.fresh_ids.discard(id(v))
                self._fresh_keep.append(v)      # keep alive so that its id is not reused by a fresh object
            return v
        except Exception:
            raise Unsupported("non-literal default argument")

    def call_function(self, q, slf, args, kwargs, node):
        c = self.reg.contracts.get(q)
        fnode, modname, cls, path, h = self.src.find(c.of if c is not None and getattr(c, "of", None) else q)
        is_method = cls is not None and not any(
            isinstance(d, ast.Name) and d.id in ("staticmethod",) for d in fnode.decorator_list)
        if any(isinstance(d, ast.Name) and d.id == "classmethod" for d in fnode.decorator_list):
            is_method = True
        env = self.bind_params(fnode, slf, args, kwargs, node, is_method)
        if is_method:
            env[fnode.args.args[0].arg] = slf
        if c is None or c.inline:
            if c is None and not self.inline_ok(q):
                raise Unsupported(f"{self.frame.qualname}:{self.line(node)} call to {q} has no contract")
            return self.inline_call(q, fnode, modname, cls, env, c)
        return self.apply_contract(c, q, fnode, modname, cls, env, node)

    def inline_ok(self, q):
        return q in getattr(self.reg, "inline", ()) or q.rsplit(".", 1)[-1] == "accept"

    def inline_call(self, q, fnode, modname, cls, env, c):
        saved = self.frame
        fr = Frame(q, fnode, modname, (modname + "." + cls) if cls else None, c,
                   vars(self.src.real_module(modname)))
        fr.env = env
        fr.try_depth = saved.try_depth
        self.frame = fr
        self.depth = getattr(self, "depth", 0) + 1
        if self.depth > getattr(self, "max_depth", 40):
            raise Unsupported("inline recursion too deep")
        try:
            self.exec_block(fnode.body)
            return None
        except ReturnEx as r:
            return r.value
        finally:
            self.depth -= 1
            self.frame = saved

    def spec_eval(self, expr_src, env, old=None, globs=None):
        """Evaluate a contract expression string to a z3 Bool."""
        node = ast.parse(expr_src.strip(), mode="eval").body
        saved = self.frame
        fr = Frame((saved.qualname if saved else "?") + ":spec", node, None, None, None, globs)
        fr.env = env
        fr.old = old
        self.frame = fr
        self.ctx.spec_mode += 1
        try:
            return zb(to_bool_term(self.ev(node)))
        finally:
            self.ctx.spec_mode -= 1
            self.frame = saved

    def spec_value(self, expr_src, env, old=None, globs=None):
        node = ast.parse(expr_src.strip(), mode="eval").body
        saved = self.frame
        fr = Frame("spec", node, None, None, None, globs)
        fr.env = env
        fr.old = old
        self.frame = fr
        self.ctx.spec_mode += 1
        try:
            return self.ev(node)
        finally:
            self.ctx.spec_mode -= 1
            self.frame = saved

    @staticmethod
    def clause(c):
        """A contract clause is 'expr' or ('expr', [tags])."""
        if isinstance(c, tuple):
            return c[0], tuple(c[1])
        return c, None

    def havoc_path(self, path, env):
        """Havoc 'self.x' / 'self.x.y' in env according to declared class field types."""
        parts = path.split(".")
        obj = env[parts[0]]
        for p in parts[1:-1]:
            obj = obj.fields[p]
        if len(parts) == 1:
            raise Unsupported("modifies of a bare name")
        f = parts[-1]
        cm = self.reg.classes.get(obj.cls)
        if cm is None or f not in cm.field_types:
            raise Unsupported(f"modifies {path}: no declared type")
        ty = self.reg.type(cm.field_types[f])
        v = ty.fresh(self.ctx, f"{path}")
        obj.fields[f] = v
        if v is not None:
            self.ctx.assume(ty.invariant(v))

    def apply_contract(self, c, q, fnode, modname, cls, env, node):
        line = self.line(node)
        short = q.rsplit(".", 2)[-1] if cls is None else ".".join(q.rsplit(".", 2)[-2:])
        # coerce arguments to declared parameter types
        for p, ts in c.params.items():
            if p in env and env[p] is not None:
                ty = self.reg.type(ts)
                if isinstance(ty, (TData,)):
                    env[p] = SData(ty.unwrap(env[p], self.ctx), ty)
                elif isinstance(ty, TList) and isinstance(env[p], (list, tuple)):
                    env[p] = self.to_slist(list(env[p]), ty.elem)
                elif type(ty).__name__ == "TDict" and isinstance(env[p], dict):
                    env[p] = ty.wrap(ty.unwrap(env[p], self.ctx))
        for cl in c.requires:
            src, tags = self.clause(cl)
            self.ctx.oblige("call-pre", self.spec_eval(src, dict(env), None, c.namespace), line, tags=tags or tuple(c.tags),
                            note=f"{short}: {src}")
        old = {k: snapshot(v) for k, v in env.items()}
        # exceptional outcomes
        for exc_name, cond in c.raises.items():
            cls_exc = self.exc_class(exc_name, modname)
            if cond is not None:
                if self.ctx.branch(self.spec_eval(cond, dict(env), None, c.namespace)):
                    raise PyRaise(SExc(cls_exc), line)
            elif self.frame.try_depth > 0 or self.ctx.want_exc:
                if self.ctx.branch(self.ctx.fresh(f"raises_{exc_name}", z3.BoolSort())):
                    raise PyRaise(SExc(cls_exc), line)
        kept = set()
        for cond, paths in getattr(c, "frame_when", {}).items():
            # conditional frame (verified on the callee): when the condition holds at entry, these fields are not assigned at all
            if self.ctx.entails_pc(self.spec_eval(cond, dict(env), None, c.namespace)):
                kept |= set(paths)
        for path in c.modifies:
            if path not in kept:
                self.havoc_path(path, env)
        result = None
        if c.returns is not None:
            rty = self.reg.type(c.returns)
            result = rty.fresh(self.ctx, f"ret_{short}")
            if result is not None:
                self.ctx.assume(rty.invariant(result))
        post_env = dict(env)
        # "result == <an existing object>" / "result is <...>" on an object-typed result: the callee returns THAT object
        # (identity), not a fresh one that happens to be equal
        if isinstance(result, SObj):
            for cl in c.ensures:
                src, _ = self.clause(cl)
                m_ = re.fullmatch(r"\s*result\s*(==|is)\s*([A-Za-z_][A-Za-z_0-9.]*)\s*", src)
                if m_:
                    tgt = self.spec_value(m_.group(2), dict(post_env), old, c.namespace)
                    if isinstance(tgt, SObj):
                        result = tgt
                        break
        post_env["result"] = result
        for cl in c.ensures:
            src, _ = self.clause(cl)
            if src.strip().startswith("is_fresh(") and src.strip().endswith(")"):
                # the callee guarantees a newly allocated container: record it for this activation
                v = self.spec_value(src.strip()[len("is_fresh("):-1], post_env, old, c.namespace)
                if isinstance(v, (list, dict)):
                    self.fresh_ids.add(id(v))
                elif hasattr(v, "fresh"):
                    v.fresh = True
                continue
            try:
                self.ctx.assume(self.spec_eval(src, post_env, old, c.namespace))
            except PathEnd:
                # the callee's postcondition is plainly false in this state: either the contract is wrong or the engine
                # mis-models the call (e.g. identity of the returned object) - never a silent end of the path
                self.ctx.oblige("call-live", z3.BoolVal(False), line, assume_after=False,
                                note=f"{short}: postcondition '{src[:80]}' is consistent with the state at the call")
                raise
        return result

    def exc_class(self, name, modname):
        import builtins as _b
        if hasattr(_b, name):
            return getattr(_b, name)
        for m in (modname, "formulae.parser", "formulae.scanner", "formulae.resolver",
                  "formulae.terms.call_resolver"):
            if m:
                mod = self.src.real_module(m)
                if hasattr(mod, name):
                    return getattr(mod, name)
        raise Unsupported(f"unknown exception class {name}")

"""Locating the real source of functions under contract (re-read from /repo on every run)."""
import ast
import hashlib
import importlib
import os

from .values import Unsupported


class SourceIndex:
    # property lemmas (vf/proplemmas/*.py) are small harness functions under /verif that only CALL the real functions; they
    # are verified like any other function, every callee by its contract
    VERIF_ROOT = os.path.dirname(os.path.dirname(os.path.dirname(os.path.abspath(__file__))))

    def __init__(self, repo=None):
        self.repo = repo or os.environ.get("VERIF_REPO", "/repo")
        self.mods = {}

    def root_of(self, parts):
        return self.VERIF_ROOT if parts[:2] == ["vf", "proplemmas"] else self.repo

    def module_ast(self, modname):
        if modname not in self.mods:
            root = self.root_of(modname.split("."))
            path = os.path.join(root, *modname.split(".")) + ".py"
            if not os.path.exists(path):
                path = os.path.join(root, *modname.split("."), "__init__.py")
            with open(path) as fh:
                src = fh.read()
            self.mods[modname] = (ast.parse(src), src, path)
        return self.mods[modname]

    def split(self, qualname):
        """'formulae.parser.Parser.addition' -> (module, class or None, func)."""
        parts = qualname.split(".")
        for k in range(len(parts) - 1, 0, -1):
            modname = ".".join(parts[:k])
            path = os.path.join(self.root_of(parts), *parts[:k])
            if os.path.exists(path + ".py") or os.path.exists(os.path.join(path, "__init__.py")):
                rest = parts[k:]
                if len(rest) == 1:
                    return modname, None, rest[0]
                if len(rest) == 2:
                    return modname, rest[0], rest[1]
        raise Unsupported(f"cannot locate {qualname}")

    def find(self, qualname):
        if "@" in qualname:          # 'pkg.Class@tag.method': a second typing of the same class (class-model variant): same source
            import re
            qualname = re.sub(r"@\w+", "", qualname)
        modname, cls, fn = self.split(qualname)
        tree, src, path = self.module_ast(modname)
        body = tree.body
        if cls is not None:
            for n in body:
                if isinstance(n, ast.ClassDef) and n.name == cls:
                    body = n.body
                    break
            else:
                raise Unsupported(f"class {cls} not found in {modname}")
        for n in body:
            if isinstance(n, (ast.FunctionDef,)) and n.name == fn:
                # property setters share the name; prefer the plain def / getter
                seg = ast.get_source_segment(src, n) or ""
                return n, modname, cls, path, hashlib.sha1(seg.encode()).hexdigest()[:12]
        raise Unsupported(f"function {qualname} not found")

    def class_has_method(self, cls_qual, meth):
        try:
            self.find(cls_qual + "." + meth)
            return True
        except Unsupported:
            return False

    def real_module(self, modname):
        return importlib.import_module(modname)

"""Path context: path condition, decisions (DFS by re-execution), obligations."""
import z3

from .values import Unsupported


_LIGHT = {}


def is_light(e):
    """No recursive-function application and no quantifier (cheap to decide)."""
    k = e.get_id()
    if k in _LIGHT:
        return _LIGHT[k][1]
    stack = [e]
    seen = set()
    ok = True
    while stack:
        x = stack.pop()
        i = x.get_id()
        if i in seen:
            continue
        seen.add(i)
        if z3.is_quantifier(x):
            ok = False
            break
        if z3.is_app(x):
            if x.decl().kind() == z3.Z3_OP_RECURSIVE:
                ok = False
                break
            stack.extend(x.children())
    _LIGHT[k] = (e, ok)      # keeping the expression alive pins its id
    return ok


class PathEnd(Exception):
    """The current path stops here (infeasible, or cut after a loop body)."""


class Obligation:
    __slots__ = ("func", "kind", "line", "pc", "goal", "tags", "note", "expect_sat", "key")

    def __init__(self, func, kind, line, pc, goal, tags, note="", expect_sat=False):
        self.func = func
        self.kind = kind
        self.line = line
        self.pc = pc
        self.goal = goal
        self.tags = tags
        self.note = note
        self.expect_sat = expect_sat
        self.key = (func, kind, line, note, goal.hash(), tuple(p.hash() for p in pc))

    @property
    def name(self):
        n = f"{self.func}/{self.kind}@{self.line}"
        if self.note:
            n += f"[{self.note}]"
        return n


class Ctx:
    FEAS_TIMEOUT_MS = 1500
    INCR_TIMEOUT_MS = 250         # the incremental solver: its queries take milliseconds; a stalled one is re-asked afresh (see _check)

    def __init__(self, reg, func_name):
        self.reg = reg
        self.func_name = func_name
        self.obligations = {}
        self.trace = []          # list of [decision, has_alternative]
        self.unsupported = []
        self.paths = 0
        self.reset()

    # -- per-path state --------------------------------------------------------------------
    def reset(self):
        self.pc = []
        self.pc_hashes = set()
        self.ptr = 0
        self.counter = {}
        self.spec_mode = 0
        self.guards = []
        self.solver = z3.Solver()
        self.solver.set("timeout", self.INCR_TIMEOUT_MS)
        self.cur_tags = ()
        self.want_exc = 0

    def fresh(self, hint, sort):
        n = self.counter.get(hint, 0)
        self.counter[hint] = n + 1
        return z3.Const(f"{hint}!{n}" if n else hint, sort)

    def assume(self, b):
        if b is True:
            return
        if b is False:
            raise PathEnd()
        b = z3.simplify(b)
        if z3.is_true(b):
            return
        if z3.is_false(b):
            raise PathEnd()
        h = b.hash()
        if h in self.pc_hashes:
            return
        self.pc_hashes.add(h)
        self.pc.append(b)
        if is_light(b):
            self.solver.add(b)

    def _check(self, extra):
        if not all(is_light(g) for g in extra):
            return z3.unknown
        lits = [g for g in self.guards if is_light(g)] + extra
        r = self.solver.check(*lits)
        if r == z3.unknown:
            # the long-lived incremental solver occasionally stalls on a trivial query (observed: 'canceled' after the full time-out on
            # 15 quantifier-free assertions that a fresh solver decides in 4 ms - which process it hits depends on the order in which
            # contract modules were loaded): ask a fresh solver before giving the answer 'unknown' to the path exploration
            s2 = z3.Solver()
            s2.set("timeout", self.FEAS_TIMEOUT_MS)
            for a in self.solver.assertions():
                s2.add(a)
            r = s2.check(*lits)
            s2.set("timeout", self.INCR_TIMEOUT_MS)
            self.solver = s2          # ... and carry on with the fresh one
        return r

    def entails(self, b):
        b = z3.simplify(b)
        if z3.is_true(b):
            return True
        if z3.is_false(b):
            return False
        return self._check([z3.Not(b)]) == z3.unsat

    def entails_pc(self, b):
        """Entailed by the path condition alone (guards of the specification sub-expression being evaluated are ignored): what
        may be remembered beyond the current sub-expression."""
        b = z3.simplify(b)
        if z3.is_true(b):
            return True
        if z3.is_false(b) or not is_light(b):
            return False
        return self.solver.check(z3.Not(b)) == z3.unsat

    def feasible(self, b):
        return self._check([b]) != z3.unsat

    def branch(self, b):
        """Decide a symbolic condition on this path (forks by re-execution)."""
        if isinstance(b, bool):
            return b
        b = z3.simplify(b)
        if z3.is_true(b):
            return True
        if z3.is_false(b):
            return False
        if self.spec_mode:
            raise Unsupported("branch on a symbolic condition inside a specification expression")
        if self.ptr < len(self.trace):
            d = self.trace[self.ptr][0]
            self.ptr += 1
        else:
            can_t = self.feasible(b)
            can_f = self.feasible(z3.Not(b))
            if not can_t and not can_f:
                raise PathEnd()
            if can_t and can_f:
                d = True
                self.trace.append([True, True])
            else:
                d = can_t
                self.trace.append([d, False])
            self.ptr += 1
        lit = b if d else z3.Not(b)
        self.pc.append(lit)
        self.pc_hashes.add(lit.hash())
        if is_light(lit):
            self.solver.add(lit)
        return d

    def choose(self, n, hint="choice"):
        """Non-deterministic choice among n alternatives (binary decisions on fresh Bools)."""
        for i in range(n - 1):
            c = self.fresh(f"{hint}{i}", z3.BoolSort())
            if self.branch(c):
                return i
        return n - 1

    def oblige(self, kind, goal, line=0, tags=None, note="", expect_sat=False, assume_after=True):
        if isinstance(goal, bool):
            goal = z3.BoolVal(goal)
        goal = z3.simplify(goal)
        if not (z3.is_true(goal) and not expect_sat):
            ob = Obligation(self.func_name, kind, line, list(self.pc), goal,
                            tuple(tags if tags is not None else self.cur_tags), note, expect_sat)
            self.obligations.setdefault(ob.key, ob)
        elif z3.is_true(goal):
            ob = Obligation(self.func_name, kind, line, [], goal,
                            tuple(tags if tags is not None else self.cur_tags), note, expect_sat)
            self.obligations.setdefault(ob.key, ob)
        if assume_after and not expect_sat:
            self.assume(goal)

    # -- DFS driver ------------------------------------------------------------------------
    def explore(self, run, max_paths=4000):
        while True:
            self.reset()
            self.paths += 1
            try:
                run()
            except PathEnd:
                pass
            while self.trace and not self.trace[-1][1]:
                self.trace.pop()
            if not self.trace:
                break
            self.trace[-1] = [not self.trace[-1][0], False]
            if self.paths > max_paths:
                raise Unsupported(f"more than {max_paths} paths")

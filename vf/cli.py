import importlib
import json
import os
import sys
import traceback

from . import common


def main(argv):
    if not argv:
        print("usage: check <ID> [--tier quick|thorough] [--replay path]")
        return 3
    prop = argv[0]
    tier = common.tier()
    replay = None
    i = 1
    while i < len(argv):
        if argv[i] == "--tier":
            tier = argv[i + 1]
            i += 2
        elif argv[i] == "--replay":
            replay = argv[i + 1]
            i += 2
        else:
            i += 1
    os.environ["VERIF_TIER"] = tier
    import logging
    import warnings
    import formulae  # noqa: F401  (its __init__ resets the logger level; silence it afterwards)
    logging.getLogger("formulae").setLevel(logging.CRITICAL)
    logging.getLogger("formulae").handlers[:] = [logging.NullHandler()]
    warnings.simplefilter("ignore")
    import formulae.terms.call as _fc
    import formulae.terms.variable as _fv
    _fc.print = _fv.print = lambda *a, **k: None      # the debug print inside formulae's 'except: print(...); raise'
    mod = importlib.import_module(f"vf.props.{prop}")
    if replay:
        with open(replay) as fh:
            rec = json.load(fh)
        return mod.replay(rec) if hasattr(mod, "replay") else _generic_replay(rec)
    report = common.Report(prop, mod.LEVEL, tier)
    findings = common.load_findings(prop)
    try:
        mod.run(report, findings)
    except Exception:
        report.failures.append("exception in check: " + traceback.format_exc()[-2000:])
    return report.finish(findings)


def _generic_replay(rec):
    print(json.dumps(rec, indent=1)[:4000])
    return 0


if __name__ == "__main__":
    code = main(sys.argv[1:])
    sys.stdout.flush()
    os._exit(code)

"""Contracts for offset() (formulae/transforms.py: Offset; formulae/terms/call.py: the offset paths of Call) - C16:
"offset(v) contributes v unchanged, a constant being broadcast, and is recomputed from the new frame at prediction".

Under contract here
  * `Offset.eval` for a constant (`size` rows, one column, every entry the constant) and for a column (the stored values, entry by
    entry, nothing rescaled or reordered), `Offset.set_size`;
  * `Call.eval_offset`: refuses iff the term is the response, otherwise the term's value IS what `Offset.eval` returns;
  * `Call.eval_new_data_offset`, constant case: one entry per row of the NEW frame, each the remembered constant.
  * `Offset.__init__` for int / float arguments: never refused, remembered as a constant.
Not under contract: `Offset.__init__` for columns (its dispatch on pandas dtypes), and the non-constant case of `eval_new_data_offset`
(it re-evaluates the lazy call, an opaque callable, on the new frame): bounded tier.

One class, two typings: a constant offset holds a number in `x`, a column offset a vector - the same source is verified under the class
model `Offset` (x: real) and under `Offset@variable` (x: vector) via `self_type`.
"""
import z3                                             # noqa: F401

from formulae import transforms as tr                 # noqa: F401

from vf.pyvc import arrays, pandas_m
from .base import REG
from . import transforms_c                            # noqa: F401  (numpy models: np.ones, broadcasting)

REG.external_objects.update(arrays.external_objects())
REG.external_objects.update(pandas_m.external_objects())
T = "formulae.transforms."
C = "formulae.terms.call.Call"
TAGS = ["C16"]

REG.declare_class(T + "Offset", {"size": "int", "x": "real", "kind": "str"})
REG.declare_class(T + "Offset@variable", {"size": "int?", "x": "arr1", "kind": "str"})

REG.contract(T + "Offset.eval", returns="arr2", tags=TAGS,
             requires=["self.kind == 'constant'", "self.size >= 0"],
             ensures=["result.shape[0] == self.size", "result.shape[1] == 1",
                      "forall(0, self.size, lambda r: result[r, 0] == self.x)", "self.x == old(self.x)"])
REG.contract(T + "Offset.eval#variable", of=T + "Offset.eval", self_type=T + "Offset@variable", returns="arr1", tags=TAGS,
             requires=["self.kind == 'variable'"],
             ensures=["result.shape[0] == self.x.shape[0]", "forall(0, self.x.shape[0], lambda r: result[r] == self.x[r])",
                      "self.x == old(self.x)"])
REG.contract(T + "Offset.set_size", params={"size": "int"}, tags=TAGS, modifies=["self.size"], ensures=["self.size == size"])

FUNCTIONS = [T + "Offset.eval", T + "Offset.eval#variable", T + "Offset.set_size"]
ASSUMPTIONS = ["np.ones(shape) * c: every entry equals c (floats as reals); ndarray.flatten() of a vector: the same entries in order, in a new array"]

# ---- the offset paths of Call ----------------------------------------------------------------------------------------------------
REG.declare_class(C + "@offset", {"is_response": "bool", "value": "arr", "_intermediate_data": T + "Offset", "call": "any", "env": "any",
                                  "kind": "str?", "name": "str"})
REG.declare_class(C + "@offsetvar", {"is_response": "bool", "value": "arr", "_intermediate_data": T + "Offset@variable", "call": "any",
                                     "env": "any", "kind": "str?", "name": "str"})
REG.contract(C + ".eval_offset", self_type=C + "@offset", params={"offset": T + "Offset"}, tags=TAGS, modifies=["self.value"],
             requires=["offset.kind == 'constant'", "offset.size >= 0"],
             raises={"ValueError": "self.is_response"},
             ensures=["self.value.ndim == 2", "self.value.shape[0] == offset.size", "self.value.shape[1] == 1",
                      "forall(0, offset.size, lambda r: self.value[r, 0] == offset.x)"])
REG.contract(C + ".eval_offset#variable", of=C + ".eval_offset", self_type=C + "@offsetvar", params={"offset": T + "Offset@variable"},
             tags=TAGS, modifies=["self.value"], requires=["offset.kind == 'variable'"],
             raises={"ValueError": "self.is_response"},
             ensures=["self.value.ndim == 1", "self.value.shape[0] == offset.x.shape[0]",
                      "forall(0, offset.x.shape[0], lambda r: self.value[r] == offset.x[r])"])


def nrows_of(frame):
    """number of rows of a data frame (specification helper; executable)"""
    return len(frame.index)


def _nrows_of(I, a, kw, node):
    return I.call(len, [I.getattr(a[0], "index", node)], {}, node)


REG.externals[f"{__name__}.nrows_of"] = _nrows_of
REG.contract(C + ".eval_new_data_offset", self_type=C + "@offset", params={"data_mask": "frame"}, returns="arr1", tags=TAGS + ["C06"],
             requires=["self._intermediate_data.kind == 'constant'"],
             ensures=["result.shape[0] == nrows_of(data_mask)",
                      "forall(0, nrows_of(data_mask), lambda r: result[r] == self._intermediate_data.x)",
                      "self._intermediate_data.x == old(self._intermediate_data.x)"])
FUNCTIONS += [C + ".eval_offset", C + ".eval_offset#variable", C + ".eval_new_data_offset"]

# ---- Offset.__init__ for a number: never refused, remembered as a constant -----------------------------------------------------
from pandas.api.types import is_numeric_dtype as _is_numeric_dtype          # noqa: E402


def _m_is_numeric_dtype(I, a, kw, node):
    """pandas.api.types.is_numeric_dtype: an uninterpreted predicate of its argument (both answers are explored)"""
    from vf.pyvc.ops import bool_val
    return bool_val(I.ctx.fresh("is_numeric_dtype", z3.BoolSort()))


if _is_numeric_dtype not in REG.external_objects:
    REG.external_objects[_is_numeric_dtype] = _m_is_numeric_dtype
def is_number(x):
    """a Python int or float (specification helper; executable) - the domain of the two contracts below"""
    return isinstance(x, (int, float)) and not isinstance(x, bool)


def _m_is_number(I, a, kw, node):
    from vf.pyvc.values import SInt, SReal
    return isinstance(a[0], (SInt, SReal, int, float)) and not isinstance(a[0], bool)


REG.externals[f"{__name__}.is_number"] = _m_is_number
REG.contract(T + "Offset.__init__", params={"x": "real"}, tags=TAGS, modifies=["self.size", "self.x", "self.kind"], requires=["is_number(x)"],
             ensures=["self.kind == 'constant'", "self.x == x"])
REG.contract(T + "Offset.__init__#int", of=T + "Offset.__init__", params={"x": "int"}, tags=TAGS, modifies=["self.size", "self.x", "self.kind"],
             requires=["is_number(x)"], ensures=["self.kind == 'constant'", "self.x == x"])
FUNCTIONS += [T + "Offset.__init__", T + "Offset.__init__#int"]
ASSUMPTIONS += ["pandas.api.types.is_numeric_dtype is an uninterpreted predicate (Offset.__init__ is verified for int and float arguments only, "
                "where its answer does not matter)"]

# ---- Call.eval_proportion (C15 / C16): only as a response; the term's value is the two columns Proportion.eval returns -----------
REG.declare_class(C + "@prop", {"is_response": "bool", "value": "arr", "kind": "str?", "name": "str"})
REG.contract(C + ".eval_proportion", self_type=C + "@prop", params={"proportion": T + "Proportion"}, tags=["C15", "C16"],
             modifies=["self.value"], requires=["proportion.successes.shape[0] == proportion.trials.shape[0]"],
             raises={"ValueError": "not self.is_response"},
             ensures=["self.value.ndim == 2", "self.value.shape[0] == proportion.successes.shape[0]", "self.value.shape[1] == 2",
                      "forall(0, proportion.successes.shape[0], lambda r: self.value[r, 0] == proportion.successes[r] and "
                      "self.value[r, 1] == proportion.trials[r])"])
FUNCTIONS += [C + ".eval_proportion"]

# ---- one level up: Call.eval_new_data for an offset term dispatches to eval_new_data_offset -----------------------------------------
REG.contract(C + ".eval_new_data#offset", of=C + ".eval_new_data", self_type=C + "@offset", params={"data_mask": "frame"}, returns="arr1",
             tags=TAGS + ["C06"], requires=["self.kind == 'offset'", "self._intermediate_data.kind == 'constant'"],
             ensures=["result.shape[0] == nrows_of(data_mask)",
                      "forall(0, nrows_of(data_mask), lambda r: result[r] == self._intermediate_data.x)"])
FUNCTIONS += [C + ".eval_new_data#offset"]


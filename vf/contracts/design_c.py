"""Contract for formulae.matrices.design_matrices (C09: validation and the NA branch logic)."""
import z3

from vf.pyvc.values import SOpaque, SInt, SList
from vf.pyvc.opaque import ufun, U
from vf.pyvc.frames import SFrame, SMask
from vf.pyvc.ops import bool_val
from .base import REG
from . import environment_c, call_resolver_c   # noqa: F401

D = "formulae.matrices."


def _model_description(I, a, kw, node):
    from vf.pyvc.ops import str_term
    return SOpaque(ufun("model_description", z3.IntSort(), U())(str_term(a[0])), "any")


def _design(I, a, kw, node):
    desc, frame = a[0], a[1]
    return SOpaque(ufun("DesignMatrices", U(), U(), U())(desc.t, frame.t), "any")


REG.externals["formulae.model_description.model_description"] = _model_description
REG.externals["formulae.matrices.DesignMatrices"] = _design


# ---- the same operations as specification helpers (executable on real frames)
def used_frame(formula, data):
    """the column subset on which missingness is judged: data[list(var_names & columns)]"""
    from formulae import model_description
    return data[list(model_description(formula).var_names.intersection(set(data.columns)))]


def _used_frame(I, a, kw, node):
    formula, data = a
    desc = _model_description(I, [formula], {}, node)
    vn = desc.getattr(I, "var_names", node)
    cols = data.getattr(I, "columns", node)
    from vf.pyvc.pandas_m import m_set
    inter = vn.method(I, "intersection", [m_set(I, [cols], {}, node)], {}, node)
    lst = SOpaque(ufun("U!list", U(), U())(inter.t), "any")
    return data.getitem(I, lst, node)


def incomplete(frame):
    return frame.isna().any(axis=1)


def _incomplete(I, a, kw, node):
    return SMask(ufun("frame.incomplete", U(), U())(a[0].t))


def n_true(mask):
    return int(mask.sum())


def _n_true(I, a, kw, node):
    return SInt(ufun("mask.count", U(), z3.IntSort())(a[0].t))


def keep_complete(frame):
    return frame[~incomplete(frame)]


def _keep_complete(I, a, kw, node):
    m = _incomplete(I, a, kw, node).invert(I)
    return a[0].getitem(I, m, node)


def design_of(formula, frame):
    raise NotImplementedError("ghost")


def _design_of(I, a, kw, node):
    return _design(I, [_model_description(I, [a[0]], {}, node), a[1]], {}, node)


def nrows(frame):
    return frame.shape[0]


def _nrows(I, a, kw, node):
    return a[0].getattr(I, "shape", node)[0]


for _n, _f in (("used_frame", _used_frame), ("incomplete", _incomplete), ("n_true", _n_true), ("keep_complete", _keep_complete),
               ("design_of", _design_of), ("nrows", _nrows)):
    REG.externals[f"{__name__}.{_n}"] = _f

N_INC = "n_true(incomplete(used_frame(formula, data)))"
REG.contract(D + "design_matrices",
             params={"formula": "str", "data": "frame", "na_action": "str", "env": "int", "extra_namespace": "any"},
             returns="any", tags=["C09", "C08", "C07"],
             requires=["env + 1 >= 0"],
             raises={"ValueError": None, "KeyError": None, "AttributeError": None, "Exception": None},
             raises_ensures={},
             ensures=[
                 # validation: an accepted call had a non-empty formula, a non-empty frame and a documented policy
                 "formula != ''", "nrows(data) != 0", "na_action in ('drop', 'error', 'pass')",
                 # 'error' never returns when a row is incomplete in a used variable
                 f"implies(na_action == 'error', {N_INC} == 0)",
                 # 'drop' hands on exactly the complete rows of the used columns (positional filter); 'pass' all rows
                 f"implies(na_action == 'drop' and {N_INC} > 0, result == design_of(formula, keep_complete(used_frame(formula, data))))",
                 f"implies(na_action == 'pass' or {N_INC} == 0, result == design_of(formula, used_frame(formula, data)))"])

FUNCTIONS = [D + "design_matrices"]
ASSUMPTIONS = ["DataFrame operations (column subset, isna().any(axis=1), boolean filter, shape) are uninterpreted functions of the frame: "
               "the contract fixes WHICH operations decide the rows that are kept, not pandas' semantics of them",
               "model_description(formula) and DesignMatrices(description, data, env) are uninterpreted (their own contracts are C02 / C17)",
               "the exceptional side is only partially specified (any of the refusals may fire); the bounded tier checks 'error raises iff'"]

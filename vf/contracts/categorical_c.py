"""Contracts for formulae/categorical.py (C13, C04): closed forms of treatment and sum codings for any
number of levels and any reference / omitted level."""
import z3

from formulae.categorical import Treatment, Sum, ContrastMatrix

from vf.pyvc.registry import Loop
from vf.pyvc.values import SStr, SOpaque, TStr
from vf.pyvc.opaque import ufun, U
from vf.pyvc import arrays
from .base import REG

REG.external_objects.update(arrays.external_objects())

K = "formulae.categorical."
REG.declare_class(K + "ContrastMatrix", {"_matrix": "arr2", "_labels": "list[str]"})
REG.declare_class(K + "Treatment", {"reference": "any"})
REG.declare_class(K + "Sum", {"omit": "any"})
TAGS = ["C13", "C04"]


def label_of(level):
    return str(level)


def _label_of(I, a, kw, node):
    v = a[0]
    if isinstance(v, str):
        return v
    if isinstance(v, SStr):
        return v
    return SStr(ufun("U!str", U(), z3.IntSort())(v.t))


REG.externals[f"{__name__}.label_of"] = _label_of
REG.str_of = lambda I, v: _label_of(I, [v], {}, None)
for _m in ("matrix", "labels"):
    REG.inline.add(K + "ContrastMatrix." + _m)

REG.contract(K + "ContrastMatrix.__init__", params={"matrix": "arr2", "labels": "list[str]"}, tags=TAGS,
             modifies=["self._matrix", "self._labels"],
             raises={"ValueError": "matrix.shape[1] != len(labels)"},
             ensures=["self._matrix == matrix", "self._labels == labels"])

IDX = "(0 if self.reference is None else index_of(levels, self.reference))"


def index_of(levels, x):
    return levels.index(x)


def _index_of(I, a, kw, node):
    lst, x = a
    from vf.pyvc.values import SInt
    return SInt(I.list_index_term(lst, lst.elem.unwrap(x, I.ctx)))


REG.externals[f"{__name__}.index_of"] = _index_of

REG.contract(K + "Treatment.code_with_intercept", params={"levels": "list[any]"}, returns=K + "ContrastMatrix", tags=TAGS,
             ensures=["result.matrix.shape[0] == len(levels)", "result.matrix.shape[1] == len(levels)",
                      "forall(0, len(levels), lambda i, j: result.matrix[i, j] == (1 if i == j else 0))",
                      "len(result.labels) == len(levels)",
                      "forall(0, len(levels), lambda j: result.labels[j] == label_of(levels[j]))"])

REG.contract(K + "Treatment.code_without_intercept", params={"levels": "list[any]"}, returns=K + "ContrastMatrix", tags=TAGS,
             requires=["len(levels) >= 1"],
             raises={"ValueError": "self.reference is not None and self.reference not in levels"},
             ensures=["result.matrix.shape[0] == len(levels)", "result.matrix.shape[1] == len(levels) - 1",
                      # first level is the default reference; the named level (its first occurrence) otherwise
                      f"forall(0, len(levels), lambda i: forall(0, len(levels) - 1, lambda j: "
                      f"result.matrix[i, j] == (1 if i == (j if j < {IDX} else j + 1) else 0)))",
                      f"forall(0, len(levels) - 1, lambda j: result.labels[j] == label_of(levels[j if j < {IDX} else j + 1]))",
                      f"implies(self.reference is not None, levels[{IDX}] == self.reference)",
                      "len(result.labels) == len(levels) - 1"])

FUNCTIONS = [K + "ContrastMatrix.__init__", K + "Treatment.code_with_intercept", K + "Treatment.code_without_intercept"]

# ---- Sum coding -----------------------------------------------------------------------------
O = "(len(levels) - 1 if self.omit is None else index_of(levels, self.omit))"
SUM_ENTRY = f"(-1 if i == {O} else (1 if (i if i < {O} else i - 1) == j else 0))"
RAISES = {"ValueError": "self.omit is not None and self.omit not in levels"}

REG.contract(K + "Sum._omit_index", params={"levels": "list[any]"}, returns="int", tags=TAGS,
             requires=["len(levels) >= 1"], raises=RAISES,
             ensures=[f"result == {O}", "0 <= result", "result < len(levels)",
                      "implies(self.omit is not None, levels[result] == self.omit and forall(0, result, lambda k: levels[k] != self.omit))"])
REG.contract(K + "Sum._sum_contrast", params={"levels": "list[any]"}, returns="arr2", tags=TAGS,
             requires=["len(levels) >= 1"], raises=RAISES,
             ensures=["result.shape[0] == len(levels)", "result.shape[1] == len(levels) - 1",
                      f"forall(0, len(levels), lambda i: forall(0, len(levels) - 1, lambda j: result[i, j] == {SUM_ENTRY}))"])
REG.contract(K + "Sum.code_without_intercept", params={"levels": "list[any]"}, returns=K + "ContrastMatrix", tags=TAGS,
             requires=["len(levels) >= 1"], raises=RAISES,
             ensures=["result.matrix.shape[0] == len(levels)", "result.matrix.shape[1] == len(levels) - 1",
                      "len(result.labels) == len(levels) - 1",
                      f"forall(0, len(levels), lambda i: forall(0, len(levels) - 1, lambda j: result.matrix[i, j] == {SUM_ENTRY}))",
                      f"forall(0, len(levels) - 1, lambda j: result.labels[j] == label_of(levels[j if j < {O} else j + 1]))"])
REG.contract(K + "Sum.code_with_intercept", params={"levels": "list[any]"}, returns=K + "ContrastMatrix", tags=TAGS,
             requires=["len(levels) >= 1"], raises=RAISES,
             ensures=["result.matrix.shape[0] == len(levels)", "result.matrix.shape[1] == len(levels)",
                      "len(result.labels) == len(levels)", "result.labels[0] == 'mean'",
                      "forall(0, len(levels), lambda i: result.matrix[i, 0] == 1)",
                      f"forall(0, len(levels), lambda i: forall(0, len(levels) - 1, lambda j: result.matrix[i, j + 1] == {SUM_ENTRY}))",
                      f"forall(0, len(levels) - 1, lambda j: result.labels[j + 1] == label_of(levels[j if j < {O} else j + 1]))"])

FUNCTIONS += [K + "Sum._omit_index", K + "Sum._sum_contrast", K + "Sum.code_without_intercept", K + "Sum.code_with_intercept"]


ASSUMPTIONS = ['numpy externals assumed: eye, zeros, ones, empty, vstack, column_stack, basic slicing, region assignment (see vf/pyvc/arrays.py)',
               'str(level) is an uninterpreted function of the level; list.index is an uninterpreted function with the first-occurrence axioms']


# ---- C / T / S / I: argument plumbing of the formula-level helpers (C13, C16) ------------------------------------------------
import formulae.transforms as _tr                                            # noqa: E402
TR = "formulae.transforms."
REG.declare_class(K + "CategoricalBox", {"_data": "any", "_contrast": "any", "_levels": "any"})
for _q in (K + "Sum.__init__", K + "Treatment.__init__", K + "CategoricalBox.__init__"):
    REG.inline.add(_q)
REG.contract(TR + "I", params={"x": "any"}, returns="any", tags=["C12", "C16"], ensures=["result == x"])
FUNCTIONS += [TR + "I"]

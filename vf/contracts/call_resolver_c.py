"""Contracts for formulae/terms/call_resolver.py and Environment.capture
(C11 lookup order, C06/C07 write-once transform instance, C12 operator tables)."""
import inspect
import operator

import z3

from formulae.terms.call_resolver import (LazyVariable, LazyValue, LazyCall, LazyOperator, CallResolver,
                                          get_function_from_module)
from formulae.environment import Environment

from vf.pyvc.registry import Loop
from vf.pyvc.values import SOpaque, SStr, SList, TStr, TOpaque, SInt
from vf.pyvc.opaque import ufun, U
from vf.pyvc.dicts import SDictV, dict_sort
from vf.pyvc.ops import str_term, int_term, bool_val
from .base import REG
from . import environment_c  # noqa: F401  (callee contracts)

R = "formulae.terms.call_resolver."
REG.declare_class(R + "LazyVariable", {"name": "str"})
REG.declare_class(R + "LazyValue", {"value": "any", "lexeme": "str?"})
REG.declare_class(R + "LazyCall", {"callee": "str", "args": "list[any]", "kwargs": "any", "stateful_transform": "any"})


# ---- first-match lookup over the namespaces of an Environment (spec, executable on real objects)
def ns_has(env, name):
    return any(name in d for d in env._namespaces)


def ns_first(env, name):
    return next(d[name] for d in env._namespaces if name in d)


FIRST_NS = ("exists(0, len(env._namespaces), lambda m: {n} in env._namespaces[m] and {r} == env._namespaces[m][{n}] "
            "and forall(0, m, lambda j: {n} not in env._namespaces[j]))")
NO_NS = "forall(0, len(env._namespaces), lambda j: {n} not in env._namespaces[j])"

REG.contract(R + "LazyVariable.eval", params={"data_mask": "dict", "env": "formulae.environment.Environment"}, returns="any",
             tags=["C11"],
             raises={"KeyError": "self.name not in data_mask and " + NO_NS.format(n="self.name")},
             ensures=["implies(self.name in data_mask, result == data_mask[self.name])",
                      "implies(self.name not in data_mask, " + FIRST_NS.format(n="self.name", r="result") + ")"])
REG.contract(R + "LazyValue.eval", returns="any", tags=["C12"], ensures=["result == self.value"])


# ---- dotted names: str.split and getattr as uninterpreted functions
def _split(I, a, kw, node):
    s, sep = a[0], a[1]
    if isinstance(s, str):
        return s.split(sep)
    t = str_term(s)
    n = ufun("split!len", z3.IntSort(), z3.IntSort())(t)
    I.ctx.assume(n >= 1)
    i = z3.Int("sp_i")
    part = ufun("split!part", z3.IntSort(), z3.IntSort(), z3.IntSort())
    I.ctx.assume(z3.ForAll([i], part(t, i) >= 0))
    return SList(n, z3.Lambda([i], part(t, i)), TStr(False))


REG.str_methods = {"split": _split}


def attr_of(obj, name):
    return getattr(obj, name)


def _attr_of(I, a, kw, node):
    return a[0].getattr(I, a[1], node)


REG.externals[f"{__name__}.attr_of"] = _attr_of


@REG.spec([("root", "any"), ("names", "list[str]"), ("k", "int")], "any")
def chain(root, names, k):
    """root.names[1].names[2]. ... .names[k]"""
    return root if k <= 0 else attr_of(chain(root, names, k - 1), names[k])


def split_dot(name):
    return name.split(".")


def _split_dot(I, a, kw, node):
    return _split(I, [a[0], "."], {}, node)


REG.externals[f"{__name__}.split_dot"] = _split_dot

REG.contract(R + "get_function_from_module", params={"name": "str", "env": "formulae.environment.Environment"}, returns="any",
             tags=["C11"],
             raises={"KeyError": NO_NS.format(n="split_dot(name)[0]"), "AttributeError": None},
             ensures=["exists(0, len(env._namespaces), lambda m: split_dot(name)[0] in env._namespaces[m] "
                      "and result == chain(env._namespaces[m][split_dot(name)[0]], split_dot(name), len(split_dot(name)) - 1) "
                      "and forall(0, m, lambda j: split_dot(name)[0] not in env._namespaces[j]))"],
             loops={1: Loop(invariant=["0 <= _i1", "_i1 <= len(inner_modules_names) - 1",
                                       "inner_module == chain(module, names, _i1 + 1)"])})

# ---- LazyCall.eval: the stateful transform instance is created once and then reused
REG.contract(R + "LazyCall.eval", params={"data_mask": "dict", "env": "formulae.environment.Environment"}, returns="any",
             tags=["C06", "C07"], modifies=["self.stateful_transform"],
             raises={"KeyError": None, "AttributeError": None},
             ensures=["implies(old(self.stateful_transform) is not None, self.stateful_transform == old(self.stateful_transform))"])


# ---- Environment.capture: frames as opaque values with uninterpreted f_back / f_locals / f_globals
def frame_back(f):
    return f.f_back


def _frame_back(I, a, kw, node):
    return a[0].getattr(I, "f_back", node)


REG.externals[f"{__name__}.frame_back"] = _frame_back


@REG.spec([("f", "any"), ("k", "int")], "any")
def backn(f, k):
    return f if k <= 0 else frame_back(backn(f, k - 1))


def current_frame():
    return inspect.currentframe()


def _current_frame(I, a, kw, node):
    return SOpaque(z3.Const("CUR_FRAME", U()), "any")


REG.externals["inspect.currentframe"] = _current_frame
REG.externals[f"{__name__}.current_frame"] = _current_frame


def as_dict(v):
    return v


def _as_dict(I, a, kw, node):
    return SDictV(ufun("U!asdict", U(), dict_sort())(a[0].t))


REG.externals[f"{__name__}.as_dict"] = _as_dict
REG.opaque_to_dict = _as_dict

E = "formulae.environment.Environment."
REG.contract(E + "capture", params={"env": "int", "reference": "int"}, returns="formulae.environment.Environment", tags=["C11"],
             requires=["env + reference >= 0"],
             raises={"ValueError": "exists(0, env + reference + 1, lambda k: backn(current_frame(), k) is None)",
                     "AttributeError": None},
             ensures=["len(result._namespaces) == 2",
                      "result._namespaces[0] == as_dict(attr_of(backn(current_frame(), env + reference + 1), 'f_locals'))",
                      "result._namespaces[1] == as_dict(attr_of(backn(current_frame(), env + reference + 1), 'f_globals'))"],
             loops={1: Loop(invariant=["0 <= _i1", "_i1 <= depth + 1", "frame == backn(current_frame(), _i1)",
                                       "forall(0, _i1, lambda k: backn(current_frame(), k) is not None)"])})

TABLES = [
    ("C12", "CallResolver.BINARY_OPERATORS", lambda: CallResolver.BINARY_OPERATORS,
     {"PLUS": operator.add, "MINUS": operator.sub, "STAR_STAR": operator.pow, "STAR": operator.mul, "SLASH": operator.truediv,
      "EQUAL_EQUAL": operator.eq, "BANG_EQUAL": operator.ne, "LESS_EQUAL": operator.le, "LESS": operator.lt,
      "GREATER_EQUAL": operator.ge, "GREATER": operator.gt}),
    ("C12", "CallResolver.UNARY_OPERATORS", lambda: CallResolver.UNARY_OPERATORS, {"PLUS": operator.pos, "MINUS": operator.neg}),
    ("C12", "LazyOperator.SYMBOLS", lambda: LazyOperator.SYMBOLS,
     {"add": "+", "pos": "+", "sub": "-", "neg": "-", "pow": "**", "mul": "*", "truediv": "/", "eq": "==", "ne": "!=",
      "le": "<=", "lt": "<", "ge": ">=", "gt": ">"}),
]

FUNCTIONS = [R + "LazyVariable.eval", R + "LazyValue.eval", R + "get_function_from_module", R + "LazyCall.eval", E + "capture"]


ASSUMPTIONS = ["str.split('.') and getattr are uninterpreted functions (deterministic, otherwise unconstrained); getattr may raise AttributeError", 'inspect.currentframe / f_back / f_locals / f_globals are uninterpreted functions of the frame',
               'calls of opaque (user / library) callables return unconstrained values and do not touch modelled state',
               'LazyCall.eval: evaluating the argument objects does not modify this LazyCall (arguments form a tree)']

# ---- identity of lazy call objects (C02 / C12): __eq__ compares exactly the constructor fields, __hash__ never raises
REG.declare_class(R + "LazyOperator", {"op": "any", "args": "any", "symbol": "str"})
for _cls, _fields in (("LazyValue", ["value", "lexeme"]), ("LazyCall", ["callee", "args", "kwargs"]), ("LazyOperator", ["symbol", "args"])):
    _conj = " and ".join(f"self.{f} == other.{f}" for f in _fields)
    REG.contract(R + _cls + ".__eq__", params={"other": R + _cls}, returns="bool", tags=["C02", "C12"],
                 ensures=[f"result == ({_conj})"])
REG.contract(R + "LazyVariable.__eq__", params={"other": R + "LazyVariable"}, returns="bool", tags=["C02", "C12"],
             ensures=["result == (self.name == other.name)"])
REG.contract(R + "LazyValue.__hash__", returns="int", tags=["C02"], ensures=["True"])
REG.contract(R + "LazyVariable.__hash__", returns="int", tags=["C02"], ensures=["True"])
# ... and an object of any other class is simply not equal (arguments are compared element by element, so a LazyCall meets a LazyVariable,
# a LazyValue or a LazyOperator whenever two calls differ in the kind of an argument: 'f(g(x)) + f(z)')
def is_a(x, name):
    """class membership by name (specification helper; executable). Same predicate symbols as terms_c.is_a, declared here so that
    this module does not pull in terms_c (whose quantified class lemmas would join every VC of the checks that use this module)."""
    return type(x).__name__ == name


def _is_a(I, a, kw, node):
    from vf.pyvc.ops import bool_val
    from vf.pyvc.opaque import ufun, U
    return bool_val(ufun(f"isinst!{a[1]}", U(), z3.BoolSort())(a[0].t))


REG.externals[f"{__name__}.is_a"] = _is_a
for _cls in ("LazyValue", "LazyCall", "LazyOperator", "LazyVariable"):
    REG.contract(R + _cls + ".__eq__#other", of=R + _cls + ".__eq__", params={"other": "any"}, returns="bool", tags=["C02", "C12"],
                 requires=[f"not is_a(other, '{_cls}')"], ensures=["result == False"])
FUNCTIONS += [R + c + ".__eq__" for c in ("LazyValue", "LazyCall", "LazyOperator", "LazyVariable")] + \
             [R + c + ".__eq__#other" for c in ("LazyValue", "LazyCall", "LazyOperator", "LazyVariable")] + \
             [R + "LazyValue.__hash__", R + "LazyVariable.__hash__"]

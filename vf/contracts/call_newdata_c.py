"""Contracts for the dispatch of Call.eval_new_data on categorical and numeric call terms (formulae/terms/call.py) - C06 / C10 one level
above `Call.eval_new_data_categoric`: the call is evaluated ONCE on the new frame, a CategoricalBox is unwrapped to its data, and the
result is exactly what `eval_new_data_categoric` makes of that value with the levels and contrast rows remembered from training - so a
call term such as `C(f)` or `T(f, 'b')` reproduces its training coding on new data, and refuses / warns about / zeroes unseen levels by the
configured policy. What the lazy call returns for the new frame is an opaque value (`call_value`), a function of the call object, the
frame and the environment.
"""
import z3

from formulae.categorical import CategoricalBox

from vf.pyvc.values import SOpaque
from .base import REG
from . import variable_c                                         # noqa: F401
from .variable_c import UNSEEN, M, nrows, codes, mode, warned      # noqa: F401

C = "formulae.terms.call.Call"
REG.declare_class(C + "@nd", {"levels": "list[any]", "contrast_matrix": "formulae.categorical.ContrastMatrix", "name": "str", "kind": "str?",
                              "spans_intercept": "bool", "is_response": "bool", "call": "any", "env": "any"})


def call_value(term, data_mask):
    """what the term's lazy call returns on this frame, a CategoricalBox unwrapped to its data (specification helper; executable)"""
    v = term.call.eval(data_mask, term.env)
    return v.data if isinstance(v, CategoricalBox) else v


def _call_value(I, a, kw, node):
    slf, dm = a
    x = slf.fields["call"].method(I, "eval", [dm, slf.fields["env"]], {}, node)
    data = x.getattr(I, "data", node)
    return SOpaque(z3.If(x.isinstance(I, CategoricalBox), data.t, x.t), "any")


REG.externals[f"{__name__}.call_value"] = _call_value
def data_of(box):
    """the values wrapped by a CategoricalBox (specification helper; executable)"""
    return box.data


def _data_of(I, a, kw, node):
    return a[0].getattr(I, "data", node)


REG.externals[f"{__name__}.data_of"] = _data_of


def _cat_clauses(x):
    """raises-iff and postconditions of eval_new_data_categoric (variable_c), stated for the value expression `x`"""
    return ({"ValueError": "(" + UNSEEN.replace("(x", "(" + x) + ") and mode() == 'error'"},
            [f"result.shape[0] == nrows({x})", f"result.shape[1] == {M}.shape[1]",
             f"forall(0, nrows({x}), lambda r: forall(0, {M}.shape[1], lambda j: result[r, j] == "
             f"(0 if codes({x}, self.levels)[r] == -1 else {M}[codes({x}, self.levels)[r], j])))",
             f"warned() == ((" + UNSEEN.replace("(x", "(" + x) + ") and mode() == 'warning')"])


_r, _e = _cat_clauses("data_of(x)")
REG.contract(C + ".eval_new_data_categorical_box", params={"x": "any"}, returns="arr2", tags=["C06", "C10"],
             requires=[f"{M}.shape[0] == len(self.levels)"], raises=_r, ensures=_e)
X = "call_value(self, data_mask)"
_r, _e = _cat_clauses(X)
REG.contract(C + ".eval_new_data#categoric", of=C + ".eval_new_data", self_type=C + "@nd", params={"data_mask": "frame"}, returns="arr2",
             tags=["C06", "C10"], requires=["self.kind == 'categoric'", f"{M}.shape[0] == len(self.levels)"], raises=_r, ensures=_e)
FUNCTIONS = [C + ".eval_new_data_categorical_box", C + ".eval_new_data#categoric"]
ASSUMPTIONS = ["evaluating the lazy call of a term on a frame (LazyCall.eval, user / library callables) is an opaque deterministic function of "
               "the call object, the frame and the environment, and does not touch the term's remembered levels or contrast matrix "
               "(stateful transforms are write-once: transforms_c)"]

# ---- the intercept: one 1 per row of whatever frame it is evaluated on (C06 / C04) ---------------------------------------------------
TI = "formulae.terms.terms.Intercept"
REG.declare_class(TI + "@cols", {"name": "str", "kind": "str", "data": "arr1", "len": "int"})
REG.contract(TI + ".set_type", self_type=TI + "@cols", params={"data": "frame", "env": "any"}, tags=["C04", "C06"], modifies=["self.len"],
             ensures=["self.len == data.shape[0]"])
REG.contract(TI + ".set_data", self_type=TI + "@cols", params={"encoding": "any"}, tags=["C04", "C06"], modifies=["self.data"],
             requires=["self.len >= 0"],
             ensures=["self.data.ndim == 1", "self.data.shape[0] == self.len", "forall(0, self.len, lambda r: self.data[r] == 1)"])
REG.contract(TI + ".eval_new_data", self_type=TI + "@cols", params={"data": "frame"}, returns="arr1", tags=["C04", "C06"],
             ensures=["result.shape[0] == data.shape[0]", "forall(0, data.shape[0], lambda r: result[r] == 1)",
                      "self.data == old(self.data)"])
FUNCTIONS += [TI + ".set_type", TI + ".set_data", TI + ".eval_new_data"]

"""Contracts for formulae/utils.py (C04: the interaction block is the row-wise product, first factor slowest)."""
from vf.pyvc.registry import Loop
from vf.pyvc import arrays
from .base import REG

REG.external_objects.update(arrays.external_objects())
U_ = "formulae.utils."


def ncols(a):
    """number of columns of a 1-D or 2-D array"""
    return a.shape[1] if a.ndim == 2 else 1


def col(a, r, j):
    """entry (r, j) of a 2-D array, or entry r of a 1-D array (j == 0)"""
    return a[r, j] if a.ndim == 2 else a[r]


def _ncols(I, a, kw, node):
    import z3
    from vf.pyvc.values import SInt
    x = a[0]
    if isinstance(x.ndim, int):
        return SInt(x.n1 if x.ndim == 2 else z3.IntVal(1))
    return SInt(z3.If(x.ndim == 2, x.n1, 1))


def _col(I, a, kw, node):
    from vf.pyvc.values import SReal
    from vf.pyvc.ops import int_term
    import z3
    x, r, j = a
    rt, jt = int_term(r), int_term(j)
    if isinstance(x.ndim, int):
        return SReal(x.at(rt, jt if x.ndim == 2 else z3.IntVal(0)))
    return SReal(z3.If(x.ndim == 2, x.at(rt, jt), x.at(rt, z3.IntVal(0))))


REG.externals[f"{__name__}.ncols"] = _ncols
REG.externals[f"{__name__}.col"] = _col

REG.contract(U_ + "get_interaction_matrix", params={"x": "arr", "y": "arr"}, returns="arr2", tags=["C04", "C05"],
             requires=["x.shape[0] == y.shape[0]", "ncols(x) >= 1", "ncols(y) >= 1"],
             ensures=["result.shape[0] == x.shape[0]", "result.shape[1] == ncols(x) * ncols(y)",
                      "forall(0, x.shape[0], lambda r: forall(0, ncols(x), lambda a: forall(0, ncols(y), lambda b: "
                      "result[r, a * ncols(y) + b] == col(x, r, a) * col(y, r, b))))"],
             loops={1: Loop(havoc={"l": "list[arr1]"},
                            invariant=["0 <= _i1", "_i1 <= x.shape[1]", "len(l) == _i1 * y.shape[1]", "implies(len(l) > 0, l.rows == x.shape[0])",
                                       "forall(0, x.shape[0], lambda r: forall(0, _i1, lambda a: forall(0, y.shape[1], lambda b: "
                                       "l[a * y.shape[1] + b][r] == x[r, a] * y[r, b])))"]),
                    2: Loop(havoc={"l": "list[arr1]"},
                            invariant=["0 <= _i2", "_i2 <= y.shape[1]", "len(l) == _i1 * y.shape[1] + _i2", "implies(len(l) > 0, l.rows == x.shape[0])",
                                       "forall(0, x.shape[0], lambda r: forall(0, _i1, lambda a: forall(0, y.shape[1], lambda b: "
                                       "l[a * y.shape[1] + b][r] == x[r, a] * y[r, b])))",
                                       "forall(0, x.shape[0], lambda r: forall(0, _i2, lambda b: "
                                       "l[_i1 * y.shape[1] + b][r] == x[r, _i1] * y[r, b]))"])})

FUNCTIONS = [U_ + "get_interaction_matrix"]


ASSUMPTIONS = ['numpy externals assumed: x[:, newaxis], column indexing, elementwise product, column_stack of a list of vectors']

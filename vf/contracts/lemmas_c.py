"""Property lemmas: consequences of the function contracts, stated on small harness functions (vf/proplemmas/*.py) that only
call the real functions. pyvc verifies a harness like any function: every callee is replaced by its contract (call-pre
obligations, assumed postconditions), so a lemma is a machine-checked composition of contracts proved on the real code."""
import z3

from vf.pyvc import pandas_m
from vf.pyvc.arrays import SArr
from vf.pyvc.values import SOpaque
from .base import REG
from . import transforms_c, variable_c, scanner_c, parser_c          # noqa: F401
from .variable_c import nrows, rowval, codes, mode, warned, lab       # noqa: F401
from .categorical_c import label_of                                   # noqa: F401
from . import utils_c                                                 # noqa: F401
from .parser_c import covers, size, strat                             # noqa: F401
from .transforms_c import is_int                                      # noqa: F401

L = "vf.proplemmas."
T = "formulae.transforms."


def _take_rows(I, a, kw, node):
    """x.iloc[rows]: a series with one row per entry of rows, row i holding row rows[i] of x"""
    x, rows = a
    s = pandas_m.TSeries().fresh(I.ctx, "rowsel")
    i = z3.Int("tr_i")
    I.ctx.assume(pandas_m.series_len(s.t) == rows.n0)
    I.ctx.assume(z3.ForAll([i], z3.Implies(z3.And(0 <= i, i < rows.n0),
                                           pandas_m.series_val(s.t, i) == pandas_m.series_val(x.t, z3.ToInt(rows.at(i, z3.IntVal(0))))),
                           patterns=[pandas_m.series_val(s.t, i)]))
    return s


REG.externals[L + "helpers.take_rows"] = _take_rows
ROWS_OK = ["forall(0, rows.shape[0], lambda i: 0 <= rows[i] and rows[i] < {n} and is_int(rows[i]))"]

# ---- C06 -------------------------------------------------------------------------------------------------------------
for _f, _cls, _mod in (("center_rows", "Center", ["t.params_set", "t.mean"]), ("scale_rows", "Scale", ["t.params_set", "t.mean", "t.std"])):
    REG.contract(L + "c06." + _f, params={"t": T + _cls, "x": "arr1", "rows": "arr1"}, returns="any", tags=["C06"],
                 requires=["not t.params_set"] + [c.format(n="x.shape[0]") for c in ROWS_OK], modifies=_mod,
                 ensures=["result[1].shape[0] == rows.shape[0]",
                          "forall(0, rows.shape[0], lambda i: result[1][i] == result[0][rows[i]])"])
for _v, _cls in (("categoric_rows", "formulae.terms.variable.Variable"),):
    REG.contract(L + "c06." + _v, params={"v": _cls, "x": "series", "spans_intercept": "bool", "rows": "arr1"}, returns="any",
                 tags=["C06"],
                 requires=["nrows(x) >= 1", "not (v.is_response and v.reference is not None)"] + [c.format(n="nrows(x)") for c in ROWS_OK],
                 modifies=["v.levels", "v.contrast_matrix", "v.value", "v.spans_intercept"],
                 # no 'raises': whatever the configured mode, a selection of training rows never contains an unseen level
                 ensures=["not warned()", "result[1].shape[0] == rows.shape[0]", "result[1].shape[1] == result[0].shape[1]",
                          "forall(0, rows.shape[0], lambda i: forall(0, result[0].shape[1], lambda j: result[1][i, j] == result[0][rows[i], j]))"])

REG.contract(L + "c06.bspline_rows", params=dict(transforms_c.BS_PARAMS, t=T + "BSpline", rows="arr1"), returns="any", tags=["C06", "C14"],
             requires=["not t.params_set", "x.shape[0] >= 1", "rows.shape[0] >= 1"] + [c.format(n="x.shape[0]") for c in ROWS_OK],
             modifies=["t.params_set", "t._intercept", "t._degree", "t._knots"], raises={"ValueError": None},
             ensures=["result[1].shape[0] == rows.shape[0]", "result[1].shape[1] == result[0].shape[1]",
                      "implies(df is not None, result[1].shape[1] == df)",
                      "forall(0, rows.shape[0], lambda i: forall(0, result[0].shape[1], lambda c: result[1][i, c] == result[0][rows[i], c]))"])

# ---- C04 -------------------------------------------------------------------------------------------------------------
KEPT = "v.levels[j if spans_intercept else j + 1]"
for _cls, _tag in (("formulae.terms.variable.Variable", ""), ("formulae.terms.call.Call", "_call")):
    REG.contract(L + "c04.main_effect" + ("#call" if _tag else ""), of=L + "c04.main_effect",
                 params={"v": _cls, "x": "series", "spans_intercept": "bool"}, returns="any", tags=["C04"],
                 requires=["nrows(x) >= 1", "v.kind == 'categoric'"] + (["not v.is_response"] if not _tag else []),
                 modifies=["v.levels", "v.contrast_matrix", "v.value", "v.spans_intercept"],
                 ensures=["len(result[1]) == result[0].shape[1]", "result[0].shape[0] == nrows(x)",
                          f"forall(0, len(result[1]), lambda j: result[1][j] == lab(v.name, label_of({KEPT})))",
                          f"forall(0, nrows(x), lambda r: forall(0, len(result[1]), lambda j: "
                          f"result[0][r, j] == (1 if rowval(x, r) == {KEPT} else 0)))"])
REG.contract(L + "c04.pair_interaction", params={"a": "formulae.terms.variable.Variable", "b": "formulae.terms.variable.Variable",
                                                 "xa": "series", "xb": "series"}, returns="arr2", tags=["C04"],
             requires=["nrows(xa) >= 1", "nrows(xb) == nrows(xa)", "not a.is_response", "not b.is_response"],
             modifies=[f"{o}.{f}" for o in "ab" for f in ("levels", "contrast_matrix", "value", "spans_intercept")],
             ensures=["result.shape[0] == nrows(xa)", "result.shape[1] == len(a.levels) * len(b.levels)",
                      "forall(0, nrows(xa), lambda r: forall(0, len(a.levels), lambda i: forall(0, len(b.levels), lambda j: "
                      "result[r, i * len(b.levels) + j] == (1 if rowval(xa, r) == a.levels[i] and rowval(xb, r) == b.levels[j] else 0))))"])

# ---- C17 -------------------------------------------------------------------------------------------------------------
from . import matrices_c                                                                      # noqa: E402
from .matrices_c import terms_of, widths, psum, WF as M_WF                                     # noqa: E402,F401
for _cls in ("CommonEffectsMatrix", "GroupEffectsMatrix"):
    REG.contract(L + "c17.block_view" + ("" if _cls.startswith("Common") else "#group"), of=L + "c17.block_view",
                 params={"m": "formulae.matrices." + _cls, "data": "any", "env": "any", "name": "str", "k": "int"}, returns="arr2",
                 tags=["C17"],
                 requires=[c.replace("self", "m") for c in M_WF] + ["0 <= k", "k < len(terms_of(m))", "name == terms_of(m)[k].name"],
                 modifies=["m.data", "m.env", "m.design_matrix", "m.slices", "m.evaluated"],
                 ensures=["result.shape[0] == terms_of(m)[0].data.shape[0]",
                          # (the prefix sums are named so that their definitions are unfolded at the positions needed)
                          "result.shape[1] == psum(widths(m), k + 1) - psum(widths(m), k) and result.shape[1] == widths(m)[k]",
                          "implies(psum(widths(m), k + 1) - psum(widths(m), k) == widths(m)[k], "
                          "forall(0, result.shape[0], lambda r: forall(0, widths(m)[k], lambda c: result[r, c] == terms_of(m)[k].data[r, c])))"])

# ---- C01 -------------------------------------------------------------------------------------------------------------
REG.inline.add("formulae.scanner.Scanner.__init__")
REG.inline.add("formulae.parser.Parser.__init__")
REG.contract(L + "c01.scan_then_parse", params={"code": "list[char]"}, returns="Expr", tags=["C01"],
             requires=["len(code) >= 1"], raises={"ScanError": None, "IndexError": None, "ParseError": None},
             ensures=["result is not None", "strat(result)"])

# ---- C03 -------------------------------------------------------------------------------------------------------------
from . import contrasts_c                                                                     # noqa: E402,F401
from .contrasts_c import the, setminus, with_elem                                             # noqa: E402,F401
from formulae.contrasts import ExpandedFactor                                                 # noqa: E402,F401
_CAN = "(len(long.efactors) - len(short.efactors) == 1 and short.efactors <= long.efactors)"
_EXTRA3 = "the(setminus(long.efactors, short.efactors))"
REG.contract(L + "c03.merge_step", params={"long": "formulae.contrasts.Subterm", "short": "formulae.contrasts.Subterm"}, returns="efset",
             tags=["C03"],
             # the factor that would be absorbed is still reduced-coded (the caller's invariant; not proved for the loops of pick_contrast)
             requires=[f"(not {_CAN}) or (not {_EXTRA3}.includes_intercept)"],
             ensures=[f"implies({_CAN}, result == with_elem(short.efactors, ExpandedFactor(True, {_EXTRA3}.factor)))",
                      f"implies(not {_CAN}, result == short.efactors)",
                      "short.efactors <= result",
                      "long.efactors == old(long.efactors)", "short.efactors == old(short.efactors)"])

# ---- C16 -------------------------------------------------------------------------------------------------------------
from . import offset_c                                                                        # noqa: E402,F401
REG.contract(L + "c16.constant_offset", params={"x": "real", "size": "int"}, returns="arr2", tags=["C16"], requires=["size >= 0"],
             ensures=["result.shape[0] == size", "result.shape[1] == 1", "forall(0, size, lambda r: result[r, 0] == x)"])

FUNCTIONS = [L + "c16.constant_offset", L + "c03.merge_step", L + "c06.center_rows", L + "c06.scale_rows", L + "c06.categoric_rows", L + "c06.bspline_rows", L + "c01.scan_then_parse",
             L + "c04.main_effect", L + "c04.main_effect#call", L + "c04.pair_interaction", L + "c17.block_view", L + "c17.block_view#group"]
ASSUMPTIONS = ["property lemmas are verified on harness functions under /verif/vf/proplemmas that only call the real functions; each "
               "callee is represented by its contract (proved separately on the real source)",
               "x.iloc[rows] of a Series: row i of the selection is row rows[i] of x (assumed; validated by ext-valid)"]

"""Contracts for the interaction operators of the term algebra on Models (formulae/terms/terms.py) - C02:
`(A) : (B)` and `(A) : t` are the set of pairwise interactions, each once.

Terms inside a Model are opaque values (as in terms_c). The interaction of two terms, `Term(*a.components, *b.components)`, is the
value-level function `inter(a, b)`: an uninterpreted function of the two component sequences (what Term.__init__ does with the joined
sequence - ordered, duplicate-free factors - is verified in terms_c on the class itself). What is proved here is the *set* structure
the property states: every pair occurs, nothing else occurs, nothing occurs twice, the operands are left untouched and the result is
a new Model without group terms.

`itertools.product(A, B)` is modelled by its defining property, as a list of pairs P with
    for every k:     P[k] = (A[i], B[j]) for some i, j in range        (witnesses are Skolem functions of k)
    for every i, j:  (A[i], B[j]) = P[k]   for some k in range         (witness a Skolem function of i, j)
- the order of the pairs, and the length |A|*|B|, are not modelled (C02 speaks of sets; no nonlinear arithmetic).
"""
import itertools

import z3

from formulae.terms.terms import Term, Model                  # noqa: F401

from vf.pyvc.values import SOpaque, SData, SList, TData, Star, Unsupported
from vf.pyvc.opaque import ufun, U
from .base import REG
from . import terms_c, algebra_c        # noqa: F401  (algebra_c registers its own Term model first; the one below extends it)
from .terms_c import INV_M, INV_O, NODUP, is_a                # noqa: F401

T = "formulae.terms.terms."

(PAIR,) = REG.declare_datatypes([dict(name="TermPair", ctors=[("Pair", None, [("fst", "any"), ("snd", "any")])])])


def _pair_getitem(I, base, idx, node):
    if idx == 0:
        return SOpaque(PAIR.accessor("Pair", "fst")(base.t), "any")
    if idx == 1:
        return SOpaque(PAIR.accessor("Pair", "snd")(base.t), "any")
    raise Unsupported("index of a pair other than 0 / 1")


PAIR.getitem = _pair_getitem


def _as_slist(I, v):
    if isinstance(v, SList):
        return v
    if isinstance(v, (list, tuple)):          # a literal list: a named array holding exactly these elements
        ety = REG.type("any")
        arr = I.ctx.fresh("lit", z3.ArraySort(z3.IntSort(), ety.sort()))
        for k, x in enumerate(v):
            I.ctx.assume(arr[k] == ety.unwrap(x, I.ctx))
        return SList(z3.IntVal(len(v)), arr, ety)
    if isinstance(v, SOpaque):          # a sequence nothing is known about: some list
        return REG.type("list[any]").fresh(I.ctx, "oseq")
    raise Unsupported(f"product() of something that is not a list: {v!r}")


def _m_product(I, a, kw, node):
    if len(a) != 2 or kw:
        raise Unsupported("itertools.product with other than two sequences")
    A, B = _as_slist(I, a[0]), _as_slist(I, a[1])
    ety = TData(PAIR)
    n = I.ctx.fresh("prod_len", z3.IntSort())
    arr = I.ctx.fresh("prod", z3.ArraySort(z3.IntSort(), PAIR.sort))
    tag = str(n)
    pi = z3.Function(f"prod.i!{tag}", z3.IntSort(), z3.IntSort())
    pj = z3.Function(f"prod.j!{tag}", z3.IntSort(), z3.IntSort())
    pk = z3.Function(f"prod.k!{tag}", z3.IntSort(), z3.IntSort(), z3.IntSort())
    k, i, j = z3.Ints("pr_k pr_i pr_j")
    I.ctx.assume(n >= 0)
    I.ctx.assume(z3.ForAll([k], z3.Implies(z3.And(0 <= k, k < n), z3.And(
        0 <= pi(k), pi(k) < A.len, 0 <= pj(k), pj(k) < B.len, arr[k] == PAIR.make("Pair", A.arr[pi(k)], B.arr[pj(k)]))), patterns=[arr[k]]))
    body = z3.Implies(z3.And(0 <= i, i < A.len, 0 <= j, j < B.len), z3.And(
        0 <= pk(i, j), pk(i, j) < n, arr[pk(i, j)] == PAIR.make("Pair", A.arr[i], B.arr[j])))
    try:        # 'the pair (A[i], B[j]) occurs' is instantiated wherever both elements are mentioned
        ax = z3.ForAll([i, j], body, patterns=[z3.MultiPattern(A.arr[i], B.arr[j]), pk(i, j)])
    except z3.Z3Exception:          # (an operand that is not a named array, e.g. a slice: no such trigger)
        ax = z3.ForAll([i, j], body, patterns=[pk(i, j)])
    I.ctx.assume(ax)
    return SList(n, arr, ety)


REG.external_objects[itertools.product] = _m_product

_COMPS = z3.IntVal(__import__("vf.pyvc.values", fromlist=["intern"]).intern("components"))
_MK2 = ufun("mk.Term2", U(), U(), U())


def _comps(t):
    return ufun("U!attr", U(), z3.IntSort(), U())(t, _COMPS)


def _m_Term(I, a, kw, node):
    """Term(*x.components, *y.components) on opaque terms x, y: the value inter(x, y). Any other way of calling Term here is refused."""
    if len(a) == 2 and all(isinstance(p, Star) and isinstance(p.seq, SOpaque) for p in a) and not kw:
        return SOpaque(_MK2(a[0].seq.t, a[1].seq.t), "any")
    if len(a) == 1 and not isinstance(a[0], Star):
        return terms_c_Term1(I, a, kw, node)
    raise Unsupported("Term(...) called in a way the operator contracts do not model")


def terms_c_Term1(I, a, kw, node):
    return algebra_c._m_Term(I, a, kw, node)


REG.external_objects[Term] = _m_Term


def inter(a, b):
    """the interaction term of two terms (specification helper; executable on real Term objects)"""
    return Term(*a.components, *b.components)


def _m_inter(I, a, kw, node):
    x, y = (REG.type("any").unwrap(v, I.ctx) for v in a)
    return SOpaque(_MK2(_comps(x), _comps(y)), "any")


REG.externals[f"{__name__}.inter"] = _m_inter


def inter_facts(reg, twin=False):
    """Term(...) is a Term (and nothing else, by class_facts)."""
    x, y = z3.Consts("if_x if_y", U())
    return z3.ForAll([x, y], ufun("isinst!Term", U(), z3.BoolSort())(_MK2(x, y)), patterns=[_MK2(x, y)])


REG.lemmas.append(inter_facts)

ALL_TERMS = "forall(0, len({m}.common_terms), lambda k: is_a({m}.common_terms[k], 'Term'))"
# every pair's interaction is in the result, and every element of the result is the interaction of some pair (two directions, stated
# separately so that each has an obvious witness)
PAIRS_IN = ("forall(0, len(self.common_terms), lambda i: forall(0, len(other.common_terms), lambda j: "
            "inter(self.common_terms[i], other.common_terms[j]) in result.common_terms))")
PAIRS_ONLY = ("forall(0, len(result.common_terms), lambda k: exists(0, len(self.common_terms), lambda i: "
              "exists(0, len(other.common_terms), lambda j: result.common_terms[k] == inter(self.common_terms[i], other.common_terms[j]))))")
REG.contract(T + "Model.__matmul__#model", of=T + "Model.__matmul__", params={"other": T + "Model"}, returns=T + "Model", tags=["C02"],
             requires=INV_M + [ALL_TERMS.format(m="self"), ALL_TERMS.format(m="other")],
             ensures=["result is not self", "result is not other", NODUP.format(L="result.common_terms"), "len(result.group_terms) == 0", PAIRS_IN, PAIRS_ONLY,
                      "self.common_terms == old(self.common_terms)", "other.common_terms == old(other.common_terms)"])
PAIRS_T_IN = "forall(0, len(self.common_terms), lambda i: inter(self.common_terms[i], other) in result.common_terms)"
PAIRS_T_ONLY = ("forall(0, len(result.common_terms), lambda k: exists(0, len(self.common_terms), lambda i: "
                "result.common_terms[k] == inter(self.common_terms[i], other)))")
REG.contract(T + "Model.__matmul__", params={"other": "any"}, returns=T + "Model", tags=["C02"],
             requires=INV_M + [ALL_TERMS.format(m="self"), "is_a(other, 'Term')"],
             ensures=["result is not self", NODUP.format(L="result.common_terms"), "len(result.group_terms) == 0", PAIRS_T_IN, PAIRS_T_ONLY,
                      "self.common_terms == old(self.common_terms)"])

FUNCTIONS = [T + "Model.__matmul__#model", T + "Model.__matmul__"]
ASSUMPTIONS = ["itertools.product(A, B) is modelled by its defining property as a set of pairs (every pair of elements occurs, nothing else "
               "occurs); the order and the number of pairs are not modelled",
               "Term(*a.components, *b.components) on terms held in a Model is an uninterpreted function inter(a, b) of the two component "
               "sequences, and is a Term; what Term.__init__ does with the joined sequence is verified in terms_c"]

"""Contracts for formulae/config.py (C10: the configuration accepts only its documented keys and values)."""
from formulae.config import Config

from vf.pyvc.registry import Registry

from .base import REG
REG.declare_class("formulae.config.Config", {"EVAL_UNSEEN_CATEGORIES": "str"})
C = "formulae.config.Config."
TAGS = ["C10", "C07"]

REG.contract(C + "__setattr__", params={"key": "str", "value": "str"}, tags=TAGS,
             modifies=["self.EVAL_UNSEEN_CATEGORIES"],
             raises={"KeyError": "key not in Config.FIELDS",
                     "ValueError": "key in Config.FIELDS and value not in Config.FIELDS[key]"},
             ensures=["key == 'EVAL_UNSEEN_CATEGORIES'", "self.EVAL_UNSEEN_CATEGORIES == value",
                      "value in ('error', 'warning', 'silent')"])
REG.contract(C + "__setitem__", params={"key": "str", "value": "str"}, tags=TAGS,
             modifies=["self.EVAL_UNSEEN_CATEGORIES"],
             raises={"KeyError": "key not in Config.FIELDS",
                     "ValueError": "key in Config.FIELDS and value not in Config.FIELDS[key]"},
             ensures=["self.EVAL_UNSEEN_CATEGORIES == value", "value in ('error', 'warning', 'silent')"])
REG.contract(C + "__getitem__", params={"key": "str"}, returns="str", tags=TAGS,
             requires=["key == 'EVAL_UNSEEN_CATEGORIES'"],
             ensures=["result == self.EVAL_UNSEEN_CATEGORIES"])
REG.contract(C + "__init__", params={"config_dict": "None"}, tags=TAGS, modifies=["self.EVAL_UNSEEN_CATEGORIES"],
             ensures=["self.EVAL_UNSEEN_CATEGORIES == 'error'"])

FUNCTIONS = [C + f for f in ("__setattr__", "__setitem__", "__getitem__", "__init__")]


ASSUMPTIONS = []

"""Contracts for formulae/parser.py (C01, C12, C15): every nonterminal function against the
operator-precedence grammar of the property statement.

Spec functions are ordinary Python over the *real* AST classes (so they also run on real parser
output); pyvc translates the same text to z3 recursive functions over the datatypes below.
"""
import z3

from formulae.expr import Assign, Grouping, Binary, Unary, Call, Variable, QuotedName, Literal
from formulae.token import Token

from vf.pyvc.registry import Registry, Loop
from vf.pyvc.values import SData, SStr, SInt, SReal, SBool, TData, Unsupported, intern

from .base import REG


# ---------------------------------------------------------------------------------------------
# datatypes
def _coerce_val(dt, v, ctx):
    if v is None:
        return dt.make("VNone")
    if isinstance(v, bool):
        return dt.make("VBool", z3.BoolVal(v))
    if isinstance(v, int):
        return dt.make("VInt", z3.IntVal(v))
    if isinstance(v, float):
        return dt.make("VReal", z3.RealVal(repr(v)))
    if isinstance(v, str):
        return dt.make("VStr", z3.IntVal(intern(v)))
    if isinstance(v, SBool):
        return dt.make("VBool", v.t)
    if isinstance(v, SInt):
        return dt.make("VInt", v.t)
    if isinstance(v, SReal):
        return dt.make("VReal", v.t)
    if isinstance(v, SStr):
        return z3.If(v.t == -1, dt.make("VNone"), dt.make("VStr", v.t)) if v.optional else dt.make("VStr", v.t)
    from vf.pyvc.values import SOpaque, SList
    if isinstance(v, SOpaque):
        return dt.make("VAny", v.t)
    if isinstance(v, SList) and type(v.elem).__name__ == "TChar":
        from vf.pyvc.chars import text_id
        return dt.make("VStr", text_id(v))
    return None


def _coerce_exprlist(dt, v, ctx):
    if isinstance(v, (list, tuple)):
        t = dt.make("Nil")
        ety = REG.type("Expr")
        for x in v:
            t = dt.make("Snoc", t, ety.unwrap(x, ctx))
        return t
    return None


VAL, = REG.declare_datatypes([dict(name="Val", ctors=[
    ("VNone", None, []), ("VInt", None, [("i", "int")]), ("VReal", None, [("r", "real")]),
    ("VStr", None, [("s", "str")]), ("VBool", None, [("b", "bool")]), ("VAny", None, [("u", "any")])], coerce=_coerce_val)])


def _val_isinstance(dt, t, c):
    if c is str:
        return dt.recognizer("VStr")(t)
    if c is bool:
        return dt.recognizer("VBool")(t)
    if c is int:
        return z3.Or(dt.recognizer("VInt")(t), dt.recognizer("VBool")(t))
    if c is float:
        return dt.recognizer("VReal")(t)
    return None


VAL.isinstance_hook = _val_isinstance


def _val_eq(dt, t, o, ctx):
    """Python's == between a literal value and a number compares numerically across int / float / bool (0 == 0.0 == False)."""
    if isinstance(o, bool) or not isinstance(o, (int, float)):
        return None
    c = z3.RealVal(repr(float(o))) if isinstance(o, float) else z3.IntVal(o)
    as_int = isinstance(o, int) or float(o).is_integer()
    iv = z3.IntVal(int(o)) if as_int else None
    parts = [z3.And(dt.recognizer("VReal")(t), dt.accessor("VReal", "r")(t) == (z3.ToReal(c) if isinstance(o, int) else c))]
    if as_int:
        parts.append(z3.And(dt.recognizer("VInt")(t), dt.accessor("VInt", "i")(t) == iv))
        if int(o) in (0, 1):
            parts.append(z3.And(dt.recognizer("VBool")(t), dt.accessor("VBool", "b")(t) == z3.BoolVal(bool(int(o)))))
    return z3.Or(*parts)


VAL.eq_hook = _val_eq

TOK, = REG.declare_datatypes([dict(name="Tok", none="NoTok", ctors=[
    ("NoTok", None, []),
    ("Token", "formulae.token.Token", [("kind", "str"), ("lexeme", "str"), ("literal", "Val")], {"literal": None})])])

EXPR, EXPRLIST = REG.declare_datatypes([
    dict(name="Expr", none="NoneE", ctors=[
        ("NoneE", None, []),
        ("Assign", "formulae.expr.Assign", [("name", "Expr"), ("value", "Expr")]),
        ("Grouping", "formulae.expr.Grouping", [("expression", "Expr")]),
        ("Binary", "formulae.expr.Binary", [("left", "Expr"), ("operator", "Tok"), ("right", "Expr")]),
        ("Unary", "formulae.expr.Unary", [("operator", "Tok"), ("right", "Expr")]),
        ("Call", "formulae.expr.Call", [("callee", "Expr"), ("args", "ExprList")]),
        ("Variable", "formulae.expr.Variable", [("name", "Tok"), ("level", "Expr?")], {"level": None}),
        ("QuotedName", "formulae.expr.QuotedName", [("expression", "Tok")]),
        ("Literal", "formulae.expr.Literal", [("value", "Val"), ("lexeme", "str?")], {"lexeme": None}),
    ]),
    dict(name="ExprList", coerce=_coerce_exprlist, ctors=[
        ("Nil", None, []), ("Snoc", None, [("init", "ExprList"), ("last", "Expr")])]),
])


def _append(I, obj, args):
    return SData(EXPRLIST.make("Snoc", obj.t, REG.type("Expr").unwrap(args[0], I.ctx)), obj.ty)


EXPRLIST.mutators = {"append": _append}

REG.declare_class("formulae.parser.Parser", {"tokens": "list[Tok]", "current": "int"})


# ---------------------------------------------------------------------------------------------
# list helpers usable on real lists and on the ExprList datatype
def is_nil(args):
    return len(args) == 0


def init(args):
    return args[:-1]


def last(args):
    return args[-1]


def _ext(fn):
    def model(I, a, kw, node):
        v = a[0]
        if isinstance(v, (list, tuple)):
            v = SData(EXPRLIST.coerce(v, I.ctx), TData(EXPRLIST))
        if fn == "is_nil":
            from vf.pyvc.ops import bool_val
            return bool_val(EXPRLIST.recognizer("Nil")(v.t))
        if fn == "init":
            return SData(EXPRLIST.accessor("Snoc", "init")(v.t), TData(EXPRLIST))
        return SData(EXPRLIST.accessor("Snoc", "last")(v.t), REG.type("Expr"))
    return model


for _n in ("is_nil", "init", "last"):
    REG.externals[f"{__name__}.{_n}"] = _ext(_n)

# ---------------------------------------------------------------------------------------------
# precedence classes taken from the property statement (C01):
# ~ lowest, then |, comparisons, + -, * /, :, **, unary sign, call/atom highest; '=' below all.
ASSIGN, TILDE, PIPE, CMP, ADD, MUL, COLON, POW, UNARY, ATOM = range(10)
CMP_KINDS = ("EQUAL_EQUAL", "BANG_EQUAL", "LESS_EQUAL", "LESS", "GREATER_EQUAL", "GREATER")


@REG.spec([("k", "str")], "int")
def binlvl(k):
    return (1 if k == "TILDE" else 2 if k == "PIPE" else 3 if k in CMP_KINDS
            else 4 if k in ("PLUS", "MINUS") else 5 if k in ("STAR", "SLASH")
            else 6 if k == "COLON" else 7 if k == "STAR_STAR" else -1)


@REG.spec([("e", "Expr")], "int")
def lvl(e):
    return (0 if isinstance(e, Assign) else binlvl(e.operator.kind) if isinstance(e, Binary)
            else 8 if isinstance(e, Unary) else 9)


@REG.spec([("T", "list[Tok]"), ("e", "Expr"), ("a", "int")], "int")
def size(T, e, a):
    return (size(T, e.left, a) + 1 + size(T, e.right, a + size(T, e.left, a) + 1) if isinstance(e, Binary)
            else 1 + size(T, e.right, a + 1) if isinstance(e, Unary)
            else size(T, e.expression, a + 1) + 2 if isinstance(e, Grouping)
            else size(T, e.name, a) + 1 + size(T, e.value, a + size(T, e.name, a) + 1) if isinstance(e, Assign)
            else ((size(T, last(e.args), a + 1) + 2)
                  if (T[a].kind == "LEFT_BRACE" and isinstance(e.callee, Variable))
                  else size(T, e.callee, a) + 1 + args_size(T, e.args, a + size(T, e.callee, a) + 1) + 1)
            if isinstance(e, Call)
            else (1 if e.level is None else 3 + lvl_size(T, e.level, a + 2)) if isinstance(e, Variable)
            else 1)


@REG.spec([("T", "list[Tok]"), ("lv", "Expr"), ("a", "int")], "int")
def lvl_size(T, lv, a):
    return 1 if T[a].kind == "IDENTIFIER" else size(T, lv, a)


@REG.spec([("T", "list[Tok]"), ("args", "ExprList"), ("b", "int")], "int")
def args_size(T, args, b):
    return (0 if is_nil(args)
            else size(T, last(args), b) if is_nil(init(args))
            else args_size(T, init(args), b) + 1 + size(T, last(args), b + args_size(T, init(args), b) + 1))


@REG.spec([("T", "list[Tok]"), ("e", "Expr"), ("a", "int")], "bool")
def covers(T, e, a):
    return ((covers(T, e.left, a) and T[a + size(T, e.left, a)] == e.operator
             and covers(T, e.right, a + size(T, e.left, a) + 1)) if isinstance(e, Binary)
            else (T[a] == e.operator and covers(T, e.right, a + 1)) if isinstance(e, Unary)
            else (T[a].kind == "LEFT_PAREN" and covers(T, e.expression, a + 1)
                  and T[a + 1 + size(T, e.expression, a + 1)].kind == "RIGHT_PAREN") if isinstance(e, Grouping)
            else (covers(T, e.name, a) and T[a + size(T, e.name, a)].kind == "EQUAL"
                  and covers(T, e.value, a + size(T, e.name, a) + 1)) if isinstance(e, Assign)
            else ((e.callee == Variable(Token("IDENTIFIER", "I"))
                   and not is_nil(e.args) and is_nil(init(e.args))
                   and covers(T, last(e.args), a + 1)
                   and T[a + 1 + size(T, last(e.args), a + 1)].kind == "RIGHT_BRACE")
                  if (T[a].kind == "LEFT_BRACE" and isinstance(e.callee, Variable))
                  else (covers(T, e.callee, a) and T[a + size(T, e.callee, a)].kind == "LEFT_PAREN"
                        and args_covers(T, e.args, a + size(T, e.callee, a) + 1)
                        and T[a + size(T, e.callee, a) + 1
                              + args_size(T, e.args, a + size(T, e.callee, a) + 1)].kind == "RIGHT_PAREN"))
            if isinstance(e, Call)
            else (T[a] == e.name and T[a].kind == "IDENTIFIER"
                  and (True if e.level is None
                       else (T[a + 1].kind == "LEFT_BRACKET" and lvl_covers(T, e.level, a + 2)
                             and T[a + 2 + lvl_size(T, e.level, a + 2)].kind == "RIGHT_BRACKET")))
            if isinstance(e, Variable)
            else (T[a] == e.expression and T[a].kind == "BQNAME") if isinstance(e, QuotedName)
            else ((T[a].kind == "NUMBER" and e.value == T[a].literal and e.lexeme is None)
                  or (T[a].kind == "STRING" and e.value == T[a].literal and e.lexeme == T[a].lexeme)
                  or (T[a].kind == "PYTHON_LITERAL" and e.value == T[a].literal and e.lexeme is None))
            if isinstance(e, Literal)
            else False)


@REG.spec([("T", "list[Tok]"), ("lv", "Expr"), ("a", "int")], "bool")
def lvl_covers(T, lv, a):
    return (lv == Literal(T[a].lexeme) if T[a].kind == "IDENTIFIER"
            else (covers(T, lv, a) and lvl(lv) >= 9))


@REG.spec([("T", "list[Tok]"), ("args", "ExprList"), ("b", "int")], "bool")
def args_covers(T, args, b):
    return (True if is_nil(args)
            else covers(T, last(args), b) if is_nil(init(args))
            else (args_covers(T, init(args), b) and T[b + args_size(T, init(args), b)].kind == "COMMA"
                  and covers(T, last(args), b + args_size(T, init(args), b) + 1)))


@REG.spec([("e", "Expr")], "bool")
def strat(e):
    return ((strat(e.left) and strat(e.right) and lvl(e) >= 1 and lvl(e.left) >= lvl(e)
             and lvl(e.right) >= lvl(e) + 1) if isinstance(e, Binary)
            else (e.operator.kind in ("PLUS", "MINUS") and strat(e.right) and lvl(e.right) >= 8)
            if isinstance(e, Unary)
            else strat(e.expression) if isinstance(e, Grouping)
            else (isinstance(e.name, Variable) and strat(e.name) and strat(e.value) and lvl(e.value) >= 1)
            if isinstance(e, Assign)
            else (strat(e.callee) and lvl(e.callee) >= 9 and args_strat(e.args)) if isinstance(e, Call)
            else (True if e.level is None else strat(e.level)) if isinstance(e, Variable)
            else True)


@REG.spec([("args", "ExprList")], "bool")
def args_strat(args):
    return True if is_nil(args) else (args_strat(init(args)) and strat(last(args)))


# ---------------------------------------------------------------------------------------------
# contracts
P = "formulae.parser.Parser."
WF = ["len(self.tokens) >= 1",
      "self.tokens[len(self.tokens) - 1].kind == 'EOF'",
      "forall(0, len(self.tokens) - 1, lambda i: self.tokens[i].kind != 'EOF')",
      "forall(0, len(self.tokens), lambda i: self.tokens[i] is not None)",
      "0 <= self.current",
      "self.current <= len(self.tokens) - 1"]
TAGS = ["C01", "C12", "C15"]


def nonterminal_post(level):
    return ["self.current == old(self.current) + size(self.tokens, result, old(self.current))",
            "size(self.tokens, result, old(self.current)) >= 1",
            "self.current <= len(self.tokens) - 1",
            "covers(self.tokens, result, old(self.current))",
            f"lvl(result) >= {level}",
            "strat(result)"]


def loop_inv(var, level, c0="old(self.current)"):
    return [f"self.current == {c0} + size(self.tokens, {var}, {c0})",
            f"size(self.tokens, {var}, {c0}) >= 1",
            "self.current <= len(self.tokens) - 1",
            f"covers(self.tokens, {var}, {c0})",
            f"lvl({var}) >= {level}",
            f"strat({var})"]


REG.contract(P + "at_end", returns="bool", requires=WF, tags=TAGS,
             ensures=["result == (self.tokens[self.current].kind == 'EOF')"])
REG.contract(P + "peek", returns="Tok", requires=WF, tags=TAGS,
             ensures=["result == self.tokens[self.current]"])
REG.contract(P + "previous", returns="Tok", requires=WF + ["self.current >= 1"], tags=TAGS,
             ensures=["result == self.tokens[self.current - 1]"])
REG.contract(P + "advance", returns="Tok?", requires=WF, modifies=["self.current"], tags=TAGS,
             ensures=["implies(self.tokens[old(self.current)].kind != 'EOF', "
                      "self.current == old(self.current) + 1 and result == self.tokens[old(self.current)])",
                      "implies(self.tokens[old(self.current)].kind == 'EOF', "
                      "self.current == old(self.current) and result is None)"])
# small helpers are verified in the context of each caller (inlined)
for _h in ("check", "match", "consume"):
    REG.contract(P + _h, inline=True, tags=TAGS)
REG.contract("formulae.utils.listify", inline=True, tags=TAGS)

RAISES = {"ParseError": None}


def binary_level(fn, level, ):
    REG.contract(P + fn, returns="Expr", requires=WF, modifies=["self.current"], raises=RAISES, tags=TAGS,
                 ensures=nonterminal_post(level),
                 loops={1: Loop(invariant=loop_inv("expr", level),
                                decreases="len(self.tokens) - self.current")})


binary_level("random_effect", PIPE)
binary_level("comparison", CMP)
binary_level("addition", ADD)
binary_level("multiplication", MUL)
binary_level("interaction", COLON)
binary_level("multiple_interaction", POW)

REG.contract(P + "tilde", returns="Expr", requires=WF, modifies=["self.current"], raises=RAISES, tags=TAGS,
             ensures=nonterminal_post(TILDE))
REG.contract(P + "assignment", returns="Expr", requires=WF, modifies=["self.current"], raises=RAISES, tags=TAGS,
             ensures=nonterminal_post(ASSIGN))
REG.contract(P + "expression", returns="Expr", requires=WF, modifies=["self.current"], raises=RAISES, tags=TAGS,
             ensures=nonterminal_post(ASSIGN))
REG.contract(P + "unary", returns="Expr", requires=WF, modifies=["self.current"], raises=RAISES, tags=TAGS,
             ensures=nonterminal_post(UNARY))
REG.contract(P + "call", returns="Expr", requires=WF, modifies=["self.current"], raises=RAISES, tags=TAGS,
             ensures=nonterminal_post(ATOM),
             loops={1: Loop(invariant=loop_inv("expr", ATOM))})
REG.contract(P + "primary", returns="Expr", requires=WF, modifies=["self.current"], raises=RAISES, tags=TAGS,
             ensures=nonterminal_post(ATOM) + [
                 # a Call built by primary is the brace form {e} = I(e)
                 "implies(isinstance(result, Call), self.tokens[old(self.current)].kind == 'LEFT_BRACE')"])
REG.contract(
    P + "finishcall", params={"expr": "Expr"}, returns="Expr", modifies=["self.current"], raises=RAISES, tags=TAGS,
    requires=WF + ["self.current >= 1", "self.tokens[self.current - 1].kind == 'LEFT_PAREN'"],
    ensures=["isinstance(result, Call)", "result.callee == expr",
             "args_covers(self.tokens, result.args, old(self.current))",
             "self.current == old(self.current) + args_size(self.tokens, result.args, old(self.current)) + 1",
             "self.tokens[self.current - 1].kind == 'RIGHT_PAREN'",
             "args_size(self.tokens, result.args, old(self.current)) >= 0",
             "self.current <= len(self.tokens) - 1",
             "args_strat(result.args)"],
    loops={1: Loop(havoc={"args": "ExprList"},
                   invariant=["self.current == old(self.current) + (0 if is_nil(args) else "
                              "args_size(self.tokens, args, old(self.current)) + 1)",
                              "args_covers(self.tokens, args, old(self.current))",
                              "implies(not is_nil(args), self.tokens[self.current - 1].kind == 'COMMA')",
                              "implies(not is_nil(args), args_size(self.tokens, args, old(self.current)) >= 1)",
                              "args_strat(args)",
                              "self.current <= len(self.tokens) - 1"])})
REG.contract(P + "parse", returns="Expr", modifies=["self.current"], raises=RAISES, tags=["C01"],
             requires=WF + ["self.current == 0"],
             ensures=["covers(self.tokens, result, 0)",
                      "size(self.tokens, result, 0) == len(self.tokens) - 1",
                      "strat(result)"])

FUNCTIONS = [P + f for f in (
    "at_end", "peek", "previous", "advance", "parse", "expression", "assignment", "tilde", "random_effect",
    "comparison", "addition", "multiplication", "interaction", "multiple_interaction", "unary", "call",
    "finishcall", "primary")]


ASSUMPTIONS = ['Parser.check/match/consume and utils.listify are inlined into their callers (no separate contract)',
               'termination of the mutually recursive nonterminals is not proved']

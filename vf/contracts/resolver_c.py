"""Contracts for CallResolver (formulae/terms/call_resolver.py) - C12: the lazy object built for a call's arguments mirrors
the parsed expression node by node, with exactly Python's operator for every operator token.

`lazy_of(e)` is the specification: ordinary Python over the real AST classes that builds the real lazy objects (so the
bounded tier runs it against the real resolver), and - through the models below - a z3 recursive function into the
datatype `Lazy`. The operator table inside it is transcribed from Python's grammar (what the spelled symbol means in
Python), not from the code's BINARY_OPERATORS / UNARY_OPERATORS.

Every visit method gets the same contract (result == lazy_of(expr), CallResolverError iff an operator of the expression
has no Python counterpart), and so does `accept` on an expression node (dynamic dispatch): each of the seven real
`accept` methods is verified against that uniform contract, and call sites use it without a case split.
Termination of the mutual recursion accept <-> visit is not proved (partial correctness).
"""
import operator

import z3

from formulae.expr import Assign, Grouping, Binary, Unary, Call, Variable, QuotedName, Literal   # noqa: F401
from formulae.terms import call_resolver as cr
from formulae.terms.call_resolver import LazyOperator, LazyVariable, LazyValue, LazyCall            # noqa: F401

from vf.pyvc.registry import Loop
from vf.pyvc.values import SData, SStr, SList, TData, TInt, Unsupported, intern
from vf.pyvc.ops import str_term
from .base import REG
from . import parser_c                                     # noqa: F401  (Expr / ExprList / Tok / Val datatypes)
from .parser_c import is_nil, init, last, EXPRLIST          # noqa: F401

R = "formulae.terms.call_resolver."


# ---------------------------------------------------------------------------------------------
# datatypes: the lazy objects as immutable values
def _coerce_lazylist(dt, v, ctx):
    if isinstance(v, (list, tuple)):
        t = dt.make("LNil")
        for x in v:
            t = dt.make("LSnoc", t, REG.type("Lazy").unwrap(x, ctx))
        return t
    return None


def _coerce_kwlist(dt, v, ctx):
    if isinstance(v, dict) and not v:
        return dt.make("KNil")
    return None


LAZY, LAZYLIST, KWLIST = REG.declare_datatypes([
    dict(name="Lazy", none="NoLazy", ctors=[
        ("NoLazy", None, []),
        ("LVar", None, [("name", "str")]),
        ("LVal", None, [("value", "Val"), ("lexeme", "str?")]),
        ("LOp", None, [("op", "str"), ("args", "LazyList")]),
        ("LCall", None, [("callee", "str"), ("args", "LazyList"), ("kwargs", "KwList")])]),
    dict(name="LazyList", coerce=_coerce_lazylist, ctors=[
        ("LNil", None, []), ("LSnoc", None, [("init", "LazyList"), ("last", "Lazy")])]),
    dict(name="KwList", coerce=_coerce_kwlist, ctors=[
        ("KNil", None, []), ("KSnoc", None, [("init", "KwList"), ("key", "str"), ("val", "Lazy")])]),
])
TL, TLL, TKW = TData(LAZY), TData(LAZYLIST), TData(KWLIST)


def _lazy(x, ctx):
    return REG.type("Lazy").unwrap(x, ctx)


def _opname(v):
    """the atom of a Python operator function (operator.add -> 'add'); specifications pass the name itself"""
    if callable(v) and getattr(v, "__module__", None) in ("_operator", "operator"):
        return z3.IntVal(intern(v.__name__))
    return str_term(v)


def _m_LazyOperator(I, a, kw, node):
    return SData(LAZY.make("LOp", _opname(a[0]), LAZYLIST.coerce(list(a[1:]), I.ctx)), TL)


def _m_LazyVariable(I, a, kw, node):
    return SData(LAZY.make("LVar", str_term(a[0])), TL)


def _m_LazyValue(I, a, kw, node):
    return SData(LAZY.make("LVal", REG.type("Val").unwrap(a[0], I.ctx), REG.type("str?").unwrap(a[1], I.ctx)), TL)


def _m_LazyCall(I, a, kw, node):
    return SData(LAZY.make("LCall", str_term(a[0]), TLL.unwrap(TLL.coerce(a[1], I.ctx), I.ctx),
                           TKW.unwrap(TKW.coerce(a[2], I.ctx), I.ctx)), TL)


for _cls, _m in ((LazyOperator, _m_LazyOperator), (LazyVariable, _m_LazyVariable), (LazyValue, _m_LazyValue), (LazyCall, _m_LazyCall)):
    REG.external_objects[_cls] = _m


# ---- list helpers: executable on real python lists / dicts, modelled on the datatypes -----------------------------------
def snoc(xs, x):
    return xs + [x]


def kput(kws, name, v):
    """dict store: a new key goes last, an existing key keeps its place and takes the new value"""
    return {**kws, name: v}


def opfn(name):
    return getattr(operator, name)


def unquote(s):
    return s[1:-1]


def var_lexeme(v):
    """the spelled name of a plain-name node"""
    return v.name.lexeme


def _m_var_lexeme(I, a, kw, node):
    from .parser_c import EXPR, TOK
    return SStr(TOK.accessor("Token", "lexeme")(EXPR.accessor("Variable", "name")(REG.type("Expr").unwrap(a[0], I.ctx))))


REG.externals[f"{__name__}.var_lexeme"] = _m_var_lexeme


def _m_snoc(I, a, kw, node):
    return SData(LAZYLIST.make("LSnoc", TLL.unwrap(TLL.coerce(a[0], I.ctx), I.ctx), _lazy(a[1], I.ctx)), TLL)


def _m_kput(I, a, kw, node):
    return I.apply_spec(REG.specs["kw_put"], [TKW.coerce(a[0], I.ctx), a[1], a[2]])


def _m_opfn(I, a, kw, node):
    return a[0]


def _m_unquote(I, a, kw, node):
    from vf.pyvc.opaque import ufun
    return SStr(ufun("str.unquote", z3.IntSort(), z3.IntSort())(str_term(a[0])))


for _n, _f in (("snoc", _m_snoc), ("kput", _m_kput), ("opfn", _m_opfn), ("unquote", _m_unquote)):
    REG.externals[f"{__name__}.{_n}"] = _f


@REG.spec([("K", "KwList"), ("name", "str"), ("v", "Lazy")], "KwList")
def kw_put(K, name, v):
    return (KWLIST_snoc(K, name, v) if kw_is_nil(K)
            else KWLIST_snoc(kw_init(K), name, v) if kw_key(K) == name
            else KWLIST_snoc(kw_put(kw_init(K), name, v), kw_key(K), kw_val(K)))


def KWLIST_snoc(K, name, v):      # only ever applied symbolically (kput is the executable form)
    raise NotImplementedError


def kw_is_nil(K):
    raise NotImplementedError


def kw_init(K):
    raise NotImplementedError


def kw_key(K):
    raise NotImplementedError


def kw_val(K):
    raise NotImplementedError


def _kwfn(what):
    def model(I, a, kw, node):
        from vf.pyvc.ops import bool_val
        K = TKW.coerce(a[0], I.ctx)
        if what == "snoc":
            return SData(KWLIST.make("KSnoc", K.t, str_term(a[1]), _lazy(a[2], I.ctx)), TKW)
        if what == "is_nil":
            return bool_val(KWLIST.recognizer("KNil")(K.t))
        if what == "init":
            return SData(KWLIST.accessor("KSnoc", "init")(K.t), TKW)
        if what == "key":
            return SStr(KWLIST.accessor("KSnoc", "key")(K.t))
        return SData(KWLIST.accessor("KSnoc", "val")(K.t), TL)
    return model


for _n, _w in (("KWLIST_snoc", "snoc"), ("kw_is_nil", "is_nil"), ("kw_init", "init"), ("kw_key", "key"), ("kw_val", "val")):
    REG.externals[f"{__name__}.{_n}"] = _kwfn(_w)


def _ll_append(I, obj, args):
    return SData(LAZYLIST.make("LSnoc", obj.t, _lazy(args[0], I.ctx)), obj.ty)


def _kw_setitem(I, obj, args):
    return I.apply_spec(REG.specs["kw_put"], [obj, args[0], args[1]])


LAZYLIST.mutators = {"append": _ll_append}
KWLIST.mutators = {"__setitem__": _kw_setitem}

# ---------------------------------------------------------------------------------------------
# Python's operators for the operator tokens (transcribed from the Python grammar: what the spelled symbol means there)
PY_BINARY = {"PLUS": "add", "MINUS": "sub", "STAR": "mul", "SLASH": "truediv", "STAR_STAR": "pow", "EQUAL_EQUAL": "eq",
             "BANG_EQUAL": "ne", "LESS": "lt", "LESS_EQUAL": "le", "GREATER": "gt", "GREATER_EQUAL": "ge"}


@REG.spec([("k", "str")], "str?")
def pyop2(k):
    return ("add" if k == "PLUS" else "sub" if k == "MINUS" else "mul" if k == "STAR" else "truediv" if k == "SLASH"
            else "pow" if k == "STAR_STAR" else "eq" if k == "EQUAL_EQUAL" else "ne" if k == "BANG_EQUAL"
            else "lt" if k == "LESS" else "le" if k == "LESS_EQUAL" else "gt" if k == "GREATER"
            else "ge" if k == "GREATER_EQUAL" else None)


@REG.spec([("k", "str")], "str?")
def pyop1(k):
    return "pos" if k == "PLUS" else "neg" if k == "MINUS" else None


# ---- well-formed argument expressions (what the parser hands over): no missing children, the callee of a call and the
# ---- name of a keyword argument are plain names, '=' only directly inside a call's argument list
@REG.spec([("e", "Expr")], "bool")
def wf(e):
    return ((e.operator is not None and wf(e.left) and wf(e.right)) if isinstance(e, Binary)
            else (e.operator is not None and wf(e.right)) if isinstance(e, Unary)
            else wf(e.expression) if isinstance(e, Grouping)
            else (isinstance(e.callee, Variable) and wf(e.callee) and wf_args(e.args)) if isinstance(e, Call)
            else e.name is not None if isinstance(e, Variable)
            else e.expression is not None if isinstance(e, QuotedName)
            else isinstance(e, Literal))


@REG.spec([("x", "Expr")], "bool")
def wf_arg(x):
    return (isinstance(x.name, Variable) and wf(x.name) and wf(x.value)) if isinstance(x, Assign) else wf(x)


@REG.spec([("args", "ExprList")], "bool")
def wf_args(args):
    return True if is_nil(args) else (wf_args(init(args)) and wf_arg(last(args)))


# ---- resolvable: every operator of the expression has a Python counterpart ------------------------------------------------
@REG.spec([("e", "Expr")], "bool")
def resolvable(e):
    return ((pyop2(e.operator.kind) is not None and resolvable(e.left) and resolvable(e.right)) if isinstance(e, Binary)
            else (pyop1(e.operator.kind) is not None and resolvable(e.right)) if isinstance(e, Unary)
            else resolvable(e.expression) if isinstance(e, Grouping)
            else resolvable_args(e.args) if isinstance(e, Call)
            else True)


@REG.spec([("args", "ExprList")], "bool")
def resolvable_args(args):
    return (True if is_nil(args)
            else (resolvable_args(init(args)) and resolvable(last(args).value if isinstance(last(args), Assign) else last(args))))


# ---- the specification: the lazy object an argument expression denotes -----------------------------------------------------
@REG.spec([("e", "Expr")], "Lazy")
def lazy_of(e):
    return (lazy_of(e.expression) if isinstance(e, Grouping)
            else LazyOperator(opfn(pyop2(e.operator.kind)), lazy_of(e.left), lazy_of(e.right)) if isinstance(e, Binary)
            else LazyOperator(opfn(pyop1(e.operator.kind)), lazy_of(e.right)) if isinstance(e, Unary)
            else LazyCall(var_lexeme(e.callee), pos_args(e.args), kw_args(e.args)) if isinstance(e, Call)
            else LazyVariable(e.name.lexeme) if isinstance(e, Variable)
            else LazyVariable(unquote(e.expression.lexeme)) if isinstance(e, QuotedName)
            else LazyValue(e.value, e.lexeme) if isinstance(e, Literal)
            else None)


@REG.spec([("args", "ExprList")], "LazyList")
def pos_args(args):
    """the positional arguments, in order"""
    return ([] if is_nil(args)
            else pos_args(init(args)) if isinstance(last(args), Assign)
            else snoc(pos_args(init(args)), lazy_of(last(args))))


@REG.spec([("args", "ExprList")], "KwList")
def kw_args(args):
    """the keyword arguments, keyed by the spelled name, in order of first appearance (a repeated name keeps the last value)"""
    return ({} if is_nil(args)
            else kput(kw_args(init(args)), var_lexeme(last(args).name), lazy_of(last(args).value)) if isinstance(last(args), Assign)
            else kw_args(init(args)))


# ---- an argument list viewed by position (for the loop of visitCallExpr) ---------------------------------------------------
@REG.spec([("L", "ExprList")], "int")
def xl_len(L):
    return 0 if is_nil(L) else xl_len(init(L)) + 1


@REG.spec([("L", "ExprList"), ("k", "int")], "Expr")
def xl_nth(L, k):
    return last(L) if k >= xl_len(init(L)) else xl_nth(init(L), k)


@REG.spec([("L", "ExprList"), ("k", "int")], "ExprList")
def xl_take(L, k):
    return L if xl_len(L) <= k else xl_take(init(L), k)


def _iter_exprlist(I, v):
    from vf.pyvc.values import SInt
    i = z3.Int("xl_i")
    n = I.apply_spec(REG.specs["xl_len"], [v])
    e = I.apply_spec(REG.specs["xl_nth"], [v, SInt(i)])
    I.ctx.assume(n.t >= 0)
    out = SList(n.t, z3.Lambda([i], e.t), REG.type("Expr"))

    def facts(I2, k, elem):
        """instances of snoc_list_lemmas at (v, k) for the element just reached (0 <= k < len is the loop condition)"""
        from vf.pyvc.values import SInt
        from vf.pyvc.ops import to_bool_term, zb
        TE, EX = REG.type("Expr"), parser_c.EXPR
        el = SData(elem, TE)

        def ap(name, *a):
            return I2.apply_spec(REG.specs[name], list(a))
        I2.ctx.spec_mode += 1
        try:
            tk, tk1 = ap("xl_take", v, SInt(k)), ap("xl_take", v, SInt(z3.simplify(k + 1)))
            I2.ctx.assume(tk1.t == EXPRLIST.make("Snoc", tk.t, elem))
            I2.ctx.assume(z3.Implies(zb(to_bool_term(ap("wf_args", v))), zb(to_bool_term(ap("wf_arg", el)))))
            val = SData(EX.accessor("Assign", "value")(elem), TE)
            item_res = z3.If(EX.recognizer("Assign")(elem), zb(to_bool_term(ap("resolvable", val))), zb(to_bool_term(ap("resolvable", el))))
            I2.ctx.assume(z3.Implies(zb(to_bool_term(ap("resolvable_args", v))), item_res))
        finally:
            I2.ctx.spec_mode -= 1
    out.elem_facts = facts
    return out


EXPRLIST.iter_model = _iter_exprlist


def snoc_list_lemmas(reg, twin=False):
    """Facts about snoc lists viewed by position, proved by induction in Lean (lemmas/snoc_list.lean):
    take 0 = nil; take (i+1) = snoc (take i) (nth i) for i < len; a predicate that holds for every element holds for the i-th."""
    need = ["xl_len", "xl_nth", "xl_take", "wf_args", "wf_arg", "resolvable_args", "resolvable"]
    sp = {n: reg.specs[n] for n in need}
    if any(getattr(x, "z3fn", None) is None or (twin and getattr(x, "twin", None) is None) for x in sp.values()):
        return None
    f = {n: (x.twin if twin else x.z3fn) for n, x in sp.items()}
    L = z3.Const("sl_L", EXPRLIST.sort)
    i = z3.Int("sl_i")
    nil = EXPRLIST.make("Nil")
    EX = parser_c.EXPR
    item = f["xl_nth"](L, i)
    item_res = z3.If(EX.recognizer("Assign")(item), f["resolvable"](EX.accessor("Assign", "value")(item)), f["resolvable"](item))
    inb = z3.And(0 <= i, i < f["xl_len"](L))
    return z3.And(
        z3.ForAll([L], f["xl_len"](L) >= 0, patterns=[f["xl_len"](L)]),
        z3.ForAll([L], f["xl_take"](L, 0) == nil, patterns=[f["xl_take"](L, 0)]),
        z3.ForAll([L, i], z3.Implies(inb, f["xl_take"](L, i + 1) == EXPRLIST.make("Snoc", f["xl_take"](L, i), item)),
                  patterns=[z3.MultiPattern(f["xl_take"](L, i), item)]),
        z3.ForAll([L, i], z3.Implies(z3.And(inb, f["wf_args"](L)), f["wf_arg"](item)),
                  patterns=[z3.MultiPattern(f["wf_args"](L), item)]),
        z3.ForAll([L, i], z3.Implies(z3.And(inb, f["resolvable_args"](L)), item_res),
                  patterns=[z3.MultiPattern(f["resolvable_args"](L), item)]))


if not hasattr(REG, "lemmas"):
    REG.lemmas = []
REG.lemmas.append(snoc_list_lemmas)

# ---------------------------------------------------------------------------------------------
# contracts
REG.declare_class(R + "CallResolver", {"expr": "Expr"})
TAGS = ["C12"]
UNIFORM = dict(returns="Lazy", tags=TAGS, raises={"CallResolverError": "not resolvable({e})"},
               ensures=["result == lazy_of({e})"])


def _uniform(e, extra_requires=()):
    return dict(returns="Lazy", tags=TAGS, requires=[f"wf({e})"] + list(extra_requires),
                raises={"CallResolverError": f"not resolvable({e})"}, ensures=[f"result == lazy_of({e})"])


VISITS = {"visitGroupingExpr": "Grouping", "visitBinaryExpr": "Binary", "visitUnaryExpr": "Unary", "visitCallExpr": "Call",
          "visitVariableExpr": "Variable", "visitLiteralExpr": "Literal", "visitQuotedNameExpr": "QuotedName"}
for _v, _k in VISITS.items():
    if _v == "visitCallExpr":
        continue
    REG.contract(R + "CallResolver." + _v, params={"expr": "Expr"}, **_uniform("expr", [f"isinstance(expr, {_k})"]))

TAKE = "xl_take(expr.args, _i1)"
REG.contract(R + "CallResolver.visitCallExpr", params={"expr": "Expr"}, **_uniform("expr", ["isinstance(expr, Call)"]),
             loops={1: Loop(invariant=["0 <= _i1", "_i1 <= xl_len(expr.args)",
                                       f"args == pos_args({TAKE})", f"kwargs == kw_args({TAKE})", f"resolvable_args({TAKE})"],
                            havoc={"args": "LazyList", "kwargs": "KwList"})})

# dynamic dispatch: e.accept(resolver) for any well-formed node; each real accept method is verified against the same clauses
REG.contract("formulae.expr.Expr.accept#call_resolver", of="formulae.expr.Binary.accept", self_type="Expr",
             params={"visitor": R + "CallResolver"}, **_uniform("self"))
if not hasattr(REG, "dt_methods"):
    REG.dt_methods = {}
REG.dt_methods[("Expr", "accept", R + "CallResolver")] = "formulae.expr.Expr.accept#call_resolver"
ACCEPTS = []
for _k in ("Grouping", "Binary", "Unary", "Call", "Variable", "Literal", "QuotedName"):
    _q = f"formulae.expr.{_k}.accept#call_resolver"
    REG.contract(_q, of=f"formulae.expr.{_k}.accept", self_type="Expr", params={"visitor": R + "CallResolver"},
                 **_uniform("self", [f"isinstance(self, {_k})"]))
    ACCEPTS.append(_q)

REG.contract(R + "CallResolver.resolve", **_uniform("self.expr"))

FUNCTIONS = [R + "CallResolver." + v for v in VISITS] + ACCEPTS + [R + "CallResolver.resolve"]
ASSUMPTIONS = ["lazy objects built by the resolver are modelled as immutable values (datatype Lazy); their stateful_transform slot, "
               "filled later by LazyCall.eval, is not part of the value",
               "termination of the mutual recursion accept <-> visit* is not proved (partial correctness)",
               "argument expressions are well formed (wf): no missing children, callee and keyword names are plain names, '=' only "
               "directly inside an argument list - what the verified parser produces for call arguments",
               "str[1:-1] on a backquoted name is an uninterpreted function of the name"]

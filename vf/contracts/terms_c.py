"""Contracts for formulae/terms/terms.py (C10, C05, C15, C02 fragments)."""
from vf.pyvc.registry import Loop
from vf.pyvc import arrays
from .base import REG
from .utils_c import ncols, col   # noqa: F401

REG.external_objects.update(arrays.external_objects())
T = "formulae.terms.terms."

# term objects that a function only reads: fields / pure methods are functions of the object (and the frame)
REG.declare_ref("Effect", {"name": "str", "data": "arr", "kind": "str?"}, {"eval_new_data": "arr"})
REG.declare_ref("Factor", {"name": "str", "data": "arr2", "kind": "str?"}, {"eval_new_data": "arr2"})
REG.declare_class(T + "GroupSpecificTerm", {"expr": "ref:Effect", "factor": "ref:Factor", "data": "any", "groups": "any", "kind": "str?"})

J = "self.factor.eval_new_data(data)"
X = "self.expr.eval_new_data(data)"
G = f"{J}.shape[1]"
P = f"ncols({X})"
NEW = f"forall(0, {G}, lambda g_: {J}[r, g_] == 0)"          # row r belongs to an unseen group
ANYNEW = f"exists(0, {J}.shape[0], lambda r: {NEW})"
BLOCKS = (f"forall(0, {J}.shape[0], lambda r: forall(0, {G}, lambda g: forall(0, {P}, lambda l: "
          f"result[r, g * {P} + l] == {J}[r, g] * col({X}, r, l))))")

REG.contract(T + "GroupSpecificTerm.eval_new_data", params={"data": "any"}, returns="arr2", tags=["C10", "C05", "C17"],
             requires=[f"{J}.shape[0] == {X}.shape[0]", f"{P} >= 1", f"{G} >= 1"],
             ensures=[f"result.shape[0] == {J}.shape[0]",
                      # existing blocks: group indicator x effect columns, group slowest
                      BLOCKS,
                      f"implies(not ({ANYNEW}), result.shape[1] == {G} * {P})",
                      # unseen groups: exactly one trailing block carrying the effect values of exactly those rows
                      f"implies({ANYNEW}, result.shape[1] == ({G} + 1) * {P})",
                      f"implies({ANYNEW}, forall(0, {J}.shape[0], lambda r: forall(0, {P}, lambda l: "
                      f"result[r, {G} * {P} + l] == (col({X}, r, l) if ({NEW}) else 0))))"])

FUNCTIONS = [T + "GroupSpecificTerm.eval_new_data"]


ASSUMPTIONS = ['scipy.linalg.khatri_rao assumed: K[i*p+k, c] = A[i, c] * B[k, c]; numpy: any(axis=1), ~, column_stack, zeros, mask assignment, .T',
               'expr.eval_new_data / factor.eval_new_data are pure functions of the term and the frame (their own contracts are variable_c / bounded)']

# ---- Term identity (C02): the ordered duplicate-free factor list -----------------------------
REG.declare_class(T + "Term", {"components": "list[any]", "data": "any", "kind": "str?", "name": "str"})
REG.contract(T + "Term.__init__", params={"components": "list[any]"}, tags=["C02"],
             modifies=["self.components", "self.data", "self.kind", "self.name"],
             ensures=[  # no factor twice, every given factor kept, nothing invented
                 "forall(0, len(self.components), lambda a: forall(0, len(self.components), lambda b: "
                 "implies(a != b, self.components[a] != self.components[b])))",
                 "forall(0, len(components), lambda k: components[k] in self.components)",
                 "forall(0, len(self.components), lambda a: self.components[a] in components)"],
             loops={1: Loop(invariant=[
                 "0 <= _i1", "_i1 <= len(components)",
                 "forall(0, len(self.components), lambda a: forall(0, len(self.components), lambda b: "
                 "implies(a != b, self.components[a] != self.components[b])))",
                 "forall(0, _i1, lambda k: components[k] in self.components)",
                 "forall(0, len(self.components), lambda a: exists(0, _i1, lambda k: self.components[a] == components[k]))"],
                 modifies=["self.components"])})
REG.contract(T + "Term.__eq__", params={"other": T + "Term"}, returns="bool", tags=["C02"],
             ensures=["result == (self.components == other.components)"])

import copy as _copy


def _m_deepcopy(I, a, kw, node):
    """copy.deepcopy on a component: a value that == its argument (components are values compared with ==; the copy is modelled as
    the same value, so that it is a *different object* - what the fix b987558 relies on - is outside this model)"""
    return a[0]


REG.external_objects[_copy.deepcopy] = _m_deepcopy
FUNCTIONS += [T + "Term.__init__", T + "Term.__eq__"]
ASSUMPTIONS += ["copy.deepcopy(component) == component (Variable.__eq__ / Call.__eq__ compare name, level / the lazy call; verified in "
                "variable_c); object identity of the copy is not modelled",
                "components (Variable / Call objects) are opaque values compared with ==; their __eq__/__hash__ are not verified here"]

# ---- Response (C15): a single term, whose component is marked as the response ------------------
REG.opaque_attr_types = dict(getattr(REG, "opaque_attr_types", {}), is_response="bool")
REG.declare_class(T + "Response", {"term": T + "Term"})
REG.contract(T + "Response.__init__", params={"term": T + "Term"}, tags=["C15"], modifies=["self.term"],
             raises={"ValueError": "len(term.components) != 1"},
             ensures=["self.term == term", "len(term.components) == 1", "term.components[0].is_response == True",
                      "term.components == old(term.components)"])
FUNCTIONS += [T + "Response.__init__"]
ASSUMPTIONS += ["attributes assigned to opaque component objects (is_response) live in a per-attribute heap array"]

# ---- Model as ordered duplicate-free term lists: + is union, - is difference (C02) --------------
import z3 as _z3
from vf.pyvc.values import SOpaque as _SOpaque
from vf.pyvc.opaque import ufun as _ufun, U as _U
import formulae.terms.terms as _tt

REG.declare_class(T + "Model", {"common_terms": "list[any]", "group_terms": "list[any]", "response": "any"})


def _mk_singleton(cls_name):
    def model(I, a, kw, node):
        return _SOpaque(_z3.Const(f"U!the{cls_name}", _U()), "any")      # all Intercept() objects are == (Intercept.__eq__)
    return model


REG.externals[T + "Intercept"] = _mk_singleton("Intercept")
REG.externals[T + "NegatedIntercept"] = _mk_singleton("NegatedIntercept")


def class_facts(reg, twin=False):
    """Every term object is of exactly one of the term classes; Intercept() == Intercept() (its __eq__ is isinstance)."""
    x, y = _z3.Consts("cf_x cf_y", _U())
    P = {n: _ufun(f"isinst!{n}", _U(), _z3.BoolSort()) for n in ("Term", "GroupSpecificTerm", "Intercept", "NegatedIntercept", "Model")}
    names = list(P)
    excl = [_z3.Not(_z3.And(P[a](x), P[b](x))) for i, a in enumerate(names) for b in names[i + 1:]]
    icpt = _z3.Const("U!theIntercept", _U())
    neg = _z3.Const("U!theNegatedIntercept", _U())
    return _z3.And(_z3.ForAll([x], _z3.And(*excl)), P["Intercept"](icpt), P["NegatedIntercept"](neg),
                   _z3.ForAll([x], _z3.Implies(P["Intercept"](x), x == icpt)),
                   _z3.ForAll([x], _z3.Implies(P["NegatedIntercept"](x), x == neg)))


if not hasattr(REG, "lemmas"):
    REG.lemmas = []
REG.lemmas.append(class_facts)


def is_a(x, name):
    return type(x).__name__ == name


def _is_a(I, a, kw, node):
    from vf.pyvc.ops import bool_val
    return bool_val(_ufun(f"isinst!{a[1]}", _U(), _z3.BoolSort())(a[0].t))


REG.externals[f"{__name__}.is_a"] = _is_a
NODUP = ("forall(0, len({L}), lambda a: forall(0, len({L}), lambda b: implies(a != b, {L}[a] != {L}[b])))")
INV_M = [NODUP.format(L="self.common_terms"), NODUP.format(L="self.group_terms"),
         "forall(0, len(self.group_terms), lambda k: is_a(self.group_terms[k], 'GroupSpecificTerm'))",
         "forall(0, len(self.common_terms), lambda k: not is_a(self.common_terms[k], 'GroupSpecificTerm'))"]
INV_M_POST = [c for c in INV_M]

REG.contract(T + "Model.add_term", params={"term": "any"}, returns=T + "Model", tags=["C02"],
             requires=INV_M, modifies=["self.common_terms", "self.group_terms"],
             raises={"ValueError": "not (is_a(term, 'GroupSpecificTerm') or is_a(term, 'Term') or is_a(term, 'Intercept'))"},
             ensures=INV_M_POST + [
                 "result == self",
                 # union with the new term, existing order kept
                 "forall_obj(lambda x: (x in self.common_terms) == ((x in old(self.common_terms)) or "
                 "(x == term and not is_a(term, 'GroupSpecificTerm'))))",
                 "forall_obj(lambda x: (x in self.group_terms) == ((x in old(self.group_terms)) or "
                 "(x == term and is_a(term, 'GroupSpecificTerm'))))",
                 "forall(0, old(len(self.common_terms)), lambda k: self.common_terms[k] == old(self.common_terms)[k])",
                 "forall(0, old(len(self.group_terms)), lambda k: self.group_terms[k] == old(self.group_terms)[k])",
                 # lists only grow, by at most the new term (stated so that callers need no counting argument)
                 "old(len(self.common_terms)) <= len(self.common_terms)", "len(self.common_terms) <= old(len(self.common_terms)) + 1",
                 "old(len(self.group_terms)) <= len(self.group_terms)", "len(self.group_terms) <= old(len(self.group_terms)) + 1",
                 "implies(is_a(term, 'GroupSpecificTerm'), len(self.common_terms) == old(len(self.common_terms)))",
                 "implies(not is_a(term, 'GroupSpecificTerm'), len(self.group_terms) == old(len(self.group_terms)))"])
REG.contract(T + "Model.terms", returns="list[any]", tags=["C02"],
             ensures=["len(result) == len(self.common_terms) + len(self.group_terms)",
                      "forall(0, len(self.common_terms), lambda k: result[k] == self.common_terms[k])",
                      # (stated on the position in the result, so that reading result[j] triggers the fact)
                      "forall(len(self.common_terms), len(result), lambda j: result[j] == self.group_terms[j - len(self.common_terms)])"])
# '-' : set difference (the right operand is a single term here; the Model - Model variant is below)
REG.contract(T + "Model.__sub__", params={"other": "any"}, returns=T + "Model", tags=["C02"],
             requires=INV_M + ["is_a(other, 'Term') or is_a(other, 'Intercept') or is_a(other, 'GroupSpecificTerm')",
                               "not is_a(other, 'Model')"],
             modifies=["self.common_terms", "self.group_terms"],
             ensures=INV_M_POST + [
                 "result == self",
                 "forall_obj(lambda x: (x in self.common_terms) == ((x in old(self.common_terms)) and "
                 "not (x == other and not is_a(other, 'GroupSpecificTerm'))))",
                 "forall_obj(lambda x: (x in self.group_terms) == ((x in old(self.group_terms)) and "
                 "not (x == other and is_a(other, 'GroupSpecificTerm'))))"])
# '+' with a single term / intercept literal on the right
REG.contract(T + "Model.__add__", params={"other": "any"}, returns=T + "Model", tags=["C02"],
             requires=INV_M + ["is_a(other, 'Term') or is_a(other, 'Intercept') or is_a(other, 'GroupSpecificTerm') "
                               "or is_a(other, 'NegatedIntercept')"],
             modifies=["self.common_terms", "self.group_terms"],
             ensures=INV_M_POST + [
                 "result == self",
                 # + 0 removes the intercept; anything else is union
                 "implies(is_a(other, 'NegatedIntercept'), forall_obj(lambda x: (x in self.common_terms) == "
                 "((x in old(self.common_terms)) and not is_a(x, 'Intercept'))))",
                 "implies(not is_a(other, 'NegatedIntercept'), forall_obj(lambda x: (x in self.common_terms) == "
                 "((x in old(self.common_terms)) or (x == other and not is_a(other, 'GroupSpecificTerm')))))",
                 "forall_obj(lambda x: (x in self.group_terms) == ((x in old(self.group_terms)) or "
                 "(x == other and is_a(other, 'GroupSpecificTerm'))))"])

FUNCTIONS += [T + "Model.add_term", T + "Model.terms", T + "Model.__sub__", T + "Model.__add__"]
ASSUMPTIONS += ["term objects inside a Model are opaque values; == on them is modelled as equality (Intercept() == Intercept() by the "
                "class_facts lemma mirroring Intercept.__eq__); each object belongs to exactly one term class",
                "list.remove(x) removes the first element equal to x"]

# ---- Model (+|-) Model -------------------------------------------------------------------------------
INV_O = [c.replace("self.", "other.") for c in INV_M]
OTHER_OK = ["forall(0, len(other.common_terms), lambda k: is_a(other.common_terms[k], 'Term') or is_a(other.common_terms[k], 'Intercept'))"]
REG.contract(T + "Model.__add__#model", of=T + "Model.__add__", params={"other": T + "Model"}, returns=T + "Model", tags=["C02"],
             # (the right operand may hold a term twice - Model(*terms) does not drop repeats; the union does)
             requires=INV_M + INV_O[2:] + OTHER_OK, modifies=["self.common_terms", "self.group_terms"],
             ensures=INV_M_POST + [
                 "result == self",
                 "forall_obj(lambda x: (x in self.common_terms) == ((x in old(self.common_terms)) or (x in other.common_terms)))",
                 "forall_obj(lambda x: (x in self.group_terms) == ((x in old(self.group_terms)) or (x in other.group_terms)))",
                 "forall(0, old(len(self.common_terms)), lambda k: self.common_terms[k] == old(self.common_terms)[k])",
                 # (a consequence of the union above, stated by position so that a caller holding other.common_terms[k] gets the fact)
                 "forall(0, len(other.common_terms), lambda k: other.common_terms[k] in self.common_terms)",
                 "forall(0, len(self.common_terms), lambda k: (self.common_terms[k] in old(self.common_terms)) or (self.common_terms[k] in other.common_terms))",
                 "len(self.group_terms) <= old(len(self.group_terms)) + len(other.group_terms)"],
             loops={1: Loop(invariant=INV_M + [
                 "0 <= _i1", "_i1 <= len(other.common_terms) + len(other.group_terms)",
                 "len(self.group_terms) <= old(len(self.group_terms)) + (_i1 - len(other.common_terms) if _i1 > len(other.common_terms) else 0)",
                 "old(len(self.common_terms)) <= len(self.common_terms)",
                 "forall(0, old(len(self.common_terms)), lambda k: self.common_terms[k] == old(self.common_terms)[k])",
                 "forall_obj(lambda x: (x in self.common_terms) == ((x in old(self.common_terms)) or "
                 "exists(0, (_i1 if _i1 < len(other.common_terms) else len(other.common_terms)), lambda k: other.common_terms[k] == x)))",
                 "forall_obj(lambda x: (x in self.group_terms) == ((x in old(self.group_terms)) or "
                 "exists(0, (_i1 - len(other.common_terms) if _i1 > len(other.common_terms) else 0), lambda k: other.group_terms[k] == x)))"],
                 cases=["_i1 < len(other.common_terms)", "_i1 + 1 < len(other.common_terms)"], modifies=["self.common_terms", "self.group_terms"])})
REG.contract(T + "Model.__sub__#model", of=T + "Model.__sub__", params={"other": T + "Model"}, returns=T + "Model", tags=["C02"],
             requires=INV_M + INV_O, modifies=["self.common_terms", "self.group_terms"],
             ensures=INV_M_POST + [
                 "result == self",
                 "forall_obj(lambda x: (x in self.common_terms) == ((x in old(self.common_terms)) and not (x in other.common_terms)))",
                 "forall_obj(lambda x: (x in self.group_terms) == ((x in old(self.group_terms)) and not (x in other.group_terms)))"],
             loops={1: Loop(invariant=INV_M + [
                 "0 <= _i1", "_i1 <= len(other.common_terms) + len(other.group_terms)",
                 "forall_obj(lambda x: (x in self.common_terms) == ((x in old(self.common_terms)) and "
                 "not exists(0, (_i1 if _i1 < len(other.common_terms) else len(other.common_terms)), lambda k: other.common_terms[k] == x)))",
                 "forall_obj(lambda x: (x in self.group_terms) == ((x in old(self.group_terms)) and "
                 "not exists(0, (_i1 - len(other.common_terms) if _i1 > len(other.common_terms) else 0), lambda k: other.group_terms[k] == x)))"],
                 cases=["_i1 < len(other.common_terms)", "_i1 + 1 < len(other.common_terms)"], modifies=["self.common_terms", "self.group_terms"])})
FUNCTIONS += [T + "Model.__add__#model", T + "Model.__sub__#model"]
ASSUMPTIONS += ["Model (+|-) Model is verified for two distinct Model objects (no aliasing of self and other)"]

ACC = "(is_a({x}, 'Term') or is_a({x}, 'GroupSpecificTerm') or is_a({x}, 'Intercept') or is_a({x}, 'NegatedIntercept'))"
REG.contract(T + "Model.__init__", params={"terms": "list[any]", "response": "any"}, tags=["C02"],
             requires=["response is None"],
             modifies=["self.common_terms", "self.group_terms", "self.response"],
             raises={"ValueError": "exists(0, len(terms), lambda k: not " + ACC.format(x="terms[k]") + ")"},
             ensures=["self.response is None",
                      # the terms are split by kind, order kept, nothing added or lost
                      "forall_obj(lambda x: (x in self.common_terms) == (x in terms and not is_a(x, 'GroupSpecificTerm')))",
                      "forall_obj(lambda x: (x in self.group_terms) == (x in terms and is_a(x, 'GroupSpecificTerm')))",
                      # (the same by position)
                      "forall(0, len(terms), lambda k: implies(not is_a(terms[k], 'GroupSpecificTerm'), terms[k] in self.common_terms))",
                      "forall(0, len(self.common_terms), lambda k: self.common_terms[k] in terms)",
                      "implies(forall(0, len(terms), lambda k: not is_a(terms[k], 'GroupSpecificTerm')), len(self.group_terms) == 0)"])
FUNCTIONS += [T + "Model.__init__"]


# ---- identity of the remaining term classes (C02): what makes two items of a model "the same term" ------------------------------
REG.declare_class(T + "Intercept", {"name": "str", "kind": "str", "data": "any", "len": "any"})
REG.declare_class(T + "NegatedIntercept", {"name": "str", "kind": "str"})
REG.contract(T + "Intercept.__eq__", params={"other": "any"}, returns="bool", tags=["C02"], ensures=["result == is_a(other, 'Intercept')"])
REG.contract(T + "NegatedIntercept.__eq__", params={"other": "any"}, returns="bool", tags=["C02"],
             ensures=["result == is_a(other, 'NegatedIntercept')"])
REG.contract(T + "Intercept.__hash__", returns="int", tags=["C02"], ensures=["result == hash(self.kind)"])
REG.contract(T + "Term.__hash__", returns="int", tags=["C02"], ensures=["result == hash(tuple(self.components))"])
REG.contract(T + "GroupSpecificTerm.__eq__", params={"other": T + "GroupSpecificTerm"}, returns="bool", tags=["C02"],
             ensures=["result == (self.expr == other.expr and self.factor == other.factor)"])
REG.contract(T + "Response.__eq__", params={"other": T + "Response"}, returns="bool", tags=["C02", "C15"],
             ensures=["result == (self.term.components == other.term.components)"])       # through Term.__eq__
IDENTITY = [T + "Intercept.__eq__", T + "NegatedIntercept.__eq__", T + "Intercept.__hash__", T + "Term.__hash__",
            T + "GroupSpecificTerm.__eq__", T + "Response.__eq__"]
FUNCTIONS += IDENTITY


# ---- Term.get_component (C03: create_extra_term picks the categorical components of a helper term by name) ----------------------------
def cname(c):
    """the name of a component (specification helper; executable)"""
    return c.name


def _cname(I, a, kw, node):
    return I.getattr(a[0], "name", node)


REG.externals[f"{__name__}.cname"] = _cname
REG.contract(T + "Term.get_component", params={"name": "str"}, returns="any", tags=["C03", "C04"],
             ensures=[  # the FIRST component of that name; None iff there is none
                 "implies(forall(0, len(self.components), lambda k: cname(self.components[k]) != name), result is None)",
                 "forall(0, len(self.components), lambda k: implies(cname(self.components[k]) == name and "
                 "forall(0, k, lambda j: cname(self.components[j]) != name), result == self.components[k]))",
                 "self.components == old(self.components)"],
             loops={1: Loop(invariant=["0 <= _i1", "_i1 <= len(self.components)",
                                       "forall(0, _i1, lambda j: cname(self.components[j]) != name)"])})
FUNCTIONS += [T + "Term.get_component"]

# ---- Term.set_type (C04 / C03): a term of several factors is an interaction, a single factor hands on its own kind ---------------------
def ckind(c):
    """the kind of a component (specification helper; executable)"""
    return c.kind


def _ckind(I, a, kw, node):
    return I.getattr(a[0], "kind", node)


REG.externals[f"{__name__}.ckind"] = _ckind
_BAD = "not is_a(self.components[{k}], 'Variable') and not is_a(self.components[{k}], 'Call')"
REG.contract(T + "Term.set_type", params={"data": "frame", "env": "any"}, tags=["C03", "C04"], modifies=["self.kind"],
             requires=["len(self.components) >= 1"],
             raises={"ValueError": "exists(0, len(self.components), lambda k: " + _BAD.format(k="k") + ")"},
             ensures=["implies(len(self.components) > 1, self.kind == 'interaction')",
                      "implies(len(self.components) == 1, self.kind == ckind(self.components[0]))",
                      "self.components == old(self.components)"],
             loops={1: Loop(invariant=["0 <= _i1", "_i1 <= len(self.components)",
                                       "forall(0, _i1, lambda k: not (" + _BAD.format(k="k") + "))"])})
FUNCTIONS += [T + "Term.set_type"]

"""Contracts for formulae/terms/terms.py (C10, C05, C15, C02 fragments)."""
from vf.pyvc.registry import Loop
from vf.pyvc import arrays
from .base import REG
from .utils_c import ncols, col   # noqa: F401

REG.external_objects.update(arrays.external_objects())
T = "formulae.terms.terms."

# term objects that a function only reads: fields / pure methods are functions of the object (and the frame)
REG.declare_ref("Effect", {"name": "str", "data": "arr", "kind": "str?"}, {"eval_new_data": "arr"})
REG.declare_ref("Factor", {"name": "str", "data": "arr2", "kind": "str?"}, {"eval_new_data": "arr2"})
REG.declare_class(T + "GroupSpecificTerm", {"expr": "ref:Effect", "factor": "ref:Factor", "data": "any", "groups": "any", "kind": "str?"})

J = "self.factor.eval_new_data(data)"
X = "self.expr.eval_new_data(data)"
G = f"{J}.shape[1]"
P = f"ncols({X})"
NEW = f"forall(0, {G}, lambda g_: {J}[r, g_] == 0)"          # row r belongs to an unseen group
ANYNEW = f"exists(0, {J}.shape[0], lambda r: {NEW})"
BLOCKS = (f"forall(0, {J}.shape[0], lambda r: forall(0, {G}, lambda g: forall(0, {P}, lambda l: "
          f"result[r, g * {P} + l] == {J}[r, g] * col({X}, r, l))))")

REG.contract(T + "GroupSpecificTerm.eval_new_data", params={"data": "any"}, returns="arr2", tags=["C10", "C05", "C17"],
             requires=[f"{J}.shape[0] == {X}.shape[0]", f"{P} >= 1", f"{G} >= 1"],
             ensures=[f"result.shape[0] == {J}.shape[0]",
                      # existing blocks: group indicator x effect columns, group slowest
                      BLOCKS,
                      f"implies(not ({ANYNEW}), result.shape[1] == {G} * {P})",
                      # unseen groups: exactly one trailing block carrying the effect values of exactly those rows
                      f"implies({ANYNEW}, result.shape[1] == ({G} + 1) * {P})",
                      f"implies({ANYNEW}, forall(0, {J}.shape[0], lambda r: forall(0, {P}, lambda l: "
                      f"result[r, {G} * {P} + l] == (col({X}, r, l) if ({NEW}) else 0))))"])

FUNCTIONS = [T + "GroupSpecificTerm.eval_new_data"]


ASSUMPTIONS = ['scipy.linalg.khatri_rao assumed: K[i*p+k, c] = A[i, c] * B[k, c]; numpy: any(axis=1), ~, column_stack, zeros, mask assignment, .T',
               'expr.eval_new_data / factor.eval_new_data are pure functions of the term and the frame (their own contracts are variable_c / bounded)']

# ---- Term identity (C02): the ordered duplicate-free factor list -----------------------------
REG.declare_class(T + "Term", {"components": "list[any]", "data": "any", "kind": "str?", "name": "str"})
REG.contract(T + "Term.__init__", params={"components": "list[any]"}, tags=["C02"],
             modifies=["self.components", "self.data", "self.kind", "self.name"],
             ensures=[  # no factor twice, every given factor kept, nothing invented
                 "forall(0, len(self.components), lambda a: forall(0, len(self.components), lambda b: "
                 "implies(a != b, self.components[a] != self.components[b])))",
                 "forall(0, len(components), lambda k: components[k] in self.components)",
                 "forall(0, len(self.components), lambda a: self.components[a] in components)"],
             loops={1: Loop(invariant=[
                 "0 <= _i1", "_i1 <= len(components)",
                 "forall(0, len(self.components), lambda a: forall(0, len(self.components), lambda b: "
                 "implies(a != b, self.components[a] != self.components[b])))",
                 "forall(0, _i1, lambda k: components[k] in self.components)",
                 "forall(0, len(self.components), lambda a: exists(0, _i1, lambda k: self.components[a] == components[k]))"],
                 modifies=["self.components"])})
REG.contract(T + "Term.__eq__", params={"other": T + "Term"}, returns="bool", tags=["C02"],
             ensures=["result == (self.components == other.components)"])

FUNCTIONS += [T + "Term.__init__", T + "Term.__eq__"]
ASSUMPTIONS += ["components (Variable / Call objects) are opaque values compared with ==; their __eq__/__hash__ are not verified here"]

# ---- Response (C15): a single term, whose component is marked as the response ------------------
REG.opaque_attr_types = dict(getattr(REG, "opaque_attr_types", {}), is_response="bool")
REG.declare_class(T + "Response", {"term": T + "Term"})
REG.contract(T + "Response.__init__", params={"term": T + "Term"}, tags=["C15"], modifies=["self.term"],
             raises={"ValueError": "len(term.components) != 1"},
             ensures=["self.term == term", "len(term.components) == 1", "term.components[0].is_response == True",
                      "term.components == old(term.components)"])
FUNCTIONS += [T + "Response.__init__"]
ASSUMPTIONS += ["attributes assigned to opaque component objects (is_response) live in a per-attribute heap array"]

"""Contracts for the identity layer and the absorption step of the redundancy analysis in formulae/contrasts.py (C03).

`pick_contrasts` decides, per term, which factors get the full ("n") and which the reduced ("n-1") coding. It does so with *sets*
of `Subterm`s of `ExpandedFactor`s: a subset of a term's factors is skipped iff an equal Subterm was used before
(`subterm not in used_subterms`), and two subterms merge when one `can_absorb` the other. Everything therefore rests on
  * `ExpandedFactor.__eq__/__ne__/__hash__` and `Subterm.__eq__/__ne__/__hash__`: equality is exactly equality of the fields
    (flag and factor / the set of expanded factors), `!=` is its negation, equal objects hash alike, other classes never compare equal;
  * `Subterm.can_absorb`: true iff `other` is a subset of `self` with exactly one element less;
  * `Subterm.absorb`: the result holds `other`'s expanded factors plus the one factor of `self` missing from `other`, now with the
    full coding (`[a-, b-] absorb [a-] -> [a-, b+]`); its two asserts never fail when `can_absorb` held and that factor was reduced-coded.

The loops of `ExpandedTerm.pick_contrast / _simplify_subterm` and the generator `_sorted_subsets` are NOT under contract (generator
functions and sets of sets are outside the engine's subset): the bounded tier of C03 (rank and column space on factorial data) covers
the analysis as a whole.

Sets of expanded factors are values of z3's set sort over the datatype `EF(flag, factor)` (vf/pyvc/sets.py); cardinality is an
uninterpreted function constrained by the facts listed under ASSUMPTIONS.
"""
import z3

from formulae.contrasts import ExpandedFactor, Subterm          # noqa: F401

from vf.pyvc.opaque import ufun, U
from vf.pyvc.ops import bool_val
from .base import REG

K = "formulae.contrasts."
TAGS = ["C03"]


def is_a(x, name):
    """class membership by name (specification helper; executable)"""
    return type(x).__name__ == name


def _is_a(I, a, kw, node):
    return bool_val(ufun(f"isinst!{a[1]}", U(), z3.BoolSort())(a[0].t))


REG.externals[f"{__name__}.is_a"] = _is_a

# ---- ExpandedFactor: a (flag, factor) pair compared field by field ---------------------------------------------------------------
REG.declare_class(K + "ExpandedFactor", {"includes_intercept": "bool", "factor": "any"})
REG.contract(K + "ExpandedFactor.__init__", params={"includes_intercept": "bool", "factor": "any"}, tags=TAGS,
             modifies=["self.includes_intercept", "self.factor"],
             ensures=["self.includes_intercept == includes_intercept", "self.factor == factor"])
REG.contract(K + "ExpandedFactor.__eq__", params={"other": K + "ExpandedFactor"}, returns="bool", tags=TAGS,
             ensures=["result == (self.includes_intercept == other.includes_intercept and self.factor == other.factor)"])
REG.contract(K + "ExpandedFactor.__eq__#other", of=K + "ExpandedFactor.__eq__", params={"other": "any"}, returns="bool", tags=TAGS,
             requires=["not is_a(other, 'ExpandedFactor')"], ensures=["result == False"])
REG.contract(K + "ExpandedFactor.__ne__", params={"other": K + "ExpandedFactor"}, returns="bool", tags=TAGS,
             ensures=["result == (not (self.includes_intercept == other.includes_intercept and self.factor == other.factor))"])
REG.contract(K + "ExpandedFactor.__hash__", returns="int", tags=TAGS,
             ensures=["result == hash((ExpandedFactor, self.includes_intercept, self.factor))"])

FUNCTIONS = [K + "ExpandedFactor." + f for f in ("__init__", "__eq__", "__eq__#other", "__ne__", "__hash__")]
ASSUMPTIONS = ["hash() of a tuple is an uninterpreted function of its items' values (equal items give equal hashes); == on the "
               "factor objects held in an ExpandedFactor (Variable / Call) is the value equality verified in variable_c"]

# ---- Subterm: a set of expanded factors; absorption -----------------------------------------------------------------------------
from vf.pyvc import sets as _sets
from vf.pyvc.sets import the, setminus, with_elem        # noqa: F401,E402
from vf.pyvc.values import TData as _TData               # noqa: E402

(EF,) = REG.declare_datatypes([dict(name="EF", ctors=[("EF", K + "ExpandedFactor", [("includes_intercept", "bool"), ("factor", "any")])])])
REG._types["efset"] = _sets.TFSet(_TData(EF))
REG.externals.update(_sets.externals())
REG.declare_class(K + "Subterm", {"efactors": "efset"})

REG.contract(K + "Subterm.__init__", params={"efactors": "efset"}, tags=TAGS, modifies=["self.efactors"],
             ensures=["self.efactors == frozenset(efactors)"])
REG.contract(K + "Subterm.can_absorb", params={"other": K + "Subterm"}, returns="bool", tags=TAGS,
             ensures=["result == (len(self.efactors) - len(other.efactors) == 1 and other.efactors <= self.efactors)"])
# the one expanded factor of self that other lacks
EXTRA = "the(setminus(self.efactors, other.efactors))"
REG.contract(K + "Subterm.absorb", params={"other": K + "Subterm"}, returns=K + "Subterm", tags=TAGS,
             # (the two asserts of the body are obligations: under these preconditions - what can_absorb established, and a factor
             # that is not yet fully coded - they never fail)
             requires=["other.efactors <= self.efactors", "len(self.efactors) - len(other.efactors) == 1",
                       f"not {EXTRA}.includes_intercept"],
             ensures=["result is not self", "result is not other",
                      f"result.efactors == with_elem(other.efactors, ExpandedFactor(True, {EXTRA}.factor))",
                      # ... so the absorbed factor is now fully coded, everything of other is kept, nothing else appears
                      f"ExpandedFactor(True, {EXTRA}.factor) in result.efactors", "other.efactors <= result.efactors",
                      "self.efactors == old(self.efactors)", "other.efactors == old(other.efactors)"])
REG.contract(K + "Subterm.__eq__", params={"other": K + "Subterm"}, returns="bool", tags=TAGS,
             ensures=["result == (self.efactors == other.efactors)"])
REG.contract(K + "Subterm.__eq__#other", of=K + "Subterm.__eq__", params={"other": "any"}, returns="bool", tags=TAGS,
             requires=["not is_a(other, 'Subterm')"], ensures=["result == False"])
REG.contract(K + "Subterm.__ne__", params={"other": K + "Subterm"}, returns="bool", tags=TAGS,
             ensures=["result == (not (self.efactors == other.efactors))"])

REG.contract(K + "Subterm.__hash__", returns="int", tags=TAGS, ensures=["result == hash((Subterm, self.efactors))"])

FUNCTIONS += [K + "Subterm." + f for f in ("__init__", "can_absorb", "absorb", "__eq__", "__eq__#other", "__ne__", "__hash__")]
ASSUMPTIONS += ["Python sets of ExpandedFactor objects are z3 sets over the datatype EF(flag, factor): set membership uses the field-wise "
                "equality proved for ExpandedFactor.__eq__ above (and the matching __hash__); cardinality is an uninterpreted function "
                "with the ground facts of vf/pyvc/sets.py (len >= 0 and 0 iff empty; |a - b| = |a| - |b| when b is a subset of a; "
                "|s + {x}| = |s| + [x not in s]; a one-element set equals {its only listed element}); these facts, and that a frozenset of real "
                "ExpandedFactor objects behaves like the set of their (flag, factor) tuples, are compared with CPython on random sets at the start "
                "of every proof run (vf/rtc/extvalid.py)",
                "Subterm.__init__ is verified for a set argument (its callers inside contrasts.py also pass lists of distinct factors)",
                "hash() of a frozenset is an uninterpreted function of its members (equal sets hash alike)"]

"""Contracts for formulae/matrices.py (C17 slices, C10 new groups)."""
import z3

from vf.pyvc import arrays
from vf.pyvc.arrays import width_of
from vf.pyvc.values import SList, SInt, TInt
from vf.pyvc.registry import Loop
from .base import REG

REG.external_objects.update(arrays.external_objects())
M = "formulae.matrices."

REG.declare_ref("FactorName", {"name": "str"})
REG.declare_ref("Term", {"name": "str", "data": "arr", "factor": "ref:FactorName", "kind": "str?"}, {"eval_new_data": "arr"})


@REG.spec([("W", "list[int]"), ("k", "int")], "int")
def psum(W, k):
    """W[0] + ... + W[k-1]"""
    return 0 if k <= 0 else psum(W, k - 1) + W[k - 1]


def psum_prefix(reg, twin=False):
    """Prefix sums depend only on the prefix (checked in Lean: lemmas/psum_prefix.lean)."""
    sp = reg.specs["psum"]
    if getattr(sp, "z3fn", None) is None or (twin and getattr(sp, "twin", None) is None):
        return None
    A = z3.ArraySort(z3.IntSort(), z3.IntSort())
    W1, W2 = z3.Consts("pp_W1 pp_W2", A)
    k, j = z3.Ints("pp_k pp_j")
    f = sp.twin if twin else sp.z3fn
    return z3.ForAll([W1, W2, k], z3.Implies(z3.ForAll([j], z3.Implies(z3.And(0 <= j, j < k), W1[j] == W2[j])),
                                            f(W1, k) == f(W2, k)),
                     patterns=[z3.MultiPattern(f(W1, k), f(W2, k))])


def psum_mono(reg, twin=False):
    """With non-negative widths on [0, j) the prefix sums are monotone (checked in Lean: lemmas/psum_prefix.lean, psum_mono)."""
    sp = reg.specs["psum"]
    if getattr(sp, "z3fn", None) is None or (twin and getattr(sp, "twin", None) is None):
        return None
    A = z3.ArraySort(z3.IntSort(), z3.IntSort())
    W = z3.Const("pm_W", A)
    i, j, q = z3.Ints("pm_i pm_j pm_q")
    f = sp.twin if twin else sp.z3fn
    return z3.ForAll([W, i, j], z3.Implies(z3.And(0 <= i, i <= j, z3.ForAll([q], z3.Implies(z3.And(0 <= q, q < j), W[q] >= 0))),
                                           f(W, i) <= f(W, j)),
                     patterns=[z3.MultiPattern(f(W, i), f(W, j))])


if not hasattr(REG, "lemmas"):
    REG.lemmas = []
REG.lemmas.append(psum_prefix)
psum_mono.opt_in = True
REG.lemmas.append(psum_mono)


def terms_of(m):
    return list(m.terms.values())


def _terms_of(I, a, kw, node):
    return a[0].fields["terms"].lst


def widths(m):
    """widths of the terms' training data (a 1-D block counts as one column)"""
    return [t.data.shape[1] if t.data.ndim == 2 else 1 for t in m.terms.values()]


def _widths_of(I, lst, what, extra=None):
    j = I.ctx.fresh("cj", z3.IntSort())
    ref = lst.elem.wrap(lst.arr[j])
    I.ctx.spec_mode += 1
    try:
        arr = ref.getattr(I, "data", None) if what == "data" else ref.method(I, "eval_new_data", [extra], {}, None)
    finally:
        I.ctx.spec_mode -= 1
    I.ctx.assume(z3.ForAll([j], width_of(arr) >= 0))          # numpy shapes are non-negative
    return SList(lst.len, z3.Lambda([j], width_of(arr)), TInt())


def _widths(I, a, kw, node):
    return _widths_of(I, a[0].fields["terms"].lst, "data")


def new_widths(m, data):
    return [x.shape[1] if x.ndim == 2 else 1 for x in (t.eval_new_data(data) for t in m.terms.values())]


def _new_widths(I, a, kw, node):
    return _widths_of(I, a[0].fields["terms"].lst, "new", a[1])


for _n, _f in (("terms_of", _terms_of), ("widths", _widths), ("new_widths", _new_widths)):
    REG.externals[f"{__name__}.{_n}"] = _f

FIELDS = {"terms": "termdict", "slices": "slicedict", "design_matrix": "arr2", "data": "any", "env": "any", "evaluated": "bool",
          "factors_with_new_levels": "any"}
WF = ["len(terms_of(self)) >= 1",
      # keys of the dict are the (distinct) names of its values
      "forall(0, len(terms_of(self)), lambda i: forall(0, len(terms_of(self)), lambda j: "
      "implies(i != j, terms_of(self)[i].name != terms_of(self)[j].name)))",
      "forall(0, len(terms_of(self)), lambda k: terms_of(self)[k].data.shape[0] == terms_of(self)[0].data.shape[0])"]
SLICES = ("forall(0, len(terms_of(self)), lambda k: terms_of(self)[k].name in self.slices and "
          "self.slices[terms_of(self)[k].name].start == psum({W}, k) and "
          "self.slices[terms_of(self)[k].name].stop == psum({W}, k + 1))")
INV = ["0 <= _i1", "_i1 <= len(terms_of(self))", "start == psum({W}, _i1)",
       "forall(0, _i1, lambda k: terms_of(self)[k].name in self.slices and "
       "self.slices[terms_of(self)[k].name].start == psum({W}, k) and "
       "self.slices[terms_of(self)[k].name].stop == psum({W}, k + 1))"]

for cls in ("CommonEffectsMatrix", "GroupEffectsMatrix"):
    REG.declare_class(M + cls, dict(FIELDS))
    REG.contract(M + cls + ".evaluate", params={"data": "any", "env": "any"}, tags=["C17"], lemmas=["psum_mono"],
                 requires=WF, modifies=["self.data", "self.env", "self.design_matrix", "self.slices", "self.evaluated"],
                 ensures=["self.evaluated",
                          # slices are contiguous, start at zero, follow the term order ...
                          SLICES.format(W="widths(self)"),
                          # ... and exactly cover the columns
                          "self.design_matrix.shape[1] == psum(widths(self), len(terms_of(self)))",
                          "self.design_matrix.shape[0] == terms_of(self)[0].data.shape[0]",
                          # every slice lies within the stacked matrix
                          "forall(0, len(terms_of(self)), lambda k: 0 <= self.slices[terms_of(self)[k].name].start and "
                          "self.slices[terms_of(self)[k].name].start <= self.slices[terms_of(self)[k].name].stop and "
                          "self.slices[terms_of(self)[k].name].stop <= self.design_matrix.shape[1])",
                          # ... and block k of the stacked matrix holds exactly term k's data
                          "forall(0, len(terms_of(self)), lambda k: forall(0, self.design_matrix.shape[0], lambda r: "
                          "forall(0, widths(self)[k], lambda c: self.design_matrix[r, psum(widths(self), k) + c] == terms_of(self)[k].data[r, c])))"],
                 loops={1: Loop(invariant=[c.format(W="widths(self)") for c in INV], modifies=["self.slices"])})
    REG.contract(M + cls + ".__getitem__", params={"term": "str"}, returns="arr2", tags=["C17"],
                 raises={"ValueError": "term not in self.slices"},
                 requires=["implies(term in self.slices, 0 <= self.slices[term].start and "
                           "self.slices[term].start <= self.slices[term].stop and "
                           "self.slices[term].stop <= self.design_matrix.shape[1])"],
                 ensures=["result.shape[0] == self.design_matrix.shape[0]",
                          "result.shape[1] == self.slices[term].stop - self.slices[term].start",
                          "forall(0, result.shape[0], lambda r: forall(0, result.shape[1], lambda c: "
                          "result[r, c] == self.design_matrix[r, self.slices[term].start + c]))"])

REG.contract(M + "get_slice_width", params={"s": "any"}, inline=True)

# ---- evaluate_new_data of the group matrix: slices are rebuilt from the new widths; factors with new groups
NEW_INV = ["0 <= _i1", "_i1 <= len(terms_of(self))", "start == psum(new_widths(self, data), _i1)",
           "len(matrices_to_stack) == _i1",
           "forall(0, _i1, lambda k: matrices_to_stack.width(k) == new_widths(self, data)[k])",
           "implies(_i1 > 0, matrices_to_stack.rows == terms_of(self)[0].eval_new_data(data).shape[0])",
           "forall(0, _i1, lambda k: terms_of(self)[k].name in new_instance.slices and "
           "new_instance.slices[terms_of(self)[k].name].start == psum(new_widths(self, data), k) and "
           "new_instance.slices[terms_of(self)[k].name].stop == psum(new_widths(self, data), k + 1))",
           # a factor is listed iff one of the terms seen so far is wider than in the TRAINING design (the widths of the terms' own data -
           # not the slices of this object, which may itself come from evaluate_new_data and already hold a new group: fix b7f6a2b)
           "forall(0, len(factors_with_new_levels), lambda q: exists(0, _i1, lambda k: "
           "factors_with_new_levels[q] == terms_of(self)[k].factor.name and "
           "new_widths(self, data)[k] != widths(self)[k]))",
           "forall(0, _i1, lambda k: implies(new_widths(self, data)[k] != widths(self)[k], "
           "terms_of(self)[k].factor.name in factors_with_new_levels))",
           "forall(0, len(factors_with_new_levels), lambda a: forall(0, len(factors_with_new_levels), lambda b: "
           "implies(a != b, factors_with_new_levels[a] != factors_with_new_levels[b])))"]
REG.contract(M + "GroupEffectsMatrix.__init__", params={"terms": "list[ref:Term]"}, tags=["C17"],
             # one dict entry per term: the names must be distinct (Model's term lists are duplicate-free by name: C02)
             requires=["forall(0, len(terms), lambda i: forall(0, len(terms), lambda j: implies(i != j, terms[i].name != terms[j].name)))"],
             modifies=["self.terms", "self.data", "self.env", "self.design_matrix", "self.slices", "self.evaluated",
                       "self.factors_with_new_levels"],
             ensures=["len(terms_of(self)) == len(terms)", "forall(0, len(terms), lambda k: terms_of(self)[k] == terms[k])",
                      "not self.evaluated", "is_fresh(self.slices)"])
REG.contract(M + "GroupEffectsMatrix.evaluate_new_data", params={"data": "any"}, returns=M + "GroupEffectsMatrix",
             tags=["C10", "C17"],
             requires=WF + ["self.evaluated",
                            "forall(0, len(terms_of(self)), lambda k: terms_of(self)[k].name in self.slices)",
                            "forall(0, len(terms_of(self)), lambda k: terms_of(self)[k].eval_new_data(data).shape[0] == "
                            "terms_of(self)[0].eval_new_data(data).shape[0])"],
             raises={"ValueError": None},
             ensures=["result.evaluated", "len(terms_of(result)) == len(terms_of(self))",
                      SLICES.format(W="new_widths(self, data)").replace("self.slices", "result.slices"),
                      "result.design_matrix.shape[1] == psum(new_widths(self, data), len(terms_of(self)))",
                      # the training object is not touched
                      "self.slices == old(self.slices)",
                      # C10: factors_with_new_levels names exactly the factors one of whose terms got wider than at training, each once
                      "forall(0, len(result.factors_with_new_levels), lambda q: exists(0, len(terms_of(self)), lambda k: "
                      "result.factors_with_new_levels[q] == terms_of(self)[k].factor.name and new_widths(self, data)[k] != widths(self)[k]))",
                      "forall(0, len(terms_of(self)), lambda k: implies(new_widths(self, data)[k] != widths(self)[k], "
                      "terms_of(self)[k].factor.name in result.factors_with_new_levels))"],
             loops={1: Loop(invariant=NEW_INV, havoc={"matrices_to_stack": "arrseq", "factors_with_new_levels": "list[str]"},
                            modifies=[])})
REG.contract(M + "CommonEffectsMatrix.__init__", params={"terms": "list[ref:Term]"}, tags=["C17"],
             # one dict entry per term: the names must be distinct (Model's term lists are duplicate-free by name: C02)
             requires=["forall(0, len(terms), lambda i: forall(0, len(terms), lambda j: implies(i != j, terms[i].name != terms[j].name)))"],
             modifies=["self.terms", "self.data", "self.env", "self.design_matrix", "self.slices", "self.evaluated"],
             ensures=["len(terms_of(self)) == len(terms)", "forall(0, len(terms), lambda k: terms_of(self)[k] == terms[k])",
                      "not self.evaluated", "is_fresh(self.slices)"])
REG.contract(M + "CommonEffectsMatrix.evaluate_new_data", params={"data": "any"}, returns=M + "CommonEffectsMatrix",
             tags=["C17", "C06"],
             requires=WF + ["self.evaluated",
                            # from the eval_new_data chain (variable_c / terms): a common term keeps its training width
                            "forall(0, len(terms_of(self)), lambda k: new_widths(self, data)[k] == widths(self)[k])",
                            "forall(0, len(terms_of(self)), lambda k: terms_of(self)[k].eval_new_data(data).shape[0] == "
                            "terms_of(self)[0].eval_new_data(data).shape[0])"],
             raises={"ValueError": None},
             ensures=["result.evaluated", "len(terms_of(result)) == len(terms_of(self))",
                      "result.slices == self.slices", "self.slices == old(self.slices)",
                      "result.design_matrix.shape[1] == psum(widths(self), len(terms_of(self)))",
                      "result.design_matrix.shape[0] == terms_of(self)[0].eval_new_data(data).shape[0]"])

FUNCTIONS = [M + "CommonEffectsMatrix.evaluate_new_data", M + "CommonEffectsMatrix.evaluate", M + "GroupEffectsMatrix.evaluate", M + "CommonEffectsMatrix.__getitem__",
             M + "GroupEffectsMatrix.__getitem__", M + "GroupEffectsMatrix.evaluate_new_data",
             M + "CommonEffectsMatrix.__init__", M + "GroupEffectsMatrix.__init__"]


ASSUMPTIONS = ['a dict comprehension {t.name: t for t in L} with pairwise distinct keys (an obligation) is the insertion-ordered dict of L',
               'term objects are read-only references: .name, .data, .factor.name and eval_new_data(data) are functions of the object (and the frame)',
               'np.column_stack of a list of arrays: widths add up and blocks are laid out in order (prefix sums); lemma psum_prefix is checked in Lean (lemmas/psum_prefix.lean)',
               'the key order of the slices dict is not modelled (only the mapping name -> slice)']


# ---- ResponseMatrix.evaluate (C15): the response matrix IS the response term's data, kind and levels - nothing reshaped ------
REG.declare_class(M + "ResponseMatrix", {"term": "any", "name": "any", "data": "any", "design_matrix": "any", "env": "any",
                                          "kind": "any", "levels": "any"})
REG.contract(M + "ResponseMatrix.evaluate", params={"data": "any", "env": "any"}, tags=["C15"],
             modifies=["self.data", "self.env", "self.kind", "self.design_matrix", "self.levels"],
             ensures=["self.design_matrix == self.term.term.data", "self.kind == self.term.term.kind",
                      "self.levels == self.term.term.levels", "self.data == data", "self.env == env"])
FUNCTIONS += [M + "ResponseMatrix.evaluate"]
RESPONSE = [M + "ResponseMatrix.evaluate"]
ASSUMPTIONS += ["ResponseMatrix.evaluate: the response term is an opaque object; its set_type / set_data calls happen before its data, kind "
                "and levels are read (their own behaviour is the subject of variable_c / terms_c and of the bounded tier)"]

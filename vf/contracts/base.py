"""One registry shared by all contract modules (callers see their callees' contracts)."""
from vf.pyvc.registry import Registry

REG = Registry()

"""One registry shared by all contract modules (callers see their callees' contracts)."""
from vf.pyvc.registry import Registry

REG = Registry()


def none_unique(reg, twin=False):
    """None is ONE value: every opaque value recognised as None equals the constant U!None (Python: there is a single None)."""
    import z3
    from vf.pyvc.values import TOpaque
    from vf.pyvc.ops import opaque_pred
    U = TOpaque().sort()
    x = z3.Const("nu_x", U)
    isn = opaque_pred("is_none")
    none_u = z3.Const("U!None", U)
    return z3.And(isn(none_u), z3.ForAll([x], z3.Implies(isn(x), x == none_u), patterns=[isn(x)]))


REG.lemmas = [none_unique]

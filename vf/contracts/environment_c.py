"""Contracts for formulae/environment.py (C11: first match wins, in the order of the namespaces)."""
import z3

from formulae.environment import VarLookupDict, Environment

from vf.pyvc.registry import Registry, Loop
from vf.pyvc.dicts import SDictV, TDict

from .base import REG
REG.declare_class("formulae.environment.VarLookupDict", {"_dicts": "list[dict]"})
REG.declare_class("formulae.environment.Environment", {"_namespaces": "list[dict]"})
V = "formulae.environment.VarLookupDict."
E = "formulae.environment.Environment."
TAGS = ["C11"]


def dict_set(d, k, v):
    """d with d[k] = v (executable on real dicts)."""
    r = dict(d)
    r[k] = v
    return r


def _dict_set(I, a, kw, node):
    d = a[0] if isinstance(a[0], SDictV) else SDictV(TDict().unwrap(a[0], I.ctx))
    return d.with_item(I, a[1], a[2])


REG.externals[f"{__name__}.dict_set"] = _dict_set

FIRST = ("exists(0, len(self._dicts), lambda m: key in self._dicts[m] and result == self._dicts[m][key] "
         "and forall(0, m, lambda j: key not in self._dicts[j]))")
NONE_HAS = "forall(0, len(self._dicts), lambda j: key not in self._dicts[j])"

REG.contract(V + "__init__", params={"dicts": "list[dict]"}, modifies=["self._dicts"], tags=TAGS,
             ensures=["len(self._dicts) == len(dicts) + 1",
                      "self._dicts[0] == {}",
                      "forall(1, len(dicts) + 1, lambda i: self._dicts[i] == dicts[i - 1])",
                      "forall(0, len(dicts), lambda j: self._dicts[j + 1] == dicts[j])"])
REG.contract(V + "__getitem__", params={"key": "str"}, returns="any", tags=TAGS,
             raises={"KeyError": NONE_HAS}, ensures=[FIRST],
             loops={1: Loop(invariant=["0 <= _i1", "_i1 <= len(self._dicts)",
                                       "forall(0, _i1, lambda j: key not in self._dicts[j])"])})
REG.contract(V + "__contains__", params={"key": "str"}, returns="bool", tags=TAGS,
             ensures=["result == exists(0, len(self._dicts), lambda j: key in self._dicts[j])"])
REG.contract(V + "get", params={"key": "str", "default": "any"}, returns="any", tags=TAGS,
             ensures=[f"implies(not ({NONE_HAS}), {FIRST})", f"implies({NONE_HAS}, result == default)"])
REG.contract(V + "__setitem__", params={"key": "str", "value": "any"}, modifies=["self._dicts"], tags=TAGS,
             requires=["len(self._dicts) >= 1"],
             ensures=["len(self._dicts) == old(len(self._dicts))",
                      "self._dicts[0] == dict_set(old(self._dicts[0]), key, value)",
                      "forall(1, len(self._dicts), lambda j: self._dicts[j] == old(self._dicts)[j])"])

REG.contract(E + "__init__", params={"namespaces": "list[dict]"}, modifies=["self._namespaces"], tags=TAGS,
             ensures=["len(self._namespaces) == len(namespaces)",
                      "forall(0, len(namespaces), lambda j: self._namespaces[j] == namespaces[j])"])
REG.contract(E + "namespace", returns="formulae.environment.VarLookupDict", tags=TAGS,
             ensures=["len(result._dicts) == len(self._namespaces) + 1", "result._dicts[0] == {}",
                      "forall(1, len(self._namespaces) + 1, lambda i: result._dicts[i] == self._namespaces[i - 1])",
                      # the same fact indexed from the namespaces' side (gives the solver a trigger in both directions)
                      "forall(0, len(self._namespaces), lambda j: result._dicts[j + 1] == self._namespaces[j])"])
REG.contract(E + "with_outer_namespace", params={"outer_namespace": "dict"}, returns="formulae.environment.Environment",
             tags=TAGS,
             ensures=["len(result._namespaces) == len(self._namespaces) + 1",
                      "forall(0, len(self._namespaces), lambda j: result._namespaces[j] == self._namespaces[j])",
                      "result._namespaces[len(self._namespaces)] == outer_namespace"])

FUNCTIONS = [V + f for f in ("__init__", "__getitem__", "__contains__", "get", "__setitem__")] + \
            [E + f for f in ("__init__", "namespace", "with_outer_namespace")]


ASSUMPTIONS = ['namespaces are modelled as dicts from names to opaque values; a VarLookupDict nested inside another (Call.set_type passes env.namespace as a namespace) is assumed to behave as the dict of its first matches']

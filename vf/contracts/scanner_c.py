"""Contracts for formulae/scanner.py (C01: every character of the formula is either a blank between tokens or part
of exactly one token; at most one '~'; unterminated quotes are rejected; the implicit intercept is inserted at a
fixed place).

The property-level claim is the composition of the per-function contracts below:
  * `scan` calls `scan_token` only with start == current, while current < len(code);
  * `scan_token` always consumes at least one character and either appends exactly ONE token whose lexeme is
    precisely the consumed span code[start:current], or appends nothing and the single consumed character is a blank;
  * nothing else changes `tokens`.
Hence the consumed spans tile the input and every non-blank character lies in the lexeme of exactly one token.
"""
import z3
from vf.pyvc.values import Unsupported

from formulae.scanner import Scanner, ScanError   # noqa: F401
from formulae.token import Token                  # noqa: F401

from vf.pyvc.registry import Loop
from vf.pyvc.values import SOpaque, SList, SInt
from vf.pyvc.opaque import ufun, U
from vf.pyvc.chars import TChar, text_id, class_axioms
from vf.pyvc.ops import int_term
from .base import REG
from . import parser_c   # noqa: F401  (Tok / Val datatypes)

S = "formulae.scanner.Scanner."
REG.declare_class("formulae.scanner.Scanner", {"code": "list[char]", "start": "int", "current": "int", "tokens": "list[Tok]"})
TAGS = ["C01", "C12"]


def text(code, a, b):
    """the substring code[a:b] (specification helper; executable on real strings)"""
    return code[a:b]


def _text(I, a, kw, node):
    from vf.pyvc.values import SStr
    code, lo, hi = a
    i = z3.Int("sl_i")
    lo_t, hi_t = int_term(lo), int_term(hi)
    sub = SList(z3.simplify(hi_t - lo_t), z3.Lambda([i], code.arr[i + lo_t]), code.elem)
    return SStr(text_id(sub))


REG.externals[f"{__name__}.text"] = _text


def _of_text(which):
    def model(I, a, kw, node):
        from vf.pyvc.values import SStr
        v = a[0]
        if isinstance(v, SList) and len(a) == 1:
            return SOpaque(ufun(which + ".of_text", z3.IntSort(), U())(text_id(v)), "any")
        if isinstance(v, (str, SStr)) and len(a) == 1:
            from vf.pyvc.ops import str_term
            return SOpaque(ufun(which + ".of_text", z3.IntSort(), U())(str_term(v)), "any")
        raise Unsupported(f"{which}() of a non-text value")
    return model


def int_of(s):
    """int(s) of a lexeme (specification helper; executable on real strings)"""
    return int(s)


def float_of(s):
    return float(s)


def eval_of(s):
    return eval(s)      # pylint: disable=eval-used


for _f, _n in ((float, "float"), (int, "int"), (eval, "eval")):
    REG.external_objects[_f] = _of_text(_n)
    REG.externals[f"{__name__}.{_n}_of"] = _of_text(_n)

if not hasattr(REG, "lemmas"):
    REG.lemmas = []


def char_classes(reg, twin=False):
    return z3.And(*class_axioms())


REG.lemmas.append(char_classes)

BOUNDS = ["0 <= self.start", "self.start <= self.current", "self.current <= len(self.code)", "len(self.tokens) >= 0"]
INB = ["0 <= self.current", "self.current < len(self.code)"]
BLANK = "(self.code[old(self.current)] == ' ' or self.code[old(self.current)] == '\\n' or self.code[old(self.current)] == '\\t' or self.code[old(self.current)] == '\\r')"
ONE_TOKEN = ["len(self.tokens) == old(len(self.tokens)) + 1",
             "forall(0, old(len(self.tokens)), lambda k: self.tokens[k] == old(self.tokens)[k])",
             "self.tokens[old(len(self.tokens))].lexeme == text(self.code, self.start, self.current)",
             "self.tokens[old(len(self.tokens))] is not None"]

REG.contract(S + "at_end", returns="bool", tags=TAGS, ensures=["result == (self.current >= len(self.code))"])
REG.contract(S + "advance", returns="char", tags=TAGS, requires=["0 <= self.current"], modifies=["self.current"],
             raises={"IndexError": "self.current >= len(self.code)"},       # backquote() relies on this at the end of input
             ensures=["self.current == old(self.current) + 1", "result == self.code[old(self.current)]"])
REG.contract(S + "peek", returns="char", tags=TAGS, requires=["0 <= self.current"],
             ensures=["implies(self.current >= len(self.code), result == '')",
                      "implies(self.current < len(self.code), result == self.code[self.current])"])
REG.contract(S + "peek_next", returns="char", tags=TAGS, requires=["0 <= self.current"],
             ensures=["implies(self.current + 1 >= len(self.code), result == '')",
                      "implies(self.current + 1 < len(self.code), result == self.code[self.current + 1])"])
REG.contract(S + "match", params={"expected": "char"}, returns="bool", tags=TAGS, requires=["0 <= self.current"],
             modifies=["self.current"],
             ensures=["result == (old(self.current) < len(self.code) and self.code[old(self.current)] == expected)",
                      "self.current == old(self.current) + (1 if result else 0)"])
REG.contract(S + "add_token", params={"kind": "str", "literal": "Val"}, tags=TAGS, requires=BOUNDS, modifies=["self.tokens"],
             ensures=ONE_TOKEN + ["self.tokens[old(len(self.tokens))].kind == kind",
                                  "self.tokens[old(len(self.tokens))].literal == literal"])

LEX = dict(requires=BOUNDS + ["self.start < self.current"], modifies=["self.current", "self.tokens"], tags=TAGS)
DIGITS_TO = "forall(old(self.current), {hi}, lambda k: self.code[k].isdigit())"
REG.contract(S + "floatnum", **LEX,
             ensures=ONE_TOKEN + ["self.current >= old(self.current)", "self.current <= len(self.code)",
                                  "self.tokens[old(len(self.tokens))].kind == 'NUMBER'",
                                  # C12: the literal is Python's float() of exactly the spelled text
                                  "self.tokens[old(len(self.tokens))].literal == float_of(text(self.code, self.start, self.current))",
                                  DIGITS_TO.format(hi="self.current")],
             loops={1: Loop(invariant=["old(self.current) <= self.current", "self.current <= len(self.code)",
                                       DIGITS_TO.format(hi="self.current")], modifies=["self.current"],
                            decreases="len(self.code) - self.current")})
REG.contract(S + "number", **LEX,
             ensures=ONE_TOKEN + ["self.current >= old(self.current)", "self.current <= len(self.code)",
                                  "self.tokens[old(len(self.tokens))].kind == 'NUMBER'",
                                  # digits, optionally one '.' followed by at least one digit and more digits
                                  "forall(old(self.current), self.current, lambda k: self.code[k].isdigit() or "
                                  "(self.code[k] == '.' and k + 1 < self.current and self.code[k + 1].isdigit()))",
                                  # C12: an integer spelling is read by int() - exactly, whatever its size - and one with a
                                  # fractional part by float(), both of exactly the spelled text
                                  "implies(forall(old(self.current), self.current, lambda k: self.code[k] != '.'), "
                                  "self.tokens[old(len(self.tokens))].literal == int_of(text(self.code, self.start, self.current)))",
                                  "implies(exists(old(self.current), self.current, lambda k: self.code[k] == '.'), "
                                  "self.tokens[old(len(self.tokens))].literal == float_of(text(self.code, self.start, self.current)))"],
             loops={1: Loop(invariant=["old(self.current) <= self.current", "self.current <= len(self.code)",
                                       "not is_float", DIGITS_TO.format(hi="self.current")], modifies=["self.current"],
                            decreases="len(self.code) - self.current"),
                    2: Loop(invariant=["old(self.current) < self.current", "self.current <= len(self.code)", "is_float",
                                       "exists(old(self.current), self.current, lambda d: self.code[d] == '.' and "
                                       "forall(old(self.current), d, lambda k: self.code[k].isdigit()) and "
                                       "forall(d + 1, self.current, lambda k: self.code[k].isdigit()) and "
                                       "implies(self.current == d + 1, self.current < len(self.code) and self.code[self.current].isdigit()))"],
                            modifies=["self.current"], decreases="len(self.code) - self.current")})
IDCH = "(self.code[k].isalnum() or self.code[k] == '.' or self.code[k] == '_')"
REG.contract(S + "identifier", **LEX,
             ensures=ONE_TOKEN + ["self.current >= old(self.current)", "self.current <= len(self.code)",
                                  # C12: True / False / None are literals with Python's value, every other name is a name
                                  "(self.tokens[old(len(self.tokens))].kind == 'PYTHON_LITERAL') == "
                                  "(text(self.code, self.start, self.current) in ('True', 'False', 'None'))",
                                  "(self.tokens[old(len(self.tokens))].kind == 'IDENTIFIER') == "
                                  "(text(self.code, self.start, self.current) not in ('True', 'False', 'None'))",
                                  "implies(self.tokens[old(len(self.tokens))].kind == 'PYTHON_LITERAL', "
                                  "self.tokens[old(len(self.tokens))].literal == eval_of(text(self.code, self.start, self.current)))",
                                  "implies(self.tokens[old(len(self.tokens))].kind == 'IDENTIFIER', "
                                  "self.tokens[old(len(self.tokens))].literal is None)",
                                  f"forall(old(self.current), self.current, lambda k: {IDCH})",
                                  # maximal munch: the identifier stops only before a non-identifier character
                                  "implies(self.current < len(self.code), not (self.code[self.current].isalnum() or "
                                  "self.code[self.current] == '.' or self.code[self.current] == '_'))"],
             loops={1: Loop(invariant=["old(self.current) <= self.current", "self.current <= len(self.code)",
                                       f"forall(old(self.current), self.current, lambda k: {IDCH})"], modifies=["self.current"],
                            decreases="len(self.code) - self.current")})
REG.contract(S + "char", requires=BOUNDS + ["self.start < self.current"], modifies=["self.current", "self.tokens"], tags=TAGS,
             raises={"ScanError": "forall(self.current, len(self.code), lambda k: self.code[k] != \"'\" and self.code[k] != '\"')"},
             ensures=ONE_TOKEN + ["self.current > old(self.current)", "self.current <= len(self.code)",
                                  "self.tokens[old(len(self.tokens))].kind == 'STRING'",
                                  # C12: the literal is the text between the quotes, unchanged
                                  "self.tokens[old(len(self.tokens))].literal == text(self.code, self.start + 1, self.current - 1)",
                                  # the token ends with the first quote after the opening one
                                  "self.code[self.current - 1] == \"'\" or self.code[self.current - 1] == '\"'",
                                  "forall(old(self.current), self.current - 1, lambda k: self.code[k] != \"'\" and self.code[k] != '\"')"],
             loops={1: Loop(invariant=["old(self.current) <= self.current", "self.current <= len(self.code)",
                                       "forall(old(self.current), self.current, lambda k: self.code[k] != \"'\" and self.code[k] != '\"')"],
                            modifies=["self.current"], decreases="len(self.code) - self.current")})
REG.contract(S + "backquote", requires=BOUNDS + ["self.start < self.current"], modifies=["self.current", "self.tokens"], tags=TAGS,
             raises={"IndexError": "forall(self.current, len(self.code), lambda k: self.code[k] != '`')"},
             ensures=ONE_TOKEN + ["self.current > old(self.current)", "self.current <= len(self.code)",
                                  "self.tokens[old(len(self.tokens))].kind == 'BQNAME'",
                                  "self.code[self.current - 1] == '`'",
                                  "forall(old(self.current), self.current - 1, lambda k: self.code[k] != '`')"],
             loops={1: Loop(invariant=["old(self.current) <= self.current", "self.current <= len(self.code)",
                                       "forall(old(self.current), self.current, lambda k: self.code[k] != '`')"],
                            modifies=["self.current"])})

REG.contract(S + "scan_token", requires=BOUNDS + INB + ["self.start == self.current"],
             modifies=["self.current", "self.tokens"], tags=TAGS,
             raises={"ScanError": None, "IndexError": None},
             ensures=["self.current > old(self.current)", "self.current <= len(self.code)",
                      "forall(0, old(len(self.tokens)), lambda k: self.tokens[k] == old(self.tokens)[k])",
                      # exactly one token spelling the consumed span, or one blank and no token
                      "(len(self.tokens) == old(len(self.tokens)) + 1 and self.tokens[old(len(self.tokens))] is not None and "
                      "self.tokens[old(len(self.tokens))].kind != 'EOF' and "
                      "self.tokens[old(len(self.tokens))].lexeme == text(self.code, old(self.current), self.current)) or "
                      f"(len(self.tokens) == old(len(self.tokens)) and self.current == old(self.current) + 1 and {BLANK})"])

REG.contract("formulae.scanner.is_tilde", inline=True, tags=TAGS)
ONE = "Token('NUMBER', '1', 1)"
PLUS = "Token('PLUS', '+')"
REG.contract(S + "scan", params={"add_intercept": "bool"}, returns="list[Tok]", tags=TAGS,
             requires=["self.start == 0", "self.current == 0", "len(self.tokens) == 0", "len(self.code) >= 1"],
             modifies=["self.start", "self.current", "self.tokens"],
             raises={"ScanError": None, "IndexError": None},
             ensures=["self.current == len(self.code)",                       # the whole string was scanned
                      "len(result) >= 1", "result[len(result) - 1].kind == 'EOF'",
                      "forall(0, len(result), lambda k: result[k] is not None)",
                      "forall(0, len(result) - 1, lambda k: result[k].kind != 'EOF')",      # what Parser requires of its input
                      # at most one '~'
                      "forall(0, len(result), lambda a: forall(0, len(result), lambda b: "
                      "implies(result[a].kind == 'TILDE' and result[b].kind == 'TILDE', a == b)))",
                      # the implicit intercept goes to the front, or right after the '~', and nowhere else
                      f"implies(add_intercept and forall(0, len(result), lambda k: result[k].kind != 'TILDE'), "
                      f"result[0] == {ONE} and result[1] == {PLUS})",
                      f"implies(add_intercept, forall(0, len(result), lambda t: implies(result[t].kind == 'TILDE', "
                      f"t + 2 < len(result) and result[t + 1] == {ONE} and result[t + 2] == {PLUS})))"],
             loops={1: Loop(invariant=["0 <= self.start", "self.start <= self.current", "self.current <= len(self.code)",
                                       "forall(0, len(self.tokens), lambda k: self.tokens[k].kind != 'EOF')",
                                       "forall(0, len(self.tokens), lambda k: self.tokens[k] is not None)"],
                            modifies=["self.start", "self.current", "self.tokens"])})

# the scanner reads exactly the characters it was given (no rewriting of the text before scanning: blanks inside literals are the user's)
REG.contract(S + "__init__", params={"code": "list[char]"}, tags=TAGS, modifies=["self.code", "self.start", "self.current", "self.tokens"],
             raises={"ScanError": "len(code) == 0"},
             ensures=["self.code == code", "self.start == 0", "self.current == 0", "len(self.tokens) == 0", "len(code) > 0"])

FUNCTIONS = [S + f for f in ("__init__", "scan", "at_end", "advance", "peek", "peek_next", "match", "add_token", "floatnum", "number", "identifier",
                             "char", "backquote", "scan_token")]
ASSUMPTIONS = ["strings are lists of code points; str.isdigit/isalpha/isalnum are uninterpreted predicates with the facts the scanner "
               "relies on (isalpha or isdigit implies isalnum - NOT an equivalence in CPython; isdigit excludes isalpha; ASCII digits are digits; blanks, quotes and operator characters are none of the three; "
               "'' is neither) - validated against CPython for all code points < 0x3000 by ext-valid",
               "float() / int() / eval() of a lexeme are uninterpreted functions of the lexeme text",
               "the spelling of a span is an uninterpreted function of its characters and length (Token.lexeme is an atom id)"]

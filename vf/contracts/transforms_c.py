"""Contracts for formulae/transforms.py (C06/C07 write-once fitted state, C14 shapes, C16 helpers)."""
import z3
import numpy as np
from scipy.interpolate import splev

from formulae import transforms as tr

from vf.pyvc import arrays
from vf.pyvc.arrays import SArr, rterm
from vf.pyvc.values import SReal, SInt, SOpaque, SList, TOpaque, Unsupported
from vf.pyvc.opaque import ufun, U
from vf.pyvc.registry import Loop
from vf.pyvc import pandas_m
from .base import REG

REG.external_objects.update(arrays.external_objects())
REG.external_objects.update(pandas_m.external_objects())
T = "formulae.transforms."
I_ = z3.IntSort()
R_ = z3.RealSort()


def _as_lambda(x):
    i = z3.Int("red_i")
    return z3.Lambda([i], x.at(i, z3.IntVal(0)))


def _reduction(name):
    def model(I, a, kw, node):
        x = a[0]
        if not isinstance(x, SArr):
            raise Unsupported(f"np.{name} of {x!r}")
        f = ufun("np." + name, I_, z3.ArraySort(I_, R_), R_)
        return SReal(f(x.n0, _as_lambda(x)))
    return model


for _n in ("mean", "std", "min", "max"):
    REG.external_objects[getattr(np, _n)] = _reduction(_n)
    REG.externals[f"{__name__}.np_{_n}"] = _reduction(_n)


def np_mean(x):
    return np.mean(x)


def np_std(x):
    return np.std(x)


def np_min(x):
    return np.min(x)


def np_max(x):
    return np.max(x)


REG.declare_class(T + "Center", {"params_set": "bool", "mean": "real"})
REG.declare_class(T + "Scale", {"params_set": "bool", "mean": "real", "std": "real"})
WO = ["C06", "C07", "C14"]
REG.contract(T + "Center.__call__", params={"x": "arr1"}, returns="arr1", tags=WO, modifies=["self.params_set", "self.mean"],
             ensures=["self.params_set",
                      "implies(old(self.params_set), self.mean == old(self.mean))",          # frozen once fitted
                      "implies(not old(self.params_set), self.mean == np_mean(x))",
                      "result.shape[0] == x.shape[0]",
                      "forall(0, x.shape[0], lambda r: result[r] == x[r] - self.mean)"])      # the same affine map on any data
REG.contract(T + "Scale.__call__", params={"x": "arr1"}, returns="arr1", tags=WO,
             modifies=["self.params_set", "self.mean", "self.std"],
             ensures=["self.params_set",
                      "implies(old(self.params_set), self.mean == old(self.mean) and self.std == old(self.std))",
                      "implies(not old(self.params_set), self.mean == np_mean(x) and self.std == np_std(x))",
                      "result.shape[0] == x.shape[0]",
                      "forall(0, x.shape[0], lambda r: result[r] == (x[r] - self.mean) / self.std)"])

# ---- BSpline: parameters are fixed by the first call; number of basis columns
REG.declare_class(T + "BSpline", {"params_set": "bool", "_intercept": "bool", "_degree": "int", "_knots": "arr1"})
def quantile_knots(x, n):
    """the n inner knots placed at equally spaced quantiles of the data (specification helper; executable)"""
    return np.percentile(x, 100 * np.asarray(np.linspace(0, 1, n + 2)[1:-1]))


def _quantile_knots(I, a, kw, node):
    from vf.pyvc.values import SSlice
    x, n = a
    lin = arrays.np_linspace(I, [0, 1, I.binop("+", n, 2)], {}, node)
    q = lin.getitem(I, SSlice(1, -1), node).binop(I, "*", 100, True)
    return arrays.np_percentile(I, [x, q], {}, node)


REG.externals[f"{__name__}.quantile_knots"] = _quantile_knots
BS_PARAMS = {"x": "arr1", "df": "int?", "knots": "arr1?", "degree": "int", "intercept": "bool", "lower_bound": "real?", "upper_bound": "real?"}
NIN = "(df - (degree + 1) + (0 if intercept else 1))"                  # inner knots implied by df
LB = "(np_min(x) if lower_bound is None else lower_bound)"
UB = "(np_max(x) if upper_bound is None else upper_bound)"
INNER = f"(knots if knots is not None else quantile_knots(x, {NIN}))"
REFUSED = (f"degree < 0 or (df is None and knots is None) or (df is not None and {NIN} < 0) or "
           f"(df is not None and knots is not None and len(knots) != {NIN}) or {LB} > {UB} or "
           f"exists(0, len({INNER}), lambda k: {INNER}[k] < {LB} or {INNER}[k] > {UB})")
REG.contract(T + "BSpline._initialize", params=BS_PARAMS,
             requires=["x.shape[0] >= 1"],
             modifies=["self.params_set", "self._intercept", "self._degree", "self._knots"], tags=WO + ["C14"],
             # C14 "invalid df/degree/knots/bounds are refused": exactly these parameter combinations, and nothing is stored then
             raises={"ValueError": REFUSED},
             ensures=["self.params_set", "self._degree == degree", "self._intercept == intercept",
                      # order boundary knots at each end + the inner knots
                      f"self._knots.shape[0] == 2 * (degree + 1) + len({INNER})",
                      # C14 "as many columns as df (or knots + degree, plus one with intercept)"
                      "implies(df is not None, self._knots.shape[0] - (degree + 1) - (0 if intercept else 1) == df)",
                      "implies(df is None, self._knots.shape[0] - (degree + 1) - (0 if intercept else 1) == "
                      "len(knots) + degree + (1 if intercept else 0))",
                      "self._knots.shape[0] - (self._degree + 1) >= 1",
                      # the knot vector is ascending
                      "forall(0, self._knots.shape[0] - 1, lambda k: self._knots[k] <= self._knots[k + 1])"])
REG.contract(T + "BSpline.eval", params={"x": "arr1"}, returns="arr2", tags=["C14", "C06"],
             requires=["self._knots.shape[0] - (self._degree + 1) >= 1", "x.shape[0] >= 1"],
             ensures=["result.shape[0] == x.shape[0]",
                      "result.shape[1] == self._knots.shape[0] - (self._degree + 1) - (0 if self._intercept else 1)",
                      # row r holds the basis functions of the remembered knots at x[r] (the first one dropped without intercept):
                      # a function of x[r] and the fitted parameters only
                      "forall(0, x.shape[0], lambda r: forall(0, result.shape[1], lambda c: "
                      "result[r, c] == bs_basis(self, x[r], c + (0 if self._intercept else 1))))"],
             loops={1: Loop(invariant=["0 <= _i1", "basis.shape[0] == x.shape[0]",
                                       "basis.shape[1] == self._knots.shape[0] - (self._degree + 1)",
                                       "forall(0, x.shape[0], lambda r: forall(0, _i1, lambda c: basis[r, c] == bs_basis(self, x[r], c)))"],
                            havoc={"basis": "arr2"})})
REG.contract(T + "BSpline.__call__", params=BS_PARAMS, returns="arr2", tags=WO + ["C14"],
             frame_when={"self.params_set": ["self.params_set", "self._intercept", "self._degree", "self._knots"]},
             requires=["implies(self.params_set, self._knots.shape[0] - (self._degree + 1) >= 1)",
                       "x.shape[0] >= 1"],         # scipy's splev refuses an empty vector: its model covers n >= 1 only
             modifies=["self.params_set", "self._intercept", "self._degree", "self._knots"],
             raises={"ValueError": None},
             ensures=["self.params_set",
                      "implies(old(self.params_set), self._knots == old(self._knots) and self._degree == old(self._degree) "
                      "and self._intercept == old(self._intercept))",
                      "result.shape[0] == x.shape[0]",
                      # C14: on the first (training) call the basis has df columns, or knots + degree (+ 1 with intercept)
                      "implies(not old(self.params_set) and df is not None, result.shape[1] == df)",
                      "implies(not old(self.params_set) and df is None and knots is not None, "
                      "result.shape[1] == (len(knots) if knots is not None else 0) + degree + (1 if intercept else 0))",
                      # later calls: the column count fixed at training, whatever is passed now
                      "implies(old(self.params_set), result.shape[1] == old(self._knots.shape[0]) - (old(self._degree) + 1) - "
                      "(0 if old(self._intercept) else 1))",
                      # the class invariant of a fitted transform, and the column count in terms of the remembered parameters
                      "self._knots.shape[0] - (self._degree + 1) >= 1",
                      "result.shape[1] == self._knots.shape[0] - (self._degree + 1) - (0 if self._intercept else 1)",
                      # every row is a function of its own x value and of the parameters remembered from the first call
                      "forall(0, x.shape[0], lambda r: forall(0, result.shape[1], lambda c: "
                      "result[r, c] == bs_basis(self, x[r], c + (0 if self._intercept else 1))))"])


def _bs_fun():
    return ufun("bs.basis", R_, z3.ArraySort(I_, R_), I_, I_, I_, R_)


def _splev(I, a, kw, node):
    """scipy.interpolate.splev(x, (knots, coefs, degree)): one value per entry of x. For a unit coefficient vector e_i (what
    BSpline.eval passes) the value at x[r] is the i-th B-spline basis function of (knots, degree) at x[r] - an uninterpreted
    function of (x[r], knots, degree, i); for other coefficient vectors nothing is known."""
    x = a[0]
    tck = a[1] if len(a) > 1 else None
    if isinstance(tck, tuple) and len(tck) == 3 and isinstance(tck[0], SArr) and isinstance(tck[1], SArr):
        knots, coefs, degree = tck
        j = z3.Int("sp_j")
        probe = z3.simplify(coefs.at(j, z3.IntVal(0)))
        e = None
        if z3.is_app(probe) and probe.decl().kind() == z3.Z3_OP_ITE:
            c, t1, t0 = probe.children()
            if z3.is_eq(c) and z3.is_rational_value(t1) and z3.is_rational_value(t0) and t1.as_fraction() == 1 and t0.as_fraction() == 0:
                l, r = c.children()
                e = r if l.eq(j) else (l if r.eq(j) else None)
        if e is not None:
            B = _bs_fun()
            kl = _as_lambda(knots)
            from vf.pyvc.ops import int_term
            dg = int_term(degree)
            return SArr(1, x.n0, z3.IntVal(1), lambda i, jj: B(x.at(i, z3.IntVal(0)), kl, knots.n0, dg, e), "num", True)
    f = z3.Function(str(I.ctx.fresh("splev.el", I_)), I_, I_, R_)
    return SArr(1, x.n0, z3.IntVal(1), lambda i, j: f(i, j), "num", True)


def bs_basis(t, v, i):
    """value at v of the i-th B-spline basis function of the transform's knots and degree (specification helper; executable)"""
    c = np.zeros(len(t._knots) - (t._degree + 1))
    c[i] = 1
    return float(splev(v, (t._knots, c, t._degree)))


def _m_bs_basis(I, a, kw, node):
    from vf.pyvc.ops import int_term
    t, v, i = a
    knots = t.fields["_knots"]
    return SReal(_bs_fun()(rterm(v), _as_lambda(knots), knots.n0, int_term(t.fields["_degree"]), int_term(i)))


REG.externals[f"{__name__}.bs_basis"] = _m_bs_basis


REG.external_objects[splev] = _splev

# ---- Polynomial: per-instance memo dictionaries
REG.declare_class(T + "Polynomial", {"params_set": "bool", "degree": "int", "raw": "bool", "alpha": "any", "norms2": "any"})
REG.contract(T + "Polynomial.__init__", tags=WO, modifies=["self.params_set", "self.degree", "self.raw", "self.alpha", "self.norms2"],
             ensures=["is_fresh(self.alpha)", "is_fresh(self.norms2)", "self.alpha == {}", "self.norms2 == {}",
                      "not self.params_set"])

FUNCTIONS = [T + f for f in ("Center.__call__", "Scale.__call__", "BSpline.eval", "BSpline.__call__", "BSpline._initialize",
                             "Polynomial.__init__")]
ASSUMED = []

# ---- binary / Proportion (C16) --------------------------------------------------------------
REG.sorted_model = pandas_m.sorted_unique


def rowval(x, r):
    return x.iloc[r]


def _rowval(I, a, kw, node):
    from vf.pyvc.ops import int_term
    return SOpaque(pandas_m.series_val(a[0].t, int_term(a[1])), "any")


def nrows(x):
    return len(x)


def _nrows(I, a, kw, node):
    return SInt(pandas_m.series_len(a[0].t))


def le(a, b):
    return a <= b


def _le(I, a, kw, node):
    from vf.pyvc.ops import bool_val
    return bool_val(ufun("U!le", U(), U(), z3.BoolSort())(a[0].t, a[1].t))


for _n, _f in (("rowval", _rowval), ("nrows", _nrows), ("le", _le)):
    REG.externals[f"{__name__}.{_n}"] = _f

IND = "forall(0, nrows(x), lambda r: result[r] == (1 if rowval(x, r) == {s} else 0))"
REG.contract(T + "binary", params={"x": "series", "success": "any"}, returns="arr1", tags=["C16"],
             requires=["nrows(x) >= 1"],
             raises={"ValueError": "success is not None and forall(0, nrows(x), lambda r: rowval(x, r) != success)"},
             ensures=["result.shape[0] == nrows(x)",
                      "implies(success is not None, " + IND.format(s="success") + ")",
                      # default: the smallest value that occurs
                      "implies(success is None, exists(0, nrows(x), lambda q: " + IND.format(s="rowval(x, q)")
                      + " and forall(0, nrows(x), lambda r: le(rowval(x, q), rowval(x, r)))))"])

REG.declare_class(T + "Proportion", {"successes": "arr1", "trials": "arr1", "trials_type": "any"})
REG.contract(T + "Proportion.__init__", params={"successes": "arr1", "trials": "arr1", "trials_type": "any"}, tags=["C16", "C15"],
             requires=["successes.shape[0] == trials.shape[0]"],
             modifies=["self.successes", "self.trials", "self.trials_type"],
             raises={"ValueError": "exists(0, successes.shape[0], lambda r: is_int(successes[r]) == False) "
                                   "or exists(0, trials.shape[0], lambda r: is_int(trials[r]) == False) "
                                   "or exists(0, successes.shape[0], lambda r: successes[r] > trials[r])"},
             ensures=["self.successes == successes", "self.trials == trials", "self.trials_type == trials_type"])
REG.contract(T + "Proportion.eval", returns="arr2", tags=["C16", "C15"],
             requires=["self.successes.shape[0] == self.trials.shape[0]"],
             ensures=["result.shape[0] == self.successes.shape[0]", "result.shape[1] == 2",
                      "forall(0, self.successes.shape[0], lambda r: result[r, 0] == self.successes[r] and result[r, 1] == self.trials[r])"])


def is_int(v):
    return float(v).is_integer()


def _is_int(I, a, kw, node):
    from vf.pyvc.ops import bool_val
    return bool_val(z3.IsInt(rterm(a[0])))


REG.externals[f"{__name__}.is_int"] = _is_int
FUNCTIONS += [T + "binary", T + "Proportion.__init__", T + "Proportion.eval"]


TABLES = [
    ("C16", "TRANSFORMS aliases", lambda: {k: tr.TRANSFORMS.get(k) for k in
                                           ("B", "binary", "C", "I", "offset", "p", "prop", "proportion", "S", "standardize", "T",
                                            "center", "scale", "bs", "poly")},
     {"B": tr.binary, "binary": tr.binary, "C": tr.C, "I": tr.I, "offset": tr.offset, "p": tr.proportion, "prop": tr.proportion,
      "proportion": tr.proportion, "S": tr.S, "standardize": tr.Scale, "T": tr.T, "center": tr.Center, "scale": tr.Scale,
      "bs": tr.BSpline, "poly": tr.Polynomial}),
]


ASSUMPTIONS = ['np.mean / np.std / np.min / np.max are uninterpreted functions of the data vector (floats as reals)', "BSpline parameters are typed (degree: int, df: int or None, knots: vector or None, bounds: real or None): the refusal of non-integer degree / df is not covered", "np.percentile(x, q) for 0 <= q <= 100 lies between min(x) and max(x); np.linspace closed form; ndarray.sort() = ascending rearrangement (assumed, validated by ext-valid)", 'scipy.interpolate.splev(x, (knots, e_i, degree)) for non-empty x returns a fresh vector of the length of x whose r-th entry is a function of x[r], the knots, the degree and i only (validated by ext-valid); an empty x is outside the model (scipy raises for it)', "Series: x.unique().tolist() / sorted() modelled through an uninterpreted order 'le' on values"]

"""Contracts for eval_new_data_categoric of Variable and Call (C10 zero-row rule, C06/C07 freshness)."""
import z3

import sys
import formulae  # noqa: F401
CONFIG = sys.modules["formulae.config"].config

from vf.pyvc import arrays, pandas_m
from vf.pyvc.values import SObj, SStr, intern
from .base import REG
from . import config_c, categorical_c   # noqa: F401
from .categorical_c import label_of      # noqa: F401

REG.external_objects.update(arrays.external_objects())
REG.external_objects.update(pandas_m.external_objects())


def _config_obj(I):
    o = SObj("formulae.config.Config")
    m = I.ctx.fresh("config.mode", z3.IntSort())
    I.ctx.assume(z3.Or(m == intern("error"), m == intern("warning"), m == intern("silent")))   # Config's invariant (config_c)
    o.fields["EVAL_UNSEEN_CATEGORIES"] = SStr(m)
    return o


if not hasattr(REG, "global_objects"):
    REG.global_objects = {}
REG.global_objects[id(CONFIG)] = _config_obj


def warned():
    raise NotImplementedError("ghost: only meaningful inside pyvc")


def _warned(I, a, kw, node):
    return bool(I.ghost.get("warned", False))


def mode():
    return CONFIG["EVAL_UNSEEN_CATEGORIES"]


def _mode(I, a, kw, node):
    return I.lift_global(CONFIG).fields["EVAL_UNSEEN_CATEGORIES"]


def codes(x, levels):
    import pandas as pd
    return pd.Categorical(x, categories=levels).codes


def _codes(I, a, kw, node):
    return pandas_m.categorical_codes(I, a[0], a[1])


def nrows(x):
    return len(x)


def _nrows(I, a, kw, node):
    from vf.pyvc.values import SInt
    return SInt(pandas_m.series_len(a[0].t))


for _n, _f in (("warned", _warned), ("mode", _mode), ("codes", _codes), ("nrows", _nrows)):
    REG.externals[f"{__name__}.{_n}"] = _f

UNSEEN = "exists(0, nrows(x), lambda r: codes(x, self.levels)[r] == -1)"
M = "self.contrast_matrix.matrix"
for cls, extra in (("formulae.terms.variable.Variable", {"reference": "any"}), ("formulae.terms.call.Call", {"call": "any"})):
    REG.declare_class(cls, dict({"levels": "list[any]", "contrast_matrix": "formulae.categorical.ContrastMatrix", "name": "str",
                                 "kind": "str?", "spans_intercept": "bool", "is_response": "bool"}, **extra))
    REG.contract(cls + ".eval_new_data_categoric", params={"x": "any"}, returns="arr2", tags=["C10", "C06", "C07"],
                 requires=[f"{M}.shape[0] == len(self.levels)"],
                 raises={"ValueError": f"({UNSEEN}) and mode() == 'error'"},
                 ensures=["result.shape[0] == nrows(x)", f"result.shape[1] == {M}.shape[1]",
                          # rows of seen levels carry the remembered contrast row, rows of unseen levels are zero
                          f"forall(0, nrows(x), lambda r: forall(0, {M}.shape[1], lambda j: result[r, j] == "
                          f"(0 if codes(x, self.levels)[r] == -1 else {M}[codes(x, self.levels)[r], j])))",
                          f"warned() == (({UNSEEN}) and mode() == 'warning')",
                          # the remembered coding is untouched
                          f"{M} == old({M})"])

FUNCTIONS = ["formulae.terms.variable.Variable.eval_new_data_categoric", "formulae.terms.call.Call.eval_new_data_categoric"]


ASSUMPTIONS = ['pandas assumed: pd.Categorical(x, categories=L).codes[r] is the index of x[r] in L or -1; set(x) is the set of row values', "the global formulae.config.config object satisfies Config's invariant (proved in config_c)", 'numpy fancy row indexing M[idx] allocates a fresh array; np.copy allocates']


# ---- labels (C04): as many labels as columns, each label = name[level] -----------------------
def lab(name, level):
    return f"{name}[{level}]"


def _cat(I, parts):
    """Uninterpreted left fold of string concatenation over interned ids."""
    from vf.pyvc.opaque import ufun
    from vf.pyvc.ops import str_term
    from vf.pyvc.values import SInt, SOpaque
    f = ufun("str.cat", z3.IntSort(), z3.IntSort(), z3.IntSort())
    acc = None
    for p in parts:
        if isinstance(p, SInt):
            t = ufun("str.of_int", z3.IntSort(), z3.IntSort())(p.t)
        elif isinstance(p, int):
            t = ufun("str.of_int", z3.IntSort(), z3.IntSort())(z3.IntVal(p))
        elif isinstance(p, SOpaque):
            t = REG.str_of(I, p).t
        else:
            try:
                t = str_term(p)
            except Exception:      # any other value (a float, an array, ...) formatted into a message: some string
                t = I.ctx.fresh("str.of_value", z3.IntSort())
        acc = t if acc is None else f(acc, t)
    return SStr(acc)


REG.str_concat = _cat
REG.externals[f"{__name__}.lab"] = lambda I, a, kw, node: _cat(I, [a[0], "[", a[1], "]"])

for cls in ("formulae.terms.variable.Variable", "formulae.terms.call.Call"):
    REG.classes[cls].field_types["value"] = "arr"
    kinds = "('numeric',)" if cls.endswith("Variable") else "('numeric', 'offset')"
    REG.contract(cls + ".labels", returns="list[str]", tags=["C04", "C17"],
                 requires=["self.kind in ('numeric', 'categoric')" + ("" if cls.endswith("Variable") else " or self.kind == 'offset'"),
                           f"{M}.shape[1] == len(self.contrast_matrix.labels)"],        # ContrastMatrix.__init__'s guarantee
                 ensures=[f"implies(self.kind == 'categoric', len(result) == {M}.shape[1] and "
                          "forall(0, len(result), lambda j: result[j] == lab(self.name, self.contrast_matrix.labels[j])))",
                          f"implies(self.kind in {kinds} and self.value.ndim == 2 and self.value.shape[1] > 1, "
                          "len(result) == self.value.shape[1] and forall(0, len(result), lambda j: result[j] == lab(self.name, j)))",
                          f"implies(self.kind in {kinds} and not (self.value.ndim == 2 and self.value.shape[1] > 1), "
                          "len(result) == 1 and result[0] == self.name)"])
FUNCTIONS += ["formulae.terms.variable.Variable.labels", "formulae.terms.call.Call.labels"]


# ---- training-time coding of a categorical variable (C04, C15) --------------------------------
REG.external_objects.update(pandas_m.external_objects_training())
REG.sorted_model = pandas_m.sorted_unique
REG.inline.add("formulae.categorical.Treatment.__init__")


def rowval(x, r):
    return x.iloc[r]


def _rowval(I, a, kw, node):
    from vf.pyvc.ops import int_term
    from vf.pyvc.values import SOpaque
    return SOpaque(pandas_m.series_val(a[0].t, int_term(a[1])), "any")


def le(a, b):
    return a <= b


def _le(I, a, kw, node):
    from vf.pyvc.ops import bool_val
    from vf.pyvc.opaque import ufun, U
    return bool_val(ufun("U!le", U(), U(), z3.BoolSort())(a[0].t, a[1].t))


REG.externals[f"{__name__}.rowval"] = _rowval
REG.externals[f"{__name__}.le"] = _le
V = "formulae.terms.variable.Variable"
REG.classes[V].field_types.update({"reference": "any", "_intermediate_data": "any"})
IND = "(1 if rowval(x, r) == {lvl} else 0)"
REG.contract(V + ".eval_categoric", params={"x": "series", "spans_intercept": "bool"}, tags=["C04", "C15", "C13", "C08"],
             requires=["nrows(x) >= 1"],
             modifies=["self.levels", "self.contrast_matrix", "self.value", "self.spans_intercept"],
             raises={"ValueError": None},
             ensures=["len(self.levels) >= 1",
                      # levels are duplicate-free and every row value is one of them
                      "forall(0, len(self.levels), lambda a: forall(0, len(self.levels), lambda b: implies(a != b, self.levels[a] != self.levels[b])))",
                      "forall(0, nrows(x), lambda r: rowval(x, r) in self.levels)",
                      # levels of data that is not an ordered categorical are sorted (independent of the row order)
                      "implies(not (hasattr(x.dtype, 'ordered') and x.dtype.ordered), forall(0, len(self.levels), lambda a: "
                      "forall(0, len(self.levels), lambda b: implies(a < b, le(self.levels[a], self.levels[b])))))",
                      # y[level] as response: a single 0/1 column, 1 exactly where y equals the level
                      "implies(self.is_response and self.reference is not None, self.value.ndim == 1 and self.value.shape[0] == nrows(x) and "
                      "forall(0, nrows(x), lambda r: self.value[r] == " + IND.format(lvl="self.reference") + "))",
                      # otherwise treatment coding: column j is the indicator of its level (first level dropped when reduced)
                      "implies(not (self.is_response and self.reference is not None) and spans_intercept, "
                      "self.value.shape[0] == nrows(x) and self.value.shape[1] == len(self.levels) and "
                      "forall(0, nrows(x), lambda r: forall(0, len(self.levels), lambda j: self.value[r, j] == " + IND.format(lvl="self.levels[j]") + ")))",
                      "implies(not (self.is_response and self.reference is not None) and not spans_intercept, "
                      "self.value.shape[0] == nrows(x) and self.value.shape[1] == len(self.levels) - 1 and "
                      "forall(0, nrows(x), lambda r: forall(0, len(self.levels) - 1, lambda j: self.value[r, j] == " + IND.format(lvl="self.levels[j + 1]") + ")))",
                      # the stored coding is what produced the values: row r carries the contrast row of its level (this is what
                      # eval_new_data_categoric reuses, so new rows equal training rows: lemma vf.proplemmas.c06.categoric_rows)
                      "implies(not (self.is_response and self.reference is not None), self.value.ndim == 2)",
                      "implies(not (self.is_response and self.reference is not None), "
                      "self.contrast_matrix.matrix.shape[0] == len(self.levels) and self.contrast_matrix.matrix.shape[1] == self.value.shape[1] and "
                      "forall(0, nrows(x), lambda r: forall(0, self.value.shape[1], lambda j: "
                      "self.value[r, j] == self.contrast_matrix.matrix[codes(x, self.levels)[r], j])))",
                      # ... and its labels are the levels it keeps, in order
                      "implies(not (self.is_response and self.reference is not None), len(self.contrast_matrix.labels) == self.value.shape[1] and "
                      "forall(0, self.value.shape[1], lambda j: self.contrast_matrix.labels[j] == label_of(self.levels[j if spans_intercept else j + 1])))",
                      "self.spans_intercept == spans_intercept"])
FUNCTIONS += [V + ".eval_categoric"]
ASSUMPTIONS = ASSUMPTIONS + ["pandas assumed (training): sorted(np.unique(x).tolist()) lists the distinct row values in increasing order; "
                             "pd.Categorical(x).astype(CategoricalDtype(categories=L)).codes index into L; data that already is an ordered "
                             "categorical has duplicate-free categories containing every row value (no missing values)"]

CL = "formulae.terms.call.Call"
REG.classes[CL].field_types.update({"_intermediate_data": "any", "call": "any", "env": "any"})
REG.contract(CL + ".eval_categoric", params={"x": "series", "spans_intercept": "bool"}, tags=["C04", "C13", "C08"],
             requires=["nrows(x) >= 1"],
             modifies=["self.levels", "self.contrast_matrix", "self.value", "self.spans_intercept"],
             raises={"ValueError": None},
             ensures=["len(self.levels) >= 1",
                      "forall(0, len(self.levels), lambda a: forall(0, len(self.levels), lambda b: implies(a != b, self.levels[a] != self.levels[b])))",
                      "forall(0, nrows(x), lambda r: rowval(x, r) in self.levels)",
                      "implies(not (hasattr(x.dtype, 'ordered') and x.dtype.ordered), forall(0, len(self.levels), lambda a: "
                      "forall(0, len(self.levels), lambda b: implies(a < b, le(self.levels[a], self.levels[b])))))",
                      "implies(spans_intercept, self.value.shape[0] == nrows(x) and self.value.shape[1] == len(self.levels) and "
                      "forall(0, nrows(x), lambda r: forall(0, len(self.levels), lambda j: self.value[r, j] == " + IND.format(lvl="self.levels[j]") + ")))",
                      "implies(not spans_intercept, self.value.shape[0] == nrows(x) and self.value.shape[1] == len(self.levels) - 1 and "
                      "forall(0, nrows(x), lambda r: forall(0, len(self.levels) - 1, lambda j: self.value[r, j] == " + IND.format(lvl="self.levels[j + 1]") + ")))",
                      "self.value.ndim == 2",
                      "self.contrast_matrix.matrix.shape[0] == len(self.levels) and self.contrast_matrix.matrix.shape[1] == self.value.shape[1] and "
                      "forall(0, nrows(x), lambda r: forall(0, self.value.shape[1], lambda j: "
                      "self.value[r, j] == self.contrast_matrix.matrix[codes(x, self.levels)[r], j]))",
                      "len(self.contrast_matrix.labels) == self.value.shape[1]",
                      "forall(0, self.value.shape[1], lambda j: self.contrast_matrix.labels[j] == label_of(self.levels[j if spans_intercept else j + 1]))",
                      "self.spans_intercept == spans_intercept"])
FUNCTIONS += [CL + ".eval_categoric"]


# ---- identity of the factors of a term (C02 / C12): two Call components are one factor exactly when their lazy call
# ---- objects are equal (NOT when their printed names coincide - the name drops grouping parentheses); two Variable
# ---- components when kind, name and reference level agree; equal components hash equally
REG.contract("formulae.terms.call.Call.__eq__", params={"other": "formulae.terms.call.Call"}, returns="bool", tags=["C02", "C12"],
             ensures=["result == (self.call == other.call)"])
REG.contract("formulae.terms.call.Call.__hash__", returns="int", tags=["C02", "C12"], ensures=["result == hash(self.call)"])
REG.contract("formulae.terms.variable.Variable.__eq__", params={"other": "formulae.terms.variable.Variable"}, returns="bool", tags=["C02"],
             ensures=["result == (self.kind == other.kind and self.name == other.name and self.reference == other.reference)"])
REG.contract("formulae.terms.variable.Variable.__hash__", returns="int", tags=["C02"],
             ensures=["result == hash((self.kind, self.name, self.reference))"])
IDENTITY = ["formulae.terms.call.Call.__eq__", "formulae.terms.call.Call.__hash__",
            "formulae.terms.variable.Variable.__eq__", "formulae.terms.variable.Variable.__hash__"]
FUNCTIONS += IDENTITY
ASSUMPTIONS += ["== and hash() of the opaque values held in Call.call / Variable.reference are uninterpreted (LazyCall.__eq__ is proved "
                "separately in call_resolver_c; hash consistency of LazyCall/LazyOperator is exercised by the bounded tier only)"]


# ---- numeric variables and the dispatch of Variable.eval_new_data (C06): values are taken row by row, nothing is estimated ----
REG.series_numeric_asarray = True


def numval(x, r):
    """the number in row r of a numeric column (specification helper; executable)"""
    return float(x.iloc[r])


def _numval(I, a, kw, node):
    from vf.pyvc.ops import int_term
    from vf.pyvc.values import SReal
    return SReal(pandas_m.series_num(a[0].t, int_term(a[1])))


def column(d, name):
    return d[name]


def _column(I, a, kw, node):
    return a[0].getitem(I, a[1], node)


REG.externals[f"{__name__}.numval"] = _numval
REG.externals[f"{__name__}.column"] = _column
REG.contract(V + ".eval_new_data_numeric", params={"x": "series"}, returns="arr1", tags=["C06"],
             ensures=["result.shape[0] == nrows(x)", "forall(0, nrows(x), lambda r: result[r] == numval(x, r))"])
REG.contract(V + ".eval_new_data", params={"data_mask": "frame"}, returns="arr", tags=["C06", "C10"],
             requires=["self.kind in ('numeric', 'categoric')", f"{M}.shape[0] == len(self.levels)"],
             raises={"ValueError": "self.kind != 'numeric' and (" + UNSEEN.replace("(x", "(column(data_mask, self.name)") + ") and mode() == 'error'"},
             ensures=[  # a numeric variable: the column, row by row; a categorical one: the remembered contrast rows (zero rows for unseen levels)
                 "implies(self.kind == 'numeric', result.ndim == 1 and result.shape[0] == nrows(column(data_mask, self.name)) and "
                 "forall(0, result.shape[0], lambda r: result[r] == numval(column(data_mask, self.name), r)))",
                 f"implies(self.kind != 'numeric', result.shape[0] == nrows(column(data_mask, self.name)) and result.shape[1] == {M}.shape[1] and "
                 f"forall(0, result.shape[0], lambda r: forall(0, {M}.shape[1], lambda j: result[r, j] == "
                 f"(0 if codes(column(data_mask, self.name), self.levels)[r] == -1 else {M}[codes(column(data_mask, self.name), self.levels)[r], j]))))"])
FUNCTIONS += [V + ".eval_new_data_numeric", V + ".eval_new_data"]
ASSUMPTIONS += ["frame[name] is the column of that name with one row per row of the frame; np.asarray(series) lists its row values in order"]

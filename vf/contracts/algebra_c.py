"""Contracts for the term-building Resolver (formulae/resolver.py) - C02: every operator token of the formula is mapped onto
the documented operator of the term classes, applied to the results of its operands in source order.

`model_of(e)` is the specification: ordinary Python over the real AST classes using the real term classes and their
operator overloads (so the bounded tier runs it against the real Resolver), and - through the models below - a z3 recursive
function whose values are opaque term objects: `a + b` on them is an uninterpreted function of ('+', a, b), constructors
are uninterpreted functions of their arguments, Intercept() / NegatedIntercept() are the two constants of terms_c.
What the operators themselves compute is the subject of terms_c (partially) and of C02's bounded tier; what is proved here is
the *wiring*:  ~  ->  Response(left) + right,   +  -  **  :  *  /  |   ->  + - ** @ * / |,   unary sign on 0/1,  0 -> no
intercept, 1 -> intercept, names (with an optional level), backquoted names, calls (through the verified CallResolver).
Termination of the recursion accept <-> visit is not proved; exceptions raised by the operators are not specified.
"""
import z3

from formulae.expr import Assign, Grouping, Binary, Unary, Call as CallE, Variable as VarE, QuotedName, Literal   # noqa: F401
from formulae.terms import Variable, Call, Term, Intercept, NegatedIntercept, Response                            # noqa: F401
from formulae.terms.call_resolver import CallResolver                                                              # noqa: F401

from vf.pyvc.values import SOpaque, SData
from vf.pyvc.opaque import ufun, U
from vf.pyvc.ops import str_term
from .base import REG
from . import parser_c, terms_c, resolver_c                   # noqa: F401
from .parser_c import EXPR, TOK
from .resolver_c import lazy_of, wf as call_wf, resolvable, unquote       # noqa: F401

RS = "formulae.resolver."


# ---- constructors of the term classes as value-level functions ----------------------------------------------------------------
def _ctor(name, *sorts):
    return ufun("mk." + name, *sorts, U())


def _m_Response(I, a, kw, node):
    return SOpaque(_ctor("Response", U())(a[0].t), "any")


def _m_Term(I, a, kw, node):
    if len(a) != 1:
        return None
    return SOpaque(_ctor("Term1", U())(a[0].t), "any")


def _m_Call(I, a, kw, node):
    lz = REG.type("Lazy").unwrap(a[0], I.ctx)
    return SOpaque(_ctor("Call", lz.sort())(lz), "any")


def _m_Variable(I, a, kw, node):
    """Variable(name, level=None): name is a string or (for a numeric literal other than 0/1) a literal value"""
    v = REG.type("Val")
    nm = a[0]
    nm_t = v.unwrap(nm, I.ctx)
    lv = a[1] if len(a) > 1 else kw.get("level")
    lv_t = v.unwrap(lv, I.ctx)
    return SOpaque(_ctor("Variable", nm_t.sort(), lv_t.sort())(nm_t, lv_t), "any")


for _cls, _m in ((Response, _m_Response), (Term, _m_Term), (Call, _m_Call), (Variable, _m_Variable)):
    REG.external_objects[_cls] = _m
# Intercept() / NegatedIntercept(): the constants of terms_c (registered there under the qualified names)
REG.external_objects[Intercept] = REG.externals["formulae.terms.terms.Intercept"]
REG.external_objects[NegatedIntercept] = REG.externals["formulae.terms.terms.NegatedIntercept"]


def level_value(e):
    """the level of y[level]: the literal's value, None when absent (specification helper; executable)"""
    return e.level.value if e.level else None


def _m_level_value(I, a, kw, node):
    e = REG.type("Expr").unwrap(a[0], I.ctx)
    lvl = EXPR.accessor("Variable", "level")(e)
    VAL = parser_c.VAL
    return SData(z3.If(EXPR.is_none(lvl), VAL.make("VNone"), EXPR.accessor("Literal", "value")(lvl)), REG.type("Val"))


REG.externals[f"{__name__}.level_value"] = _m_level_value


# ---- well-formed formulas: what the verified parser hands over, as far as the Resolver reads it ---------------------------------
@REG.spec([("e", "Expr")], "bool")
def wf_formula(e):
    return ((e.operator is not None and wf_formula(e.left) and wf_formula(e.right)) if isinstance(e, Binary)
            else (e.operator is not None and wf_formula(e.right)) if isinstance(e, Unary)
            else wf_formula(e.expression) if isinstance(e, Grouping)
            else call_wf(e) if isinstance(e, CallE)
            else (e.name is not None and (e.level is None or isinstance(e.level, Literal))) if isinstance(e, VarE)
            else e.expression is not None if isinstance(e, QuotedName)
            else isinstance(e, Literal))


# ---- the specification: the term-algebra value a formula denotes -------------------------------------------------------------------
@REG.spec([("e", "Expr")], "any")
def model_of(e):
    return (model_of(e.expression) if isinstance(e, Grouping)
            else (Response(model_of(e.left)) + model_of(e.right) if e.operator.kind == "TILDE"
                  else model_of(e.left) + model_of(e.right) if e.operator.kind == "PLUS"
                  else model_of(e.left) - model_of(e.right) if e.operator.kind == "MINUS"
                  else model_of(e.left) ** model_of(e.right) if e.operator.kind == "STAR_STAR"
                  else model_of(e.left) @ model_of(e.right) if e.operator.kind == "COLON"
                  else model_of(e.left) * model_of(e.right) if e.operator.kind == "STAR"
                  else model_of(e.left) / model_of(e.right) if e.operator.kind == "SLASH"
                  else model_of(e.left) | model_of(e.right) if e.operator.kind == "PIPE"
                  else None) if isinstance(e, Binary)
            else (model_of(e.right) if e.operator.kind == "PLUS"
                  else (NegatedIntercept() if isinstance(model_of(e.right), Intercept)
                        else Intercept() if isinstance(model_of(e.right), NegatedIntercept) else None)
                  if e.operator.kind == "MINUS" else None) if isinstance(e, Unary)
            else Term(Call(lazy_of(e))) if isinstance(e, CallE)
            else Term(Variable(e.name.lexeme, level_value(e))) if isinstance(e, VarE)
            else Term(Variable(unquote(e.expression.lexeme))) if isinstance(e, QuotedName)
            else (NegatedIntercept() if e.value == 0 else Intercept() if e.value == 1 else Term(Variable(e.value))) if isinstance(e, Literal)
            else None)


# ---------------------------------------------------------------------------------------------
REG.declare_class(RS + "Resolver", {"expr": "Expr"})
TAGS = ["C02"]
MAY_RAISE = {"ResolverError": None, "CallResolverError": None, "TypeError": None, "ValueError": None}


def _uniform(e, extra=()):
    return dict(returns="any", tags=TAGS, requires=[f"wf_formula({e})"] + list(extra), raises=dict(MAY_RAISE),
                ensures=[f"result == model_of({e})"])


VISITS = {"visitGroupingExpr": "Grouping", "visitBinaryExpr": "Binary", "visitUnaryExpr": "Unary", "visitCallExpr": "CallE",
          "visitVariableExpr": "VarE", "visitLiteralExpr": "Literal", "visitQuotedNameExpr": "QuotedName"}
for _v, _k in VISITS.items():
    _extra = [f"isinstance(expr, {_k})"]
    if _k == "VarE":         # (a consequence of wf_formula, restated quantifier- and recursion-free for the cheap feasibility solver)
        _extra.append("expr.level is None or isinstance(expr.level, Literal)")
    REG.contract(RS + "Resolver." + _v, params={"expr": "Expr"}, **_uniform("expr", _extra))
REG.contract("formulae.expr.Expr.accept#resolver", of="formulae.expr.Binary.accept", self_type="Expr",
             params={"visitor": RS + "Resolver"}, **_uniform("self"))
REG.dt_methods[("Expr", "accept", RS + "Resolver")] = "formulae.expr.Expr.accept#resolver"
ACCEPTS = []
for _real, _k in (("Grouping", "Grouping"), ("Binary", "Binary"), ("Unary", "Unary"), ("Call", "CallE"), ("Variable", "VarE"),
                  ("Literal", "Literal"), ("QuotedName", "QuotedName")):
    _q = f"formulae.expr.{_real}.accept#resolver"
    REG.contract(_q, of=f"formulae.expr.{_real}.accept", self_type="Expr", params={"visitor": RS + "Resolver"},
                 **_uniform("self", [f"isinstance(self, {_k})"]))
    ACCEPTS.append(_q)
REG.contract(RS + "Resolver.resolve", **_uniform("self.expr"))
REG.inline.add("formulae.terms.call_resolver.CallResolver.__init__")

FUNCTIONS = [RS + "Resolver." + v for v in VISITS] + ACCEPTS + [RS + "Resolver.resolve"]
ASSUMPTIONS = ["term objects are opaque values; an operator overload applied to two of them is an uninterpreted function of the operator and "
               "the operands (what the overloads compute, and their in-place effects, are outside this contract)",
               "constructors Response / Term / Call / Variable are uninterpreted functions of their arguments; Intercept() and "
               "NegatedIntercept() are constants (their __eq__ is isinstance)",
               "exceptions raised by the operator overloads or by the Resolver's own checks are not specified (only normal returns are)",
               "termination of the mutual recursion accept <-> visit* is not proved (partial correctness)"]

"""C04 - every design-matrix column holds exactly what its label says."""
import gzip
import itertools
import json
import os
import random

import numpy as np
import pandas as pd

from .. import common, checklib
from ..rtc import par

LEVEL = "exploration"
KNOWN = os.path.join(common.ROOT, "known", "C04_failing.json.gz")

# atom text -> (kind, data column, expected level order given the data column)
K_LEVELS = [100, 5, 25, 10]


def atom_table():
    return {
        "x": ("num", "x", None), "z": ("num", "z", None),
        "f": ("cat", "f", "sorted"), "g": ("cat", "g", "sorted"), "h": ("cat", "h", "sorted"),
        "c1": ("cat", "c1", "sorted"), "o": ("cat", "o", ["lo", "mid", "hi"]),
        "C(k)": ("cat", "k", "sorted"), "C(k, levels=lv)": ("cat", "k", K_LEVELS),
        "T(f, 'b')": ("cat", "f", "sorted"), "C(o)": ("cat", "o", ["lo", "mid", "hi"]), "C(c1)": ("cat", "c1", "sorted"),
    }


def frame(seed):
    rng = np.random.default_rng(seed)
    from ..rtc.gen import _cover
    n = 36
    d = pd.DataFrame({
        "y": rng.normal(size=n), "x": rng.normal(size=n) * 3 + 1, "z": rng.uniform(1, 9, size=n),
        "f": _cover(rng, ["a", "b", "c"], n), "g": _cover(rng, ["u", "v", "w", "t"], n), "h": _cover(rng, ["p", "q"], n),
        "k": _cover(rng, [5, 10, 25, 100], n),
    })
    d["c1"] = pd.Categorical(_cover(rng, ["zeta", "alpha", "mid"], n), categories=["zeta", "alpha", "mid"])
    d["o"] = pd.Categorical(_cover(rng, ["lo", "mid", "hi"], n), categories=["lo", "mid", "hi"], ordered=True)
    return d


def universe(tier):
    atoms = list(atom_table())
    forms = []
    for r in (1, 2, 3):
        for combo in itertools.permutations(atoms, r):
            cols = [atom_table()[a][1] for a in combo]
            if len(set(cols)) < len(cols):
                continue
            t = ":".join(combo)
            forms.append(f"y ~ {t}")
            forms.append(f"y ~ 0 + {t}")
            if r == 2:
                forms.append(f"y ~ {combo[0]}*{combo[1]}")
                forms.append(f"y ~ 0 + {combo[0]} + {t}")
                forms.append(f"y ~ {combo[0]}/{combo[1]}")
                # one atom written in two terms that are coded differently (reduced main effect, full inside the interaction)
                forms.append(f"y ~ {combo[0]} + {t}")
                forms.append(f"y ~ {combo[1]} + {t}")
                # '*' with a parenthesised sum (Term x Model branch of Term.__mul__): main effects and interactions must not
                # share factor objects, or the coding chosen for one leaks into the labels of the other
                extra = next(v for v in ("x", "z", "h") if v not in cols)
                forms.append(f"y ~ 0 + {combo[0]}*({combo[1]} + {extra})")
                forms.append(f"y ~ {combo[0]}*({combo[1]} + {extra})")
    rnd = random.Random(4)
    if tier == "quick":
        three = [f for f in forms if f.count(":") == 2]
        rest = [f for f in forms if f.count(":") != 2]
        forms = rest + rnd.sample(three, 1200)
    effects = ["1", "x", "f", "0 + f", "x:f", "f:x", "o", "C(k)", "x + z"]
    groups = ["g", "h", "g:h", "h:g", "C(k)", "o"]
    for e in effects:
        for g in groups:
            if any(tok in g for tok in e.replace("0 + ", "").replace(" + ", ":").split(":")):
                continue
            forms.append(f"y ~ x + ({e}|{g})")
    # one effect expression distributed over two grouping factors and coded differently for each
    forms += ["y ~ x + (0 + f|g + h) + (1|g)", "y ~ x + (1|h) + (0 + f|g + h)", "y ~ (f|g + h)", "y ~ x + (0 + C(k)|g + h) + (1|g)"]
    return sorted(set(forms))


def split_top(s, sep):
    out, depth, cur = [], 0, ""
    for ch in s:
        if ch in "([":
            depth += 1
        elif ch in ")]":
            depth -= 1
        if ch == sep and depth == 0:
            out.append(cur)
            cur = ""
        else:
            cur += ch
    out.append(cur)
    return out


def piece_column(piece, d, atoms):
    """Column denoted by one label piece."""
    if piece in atoms and atoms[piece][0] == "num":
        return np.asarray(d[atoms[piece][1]], dtype=float)
    if piece.endswith("]"):
        name, lvl = piece[:piece.rindex("[")], piece[piece.rindex("[") + 1:-1]
        # name may itself contain brackets (levels=[...]); find the atom that is a prefix
        for a in sorted(atoms, key=len, reverse=True):
            if piece.startswith(a + "[") and atoms[a][0] == "cat":
                lvl = piece[len(a) + 1:-1]
                vals = np.asarray(d[atoms[a][1]].astype(object))
                return np.array([1.0 if str(v) == lvl else 0.0 for v in vals])
    if piece == "Intercept" or piece == "1":
        return np.ones(len(d))
    raise KeyError(piece)


def label_column(label, d, atoms):
    col = np.ones(len(d))
    for piece in split_top(label, ":"):
        col = col * piece_column(piece, d, atoms)
    return col


def check_matrix(labels, M, d, atoms, group=False):
    M = np.asarray(M, dtype=float).reshape(len(d), -1)
    if len(labels) != M.shape[1]:
        return f"label-count: {len(labels)} labels for {M.shape[1]} columns"
    for j, lab in enumerate(labels):
        try:
            if group:
                eff, grp = split_top(lab, "|")
                want = label_column(eff, d, atoms) * label_column(grp, d, atoms)
            else:
                want = label_column(lab, d, atoms)
        except KeyError as ex:
            return f"label-unreadable: {lab!r} ({ex})"
        if not np.allclose(M[:, j], want, atol=1e-9):
            return f"label-value: column {j} labelled {lab!r} does not hold what the label says"
    return None


def level_order(term_labels, atom, d, atoms):
    """Main-effect categorical term: labels follow the sorted / declared level order, at most the
    reference missing."""
    spec = atoms[atom][2]
    vals = list(pd.unique(d[atoms[atom][1]].astype(object)))
    order = sorted(vals) if spec == "sorted" else [v for v in spec if v in vals]
    want = [f"{atom}[{v}]" for v in order]
    it = iter(want)
    if not all(lab in it for lab in term_labels):
        return f"level-order: labels {term_labels} are not in the order {want}"
    if len(want) - len(term_labels) > 1:
        return f"level-order: {len(want) - len(term_labels)} levels missing from {term_labels}"
    return None


def evaluate(formula, d, atoms):
    from formulae import design_matrices
    from ..rtc.designs import failure_signature
    lv = list(K_LEVELS)   # noqa: F841  (looked up by the formula through the caller's namespace)
    try:
        dm = design_matrices(formula, d)
    except Exception as ex:
        return "raise:" + failure_signature(ex)
    # the same formula on a frame with other level sets, before this design is read: its labels still describe this frame
    try:
        design_matrices(formula, d[(d["f"] != "a") & (d["g"] != "u") & (d["k"] != 5) & (d["c1"] != "mid") & (d["o"] != "hi")].reset_index(drop=True))
    except Exception:        # noqa: BLE001 - the reduced frame may not support the formula
        pass
    if dm.common is not None:
        labels = []
        for name, term in dm.common.terms.items():
            labs = term.labels
            sub = dm.common[name]
            err = check_matrix(list(labs), sub, d, atoms)
            if err:
                return f"{err} (term {name})"
            if name in atoms and atoms[name][0] == "cat":
                err = level_order(list(labs), name, d, atoms)
                if err:
                    return err
            labels += list(labs)
        try:
            df = dm.common.as_dataframe()
        except Exception as ex:
            return "as_dataframe:" + failure_signature(ex)
        if list(df.columns) != labels:
            return "dataframe-columns differ from the concatenated term labels"
        err = check_matrix(list(df.columns), dm.common.design_matrix, d, atoms)
        if err:
            return err
    if dm.group is not None:
        for name, term in dm.group.terms.items():
            err = check_matrix(list(term.labels), dm.group[name], d, atoms, group=True)
            if err:
                return f"{err} (group term {name})"
    # "in every design": the design derived for new data (a selection of rows of this frame, so no unseen level) carries the same
    # labels, and its columns hold what they say on THAT frame (whether it can be evaluated at all is C06 / C10's business)
    d2 = d.iloc[[(7 * i + 3) % len(d) for i in range(max(6, len(d) // 2))]].reset_index(drop=True)
    if dm.common is not None:
        try:
            nm = dm.common.evaluate_new_data(d2)
        except Exception:        # noqa: BLE001
            nm = None
        if nm is not None:
            for name, term in dm.common.terms.items():
                err = check_matrix(list(term.labels), nm[name], d2, atoms)
                if err:
                    return f"new-data design: {err} (term {name})"
    if dm.group is not None:
        try:
            ng = dm.group.evaluate_new_data(d2)
        except Exception:        # noqa: BLE001
            ng = None
        if ng is not None:
            for name, term in dm.group.terms.items():
                err = check_matrix(list(term.labels), ng[name], d2, atoms, group=True)
                if err:
                    return f"new-data design: {err} (group term {name})"
    return "ok"


def exact_integers(seed):
    """A column labelled with a numeric variable holds that variable's values - exactly, also for integers no double represents."""
    from formulae import design_matrices
    rng = np.random.default_rng(seed)
    n = 12
    big = (2 ** 53 + 1 + 2 * rng.integers(0, 1000, size=n)).astype(np.int64)          # odd numbers above 2**53
    d = pd.DataFrame({"y": np.arange(n), "big": big, "k": rng.integers(1, 9, size=n), "f": list("abc") * 4})
    out = {}
    for f, col in (("y ~ 0 + big", "big"), ("y ~ 0 + big + k", "big"), ("y ~ 0 + k + big", "big"), ("big ~ 0 + k", None)):
        try:
            dm = design_matrices(f, d)
            M = np.asarray(dm.common.design_matrix) if col else np.asarray(dm.response.design_matrix)
            j = list(dm.common.as_dataframe().columns).index(col) if col else 0
            got = M.reshape(n, -1)[:, j]
            out[f + " (integers above 2**53)"] = "ok" if [int(v) for v in got] == [int(v) for v in big] and got.dtype.kind in "iu" else \
                f"label-value: column {col or 'response'} does not hold the integer values exactly (dtype {got.dtype})"
        except Exception as ex:
            out[f + " (integers above 2**53)"] = f"raise:{type(ex).__name__}"
    return out


def _chunk(task):
    import logging
    import warnings
    forms, seed = task
    logging.getLogger("formulae").setLevel(logging.CRITICAL)
    warnings.simplefilter("ignore")
    d = frame(seed)
    atoms = atom_table()
    return {f: evaluate(f, d, atoms) for f in forms}


def results(tier, seed):
    forms = universe(tier)
    out = {}
    for r in par.pmap(_chunk, [(forms[i::64], seed) for i in range(64)]):
        out.update(r)
    out.update(exact_integers(seed))
    return out


def sig_class(sig):
    return sig.split(":")[0]


def make_known():
    res = results("thorough", 0)
    known = {f: sig_class(s) for f, s in res.items() if s != "ok" and not s.startswith("raise")}
    with gzip.open(KNOWN, "wt") as fh:
        json.dump(known, fh, sort_keys=True)
    import collections
    print(len(res), "inputs,", len(known), "failing", collections.Counter(known.values()))
    for c in set(known.values()):
        print(c, [(f, res[f]) for f in known if known[f] == c][:4])


def PROOFS():
    from ..contracts import categorical_c, utils_c, terms_c
    K = "formulae.categorical."
    return [("vf.contracts.categorical_c", [K + "ContrastMatrix.__init__", K + "Treatment.code_with_intercept",
                                            K + "Treatment.code_without_intercept"]),
            ("vf.contracts.utils_c", utils_c.FUNCTIONS),
            ("vf.contracts.terms_c", ["formulae.terms.terms.GroupSpecificTerm.eval_new_data", "formulae.terms.terms.Term.set_type", "formulae.terms.terms.Term.get_component"]),
            ("vf.contracts.variable_c", ["formulae.terms.variable.Variable.labels", "formulae.terms.call.Call.labels"] + ["formulae.terms.variable.Variable.eval_categoric", "formulae.terms.call.Call.eval_categoric"]),
            # property lemmas: label j of a categorical factor names exactly the level whose indicator column j is; two-way interaction
            # the intercept column: one 1 per row of the frame it is evaluated on (training and new data)
            ("vf.contracts.call_newdata_c", [f for f in __import__("vf.contracts.call_newdata_c", fromlist=["FUNCTIONS"]).FUNCTIONS if ".Intercept." in f]),
            ("vf.contracts.lemmas_c", ["vf.proplemmas.c04.main_effect", "vf.proplemmas.c04.main_effect#call", "vf.proplemmas.c04.pair_interaction"])]


def run(report, findings):
    checklib.run_proofs(report, "C04", PROOFS())
    known = {}
    if os.path.exists(KNOWN):
        with gzip.open(KNOWN, "rt") as fh:
            known = json.load(fh)
    fk = {f["id"] for f in findings if f.get("kind") == "finding"}
    res = results(report.tier, common.seed())
    ok = bad = shown = skipped = 0
    for f, sig in sorted(res.items()):
        if sig == "ok":
            ok += 1
            continue
        if sig.startswith("raise"):
            skipped += 1     # no design was produced: nothing for C04 to judge (C03 owns these)
            continue
        fid = "C04-" + sig_class(sig)
        if known.get(f) == sig_class(sig) and fid in fk:
            report.known_hits[fid] = report.known_hits.get(fid, 0) + 1
            continue
        bad += 1
        if shown < 10:
            shown += 1
            report.violation(f"formula {f!r}: {sig}", {"formula": f, "signature": sig, "frame": f"vf.props.C04.frame({common.seed()})"})
    keys = sorted(res)
    report.coverage.update({
        "evaluations": len(res), "distinct_nontrivial": ok,
        "rule": "distinct formulas: interactions of 1-3 atoms (numeric, str, unordered/ordered Categorical, C(k), C(k, levels=), "
                "T(f, ref), C(o)) in every order, with/without intercept, a*b, a/b, and group-specific terms; non-trivial = design "
                "built and every column recomputed from its label on a frame with unequal level counts",
        "samples": keys[:2] + keys[len(keys) // 2: len(keys) // 2 + 2] + keys[-2:],
        "known_failing_inputs_listed": len(known), "new_failures": bad, "skipped_no_design": skipped})
    report.assumptions = list(dict.fromkeys(list(report.assumptions) + ["labels are parsed by splitting on ':' and '|' outside brackets; level names are compared as str()"]))

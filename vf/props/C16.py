"""C16 - built-in helper functions and aliases keep their documented pointwise meaning."""
import numpy as np
import pandas as pd

from .. import common, checklib

LEVEL = "exploration"


def frame(seed, n=20):
    rng = np.random.default_rng(seed)
    from ..rtc.gen import _cover
    d = pd.DataFrame({"y": rng.normal(size=n), "x": rng.normal(size=n) + 1, "z": rng.uniform(1, 5, size=n),
                      "n0": _cover(rng, [-2, 0, 3, 7], n), "m": _cover(rng, [1, 2, 5], n), "s": _cover(rng, ["", "b", "a"], n),
                      "t": _cover(rng, ["u", "v"], n), "f": _cover(rng, ["a", "b", "c"], n)})
    d["trials"] = rng.integers(5, 12, size=n)
    d["k"] = (d["trials"] * rng.uniform(0, 1, size=n)).astype(int)
    # the same factor stored as pandas Categorical: unordered with the categories in another order, and ordered
    d["fc"] = pd.Categorical(d["f"], categories=["c", "a", "b"])
    d["fo"] = pd.Categorical(d["f"], categories=["b", "c", "a"], ordered=True)
    return d


def col(dm, name=None):
    X = np.asarray(dm.common.design_matrix, dtype=float)
    names = list(dm.common.terms)
    name = name or names[-1]
    return np.asarray(dm.common[name], dtype=float).reshape(len(X), -1)


def PROOFS():
    from ..contracts import transforms_c, scanner_c, offset_c, lemmas_c   # noqa: F401
    T = "formulae.transforms."
    return [("vf.contracts.transforms_c", [T + "binary", T + "Proportion.__init__", T + "Proportion.eval"]),
            # offset(v): the column unchanged / the constant broadcast, refused as a response, the constant re-broadcast over the NEW frame
            ("vf.contracts.offset_c", offset_c.FUNCTIONS),
            ("vf.contracts.lemmas_c", ["vf.proplemmas.c16.constant_offset"]),
            # the success value / the constant trials / the constant offset the helpers receive is Python's reading of the literal's text
            ("vf.contracts.scanner_c", ["formulae.scanner.Scanner." + f for f in ("number", "floatnum", "char", "add_token")])]


def run(report, findings):
    checklib.run_proofs(report, "C16", PROOFS())
    import logging
    import warnings
    logging.getLogger("formulae").setLevel(logging.CRITICAL)
    warnings.simplefilter("ignore")
    from formulae import design_matrices
    from formulae.transforms import TRANSFORMS, binary, proportion, Scale, Center, offset, C, T, S, I
    fk = {f["id"] for f in findings if f.get("kind") == "finding"}
    res = []

    def add(tag, err):
        res.append((tag, err or "ok"))
    # ---- alias table: exact synonyms
    for a, b in (("B", "binary"), ("p", "prop"), ("prop", "proportion"), ("standardize", "scale")):
        add(f"alias {a} = {b}", None if TRANSFORMS.get(a) is TRANSFORMS.get(b) and TRANSFORMS.get(a) is not None else "not the same object")
    for name, obj in (("binary", binary), ("proportion", proportion), ("scale", Scale), ("center", Center), ("offset", offset),
                      ("C", C), ("T", T), ("S", S), ("I", I)):
        add(f"TRANSFORMS[{name!r}]", None if TRANSFORMS.get(name) is obj else "registered under a different object")
    seeds = [common.seed()] if report.tier == "quick" else [common.seed() + i for i in range(6)]
    for sd in seeds:
        d = frame(sd)
        # ---- binary / B
        for fn in ("binary", "B"):
            for var in ("n0", "m", "s", "t"):
                vals = d[var].values
                uniq = sorted(pd.unique(d[var]).tolist())
                for sval in [None] + uniq + ([99] if var in ("n0", "m") else ["zz"]):
                    succ = uniq[0] if sval is None else sval
                    lit = "" if sval is None else (f", {sval!r}" if isinstance(sval, str) else f", {sval}")
                    f = f"y ~ {fn}({var}{lit})"
                    present = succ in uniq
                    try:
                        dm = design_matrices(f, d)
                        got = col(dm)[:, 0]
                        want = (vals == succ).astype(float)
                        err = None
                        if not present:
                            err = "a success value that never occurs in training was accepted"
                        elif not np.array_equal(got, want):
                            err = f"not 1 exactly where {var} == {succ!r}"
                    except ValueError:
                        err = None if not present else "refused although the success value occurs"
                    except Exception as ex:
                        err = f"raised {type(ex).__name__}: {ex}"
                    add(f, err)
            # success passed as a variable from the namespace
            for sv in (0, 3):
                succ = sv   # noqa: F841
                try:
                    got = col(design_matrices(f"y ~ {fn}(n0, succ)", d))[:, 0]
                    add(f"y ~ {fn}(n0, succ) with succ={sv}", None if np.array_equal(got, (d["n0"].values == sv).astype(float)) else
                        f"not 1 exactly where n0 == {sv}")
                except Exception as ex:
                    add(f"y ~ {fn}(n0, succ) with succ={sv}", f"raised {type(ex).__name__}: {ex}")
        # ---- offset: unchanged, constants broadcast, recomputed from the new frame
        c0 = 2.5      # noqa: F841  (looked up by the formula through the caller's namespace)
        tt = 40       # noqa: F841
        new = d.iloc[[3, 1, 4, 1]].reset_index(drop=True)
        new["z"] = new["z"] * 10
        for f, want_tr, want_new in (("y ~ x + offset(z)", d["z"].values, new["z"].values),
                                     ("y ~ x + offset(2.5)", np.full(len(d), 2.5), np.full(len(new), 2.5)),
                                     ("y ~ x + offset(3)", np.full(len(d), 3.0), np.full(len(new), 3.0)),
                                     ("y ~ x + offset(np.log(z))", np.log(d["z"].values), np.log(new["z"].values)),
                                     # constants that are not a bare literal: signed, computed, taken from the calling scope
                                     ("y ~ x + offset(-3)", np.full(len(d), -3.0), np.full(len(new), -3.0)),
                                     ("y ~ x + offset(np.log(10))", np.full(len(d), np.log(10)), np.full(len(new), np.log(10))),
                                     ("y ~ x + offset(c0)", np.full(len(d), 2.5), np.full(len(new), 2.5)),
                                     ("y ~ x + offset(z * 2 + 1)", d["z"].values * 2 + 1, new["z"].values * 2 + 1)):
            try:
                dm = design_matrices(f, d)
                got = col(dm)[:, 0]
                err = None if np.allclose(got, want_tr) else "offset column differs from its argument"
                got2 = np.asarray(dm.common.evaluate_new_data(new).design_matrix, dtype=float)[:, -1]
                if err is None and not np.allclose(got2, want_new):
                    err = "offset is not recomputed from the new frame at prediction"
            except Exception as ex:
                err = f"raised {type(ex).__name__}: {ex}"
            add(f, err)
        # an integer-typed training offset (counts, exposure) and fractional values in the new frame: nothing of the training
        # representation (dtype) may be carried over to prediction
        newi = new.copy()
        newi["n0"] = np.array([2.5, 0.75, 6.2, 1.5])
        for f, want_tr, want_new in (("y ~ x + offset(n0)", d["n0"].values, newi["n0"].values),
                                     ("y ~ x + offset(n0 * 2)", d["n0"].values * 2, newi["n0"].values * 2),
                                     ("y ~ x + offset(3)", np.full(len(d), 3.0), np.full(len(newi), 3.0))):
            try:
                dm = design_matrices(f, d)
                got = col(dm)[:, 0]
                err = None if np.allclose(got, want_tr) else "offset column differs from its argument"
                got2 = np.asarray(dm.common.evaluate_new_data(newi).design_matrix, dtype=float)[:, -1]
                if err is None and not np.allclose(got2, want_new):
                    err = "offset is not recomputed from the new frame at prediction"
            except Exception as ex:
                err = f"raised {type(ex).__name__}: {ex}"
            add(f + "  [integer training column, fractional new frame]", err)
        for f in ("offset(z) ~ x", "y ~ offset(f)"):
            try:
                design_matrices(f, d)
                add(f, "accepted")
            except ValueError:
                add(f, None)
            except Exception as ex:
                add(f, f"raised {type(ex).__name__}")
        # ---- prop: validation and trials of the new frame
        for alias in ("prop", "p", "proportion"):
            # the trials argument by position or keyword, a column, a literal, an expression of a column, a number of the calling scope
            for trials, tr_of in (("trials", lambda e: e["trials"].values), ("12", lambda e: np.full(len(e), 12)),
                                  ("trials=trials", lambda e: e["trials"].values), ("trials + 1", lambda e: e["trials"].values + 1),
                                  ("tt", lambda e: np.full(len(e), 40)), ("trials=12", lambda e: np.full(len(e), 12))):
                f = f"{alias}(k, {trials}) ~ x"
                try:
                    dm = design_matrices(f, d)
                    R = np.asarray(dm.response.design_matrix, dtype=float)
                    tr = tr_of(d)
                    err = None if np.array_equal(R, np.column_stack([d["k"].values, tr]).astype(float)) else "response is not [successes, trials]"
                    nt = np.asarray(dm.response.evaluate_new_data(new), dtype=float).reshape(-1)
                    want_nt = tr_of(new)
                    if err is None and not np.array_equal(nt, want_nt.astype(float)):
                        err = "prediction does not report the trials of the new frame"
                except Exception as ex:
                    err = f"raised {type(ex).__name__}: {ex}"
                add(f, err)
            # successes stored in a narrow integer type: the trials are reported as written, whatever dtype holds the successes
            d8 = d.copy()
            d8["k8"] = d8["k"].astype(np.int8)
            d8["big"] = d8["trials"] + 290
            for trials, want in (("300", np.full(len(d8), 300.0)), ("big", d8["big"].values.astype(float)), ("70000", np.full(len(d8), 70000.0))):
                f = f"{alias}(k8, {trials}) ~ x"
                try:
                    R = np.asarray(design_matrices(f, d8).response.design_matrix, dtype=float)
                    add(f + " (int8 successes)", None if np.array_equal(R, np.column_stack([d8["k"].values.astype(float), want])) else "response is not [successes, trials]")
                except Exception as ex:
                    add(f + " (int8 successes)", f"raised {type(ex).__name__}: {ex}")
            # a trials column that happens to be constant in training is still a column: the new frame's values are reported
            dc = d.copy()
            dc["trials"] = 12
            f = f"{alias}(k, trials) ~ x"
            try:
                dm = design_matrices(f, dc)
                nt = np.asarray(dm.response.evaluate_new_data(new), dtype=float).reshape(-1)
                err = None if np.array_equal(nt, new["trials"].values.astype(float)) else \
                    "trials column constant in training: prediction does not report the trials of the new frame"
            except Exception as ex:
                err = f"raised {type(ex).__name__}: {ex}"
            add(f + " (training trials all 12)", err)
            # some / all / no rows with successes > trials; non-integers
            for nbad in (0, 1, len(d) // 2, len(d)):
                e = d.copy()
                rows = list(range(nbad))
                e.loc[rows, "k"] = e.loc[rows, "trials"] + 1
                for trials in ("trials", "4"):
                    invalid = nbad > 0 if trials == "trials" else bool((e["k"] > 4).any())
                    f = f"{alias}(k, {trials}) ~ x"
                    try:
                        design_matrices(f, e)
                        acc = True
                    except ValueError:
                        acc = False
                    except Exception as ex:
                        acc = f"{type(ex).__name__}"
                    add(f"{f} with {nbad} rows k > trials", None if acc is (not invalid) else f"accepted={acc} but invalid rows exist={invalid}")
            e = d.copy()
            e["k"] = e["k"] + 0.5
            try:
                design_matrices(f"{alias}(k, trials) ~ x", e)
                add(f"{alias}: non-integer successes", "accepted")
            except ValueError:
                add(f"{alias}: non-integer successes", None)
            try:
                design_matrices(f"y ~ {alias}(k, trials)", d)
                add(f"{alias} as predictor", "accepted")
            except ValueError:
                add(f"{alias} as predictor", None)
            except Exception as ex:
                add(f"{alias} as predictor", f"raised {type(ex).__name__}")
        # ---- the helpers and aliases are the library's, whatever the calling scope or extra_namespace binds to their names
        shadow = {"I": np.eye(3), "p": 0.25, "prop": None, "B": "b", "offset": lambda v: v * 0 + 99, "standardize": lambda v: v * 0,
                  "scale": lambda v: v * 0 + 7, "T": 1, "S": 2, "binary": lambda *a: np.zeros(len(d)), "Treatment": None, "Sum": None}
        for f, want in (("y ~ I(x + z)", (d["x"] + d["z"]).values), ("y ~ x + offset(z)", d["z"].values),
                        ("y ~ standardize(x)", ((d["x"] - d["x"].mean()) / np.std(d["x"].values)).values),
                        ("y ~ scale(x)", ((d["x"] - d["x"].mean()) / np.std(d["x"].values)).values),
                        ("y ~ 0 + B(t, 'v')", (d["t"] == "v").astype(float).values), ("y ~ 0 + binary(m, 2)", (d["m"] == 2).astype(float).values)):
            try:
                got = col(design_matrices(f, d, extra_namespace=dict(shadow)))[:, -1]
                add(f + " with user objects named like the helpers", None if np.allclose(got, want) else "a user object replaced the built-in helper")
            except Exception as ex:
                add(f + " with user objects named like the helpers", f"raised {type(ex).__name__}: {ex}")
        for f in ("p(k, trials) ~ x", "prop(k, trials) ~ x"):
            try:
                R = np.asarray(design_matrices(f, d, extra_namespace=dict(shadow)).response.design_matrix, dtype=float)
                add(f + " with user objects named like the helpers", None if np.array_equal(R, np.column_stack([d["k"].values, d["trials"].values]).astype(float))
                    else "response is not [successes, trials]")
            except Exception as ex:
                add(f + " with user objects named like the helpers", f"raised {type(ex).__name__}: {ex}")
        for fa, fb in (("y ~ T(f, 'b')", "y ~ C(f, Treatment('b'))"), ("y ~ S(f)", "y ~ C(f, Sum)")):
            try:
                A = col(design_matrices(fa, d, extra_namespace=dict(shadow)))
                Bm = col(design_matrices(fb, d))
                add(fa + " with user objects named like the helpers", None if np.array_equal(A, Bm) else "differs from " + fb)
            except Exception as ex:
                add(fa + " with user objects named like the helpers", f"raised {type(ex).__name__}: {ex}")
        # ---- I(e) is e; {e} too
        for e_txt, want in (("x + z", d["x"] + d["z"]), ("x * 2", d["x"] * 2), ("z", d["z"])):
            for f in (f"y ~ I({e_txt})", "y ~ {" + e_txt + "}"):
                try:
                    add(f, None if np.allclose(col(design_matrices(f, d))[:, 0], want.values) else "I(e) is not e")
                except Exception as ex:
                    add(f, f"raised {type(ex).__name__}: {ex}")
        # ---- T / S are C with the encoding; standardize is scale
        for a, b in (("T(f, 'b')", "C(f, Treatment('b'))"), ("S(f, 'a')", "C(f, Sum('a'))"), ("standardize(x)", "scale(x)"),
                     ("B(t)", "binary(t)"), ("B(m, 2)", "binary(m, 2)"), ("T(f, 'c')", "C(f, Treatment('c'))"), ("T(f)", "C(f, Treatment)"),
                     ("S(f)", "C(f, Sum)"), ("T(f, ref='b')", "C(f, Treatment('b'))"),
                     ("T(fc, 'b')", "C(fc, Treatment('b'))"), ("S(fc)", "C(fc, Sum)"), ("S(fc, 'a')", "C(fc, Sum('a'))"), ("T(fc)", "C(fc, Treatment)"),
                     ("T(fo, 'c')", "C(fo, Treatment('c'))"), ("S(fo)", "C(fo, Sum)")):
            # a synonym is a synonym in every context: with an intercept (reduced coding), without (full coding), inside an interaction
            for ctx_ in ("y ~ {}", "y ~ 0 + {}", "y ~ 0 + x:{}"):
                fa, fb = ctx_.format(a), ctx_.format(b)
                try:
                    da, db = design_matrices(fa, d), design_matrices(fb, d)
                    A, Bm = col(da), col(db)
                    la = [c.replace(a, "@") for c in da.common.as_dataframe().columns]
                    lb = [c.replace(b, "@") for c in db.common.as_dataframe().columns]
                    add(f"{fa} == {fb}", None if A.shape == Bm.shape and np.array_equal(A, Bm) and la == lb else "synonyms give different columns / labels")
                except Exception as ex:
                    add(f"{fa} == {fb}", f"raised {type(ex).__name__}: {ex}")
    evals = ok = bad = 0
    for tag, sig in res:
        evals += 1
        if sig == "ok":
            ok += 1
            continue
        bad += 1
        if bad <= 10:
            report.violation(f"{tag}: {sig}", {"case": tag, "error": sig, "frame": f"vf.props.C16.frame({common.seed()})"})
    report.coverage.update({
        "evaluations": evals, "distinct_nontrivial": ok,
        "rule": "alias table identities; binary/B over numeric and string columns x every occurring, absent, falsy and default success value; "
                "offset (column, constants, call) at training and on a new frame; prop/p/proportion validation with 0/1/half/all invalid rows and "
                "new-frame trials; I(e) and {e}; synonym pairs; non-trivial = the pointwise meaning holds",
        "samples": [r[0] for r in res[:3]] + [r[0] for r in res[40:43]]})
    report.assumptions = list(dict.fromkeys(list(report.assumptions) + ["prediction-time behaviour of binary() is a recorded C06 finding (C06-binary-reestimated) and is not re-judged here"]))

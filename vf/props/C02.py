"""C02 - term algebra expands operators by Wilkinson-Rogers / lme4 set semantics."""
import itertools
import logging
import random

from .. import common, checklib
from ..rtc import par

LEVEL = "exploration"
logging.getLogger("formulae").setLevel(logging.ERROR)

ATOMS = ["a", "b", "c", "f(x)", "f(x, 2)", "f(x, k=1)", "f(x, k=2)",
         # calls of one function whose arguments differ in kind at one position (variable / call / operation / number)
         "f(g(x))", "f(x + 1)"]
OPS = ["+", "-", ":", "*", "/"]
EFFECTS = ["x", "1", "0 + x", "x + 0", "x - 1", "1 + x", "x + 1", "x + z", "0 + x + z", "-1 + x", "x - 1 + z",
           "x:z", "x*z", "x/z", "f(x) + z", "x + z - 1", "x + z + 0", "1 + x - 1", "1 - 1 + x", "x*z - 1"]
GROUPS = ["g", "g + h", "g/h", "g:h", "g*h"]
# call atoms that differ only by precedence-changing parentheses: one printed name, two factors
TWINS = [("I((x+z)*w)", "I(x+z*w)"), ("f(x-(z-w))", "f(x-z-w)"), ("f(-(x+z))", "f(-x+z)"), ("f(x, k=(z+1)*2)", "f(x, k=z+1*2)"),
         ("f((x))", "f(x)"), ("f( x ,2)", "f(x, 2)")]            # the last two ARE one atom (textual variants)


def trees(n, atoms):
    if n == 0:
        yield from atoms
        return
    for k in range(n):
        for l in trees(k, atoms):
            for r in trees(n - 1 - k, atoms):
                for op in OPS:
                    yield f"({l} {op} {r})"


def formulas(tier, rng):
    out = []
    small = ATOMS[:5]
    for n in range(0, 3):
        for t in trees(n, ATOMS if n < 2 else small):
            out.append(t)
            if n <= 1:
                out.append(f"{t}**2")
                out.append(f"{t}**3")
    base = list(out)
    for t in list(trees(1, small)):
        for u in small[:3]:
            out.append(f"({t} + {u})**2")
            out.append(f"({t} + {u})**3")
    for e in EFFECTS:
        for g in GROUPS:
            out += [f"({e}|{g})", f"a + ({e}|{g})", f"({e}|{g}) + b", f"a*b + ({e}|{g}) - a"]
    for A, B in TWINS:
        for p, q in ((A, B), (B, A)):
            out += [f"{p} {op} {q}" for op in OPS] + [f"({p} + {q})**2", f"({p}|g) + ({q}|g)", f"({p} + {q}|g)", f"(1|{p}) + (1|{q})",
                                                      f"a:{p} + a:{q}", f"{p} + a - {q}", f"({p} + a) * ({q} + b)"]
    # the same callee with arguments of different kinds, in both orders (term identity compares the arguments element by element)
    KINDS_ = ["f(x)", "f(g(x))", "f(x + 1)", "f(2)", "f('s')", "f(x, 2)", "f(g(x), 2)", "f(x, k=g(x))", "f(x, k=x)", "f(x, k=2)", "f(-x)", "f(g(x) + 1)"]
    for p in KINDS_:
        for q in KINDS_:
            out += [f"{p} + {q}", f"y ~ {p}:{q}", f"({p} + a) * ({q} + b)", f"(1|{p}) + (1|{q})"]
    # differences and repeated groups of multi-term operands (three and more operators; the exhaustive part stops at two)
    LEFTS = ["a + b", "a + b + c", "a*b", "a/b", "(a + b + c)**2", "a + f(x) + b", "a*b*c"]
    RIGHTS = ["a + b", "a + a:b", "b + c", "a:b + a", "a + f(x)", "a:b + a:c", "b + a"]
    for A in LEFTS:
        for B in RIGHTS:
            out += [f"{A} - ({B})", f"y ~ {A} - ({B})", f"({A}) - ({B}) + c"]
    for G in ("(a + b)", "(a + f(x))", "(a + b + c)"):
        out += [f"{G}**2 + {G}:c", f"{G}**2 - {G}", f"{G}/c + {G}:d", f"{G}/c - {G}", f"y ~ {G}**2 + {G}:c", f"{G}:c + {G}:d", f"{G}*c + {G}:d",
                f"{G} - a + {G}"]
    # a difference applied directly to the result of  l op (multi-term)  (before anything is united with it: three operators)
    for l in ("a", "b", "a:b", "f(x)"):
        for B in RIGHTS + ["a + b + c", "b + a:b"]:
            for op in ("/", "*", ":"):
                for u in ("a", "b", "a:b", "a:c"):
                    out += [f"y ~ ({l} {op} ({B}) - {u})", f"(({l} {op} ({B})) - {u}) + c", f"(({B}) {op} {l} - {u})"]
    # products / quotients of two single terms whose interaction collapses onto one of them, then used further
    for l in ("a:b", "a:b:c", "f(x):a"):
        for r in ("a", "b", "a:b", "b:a"):
            for op in ("*", "/", ":"):
                out += [f"y ~ ({l} {op} {r} - {l})", f"y ~ ({l} {op} {r} - {r})", f"(({l} {op} {r}) + c)**2", f"({r} {op} {l} + c)**2 - c", f"({l} {op} {r}) / c",
                        f"({l} {op} {r}|g)"]
    out += random_formulas(rng, 3000 if tier == "quick" else 40000)
    pick = base if tier == "thorough" else rng.sample(base, min(len(base), 1500))
    for f in pick:
        out += [f"y ~ {f}", f"y ~ 0 + {f}", f"{f} - 1", f"y ~ {f} + 1", f"f(y) ~ 1 + {f}", f"y ~ {f} + 0"]
    if tier == "thorough":
        deep = list(trees(3, small[:4]))
        out += rng.sample(deep, min(len(deep), 40000))
    return out


PREC = {"+": 1, "-": 1, "*": 2, "/": 2, ":": 3, "**": 4}          # the documented precedence (binary operators, all left-associative)


def parenthesise(chain):
    """fully parenthesised form of  atom op atom op ... atom  under the documented precedence (precedence climbing, written here,
    independent of the parser)"""
    pos = [0]

    def climb(minp):
        left = chain[pos[0]]
        pos[0] += 1
        while pos[0] < len(chain) and PREC[chain[pos[0]]] >= minp:
            op = chain[pos[0]]
            pos[0] += 1
            right = climb(PREC[op] + 1)
            left = f"({left} {op} {right})"
        return left
    return climb(1)


def chains(tier, rng):
    """(unparenthesised formula, its fully parenthesised form): the first must expand as the second"""
    out = []
    ops = list(PREC)
    for n in (2, 3):
        for seq in itertools.product(ops, repeat=n):
            if len(set(PREC[o] for o in seq)) == 1 and len(set(seq)) == 1 and seq[0] in "+:":
                continue
            atoms = ["a", "b", "c", "d"][:n + 1]
            chain = [atoms[0]]
            for o, x in zip(seq, atoms[1:]):
                chain += [o, "2" if o == "**" else x]
            plain, full = " ".join(chain), parenthesise(chain)
            out += [(plain, full), (f"y ~ {plain}", f"y ~ {full}"), (f"y ~ x + ({plain}|g)", f"y ~ x + ({full}|g)")]
            out.append((plain.replace(" ", ""), full))
    return out if tier == "thorough" else rng.sample(out, min(len(out), 400)) + out[:160]


def random_formulas(rng, count):
    """Grammar-generated formulas of depth <= 4 over a rich atom pool (the same callee with arguments of every kind, nested calls,
    quoted names, levels, {..}), group terms included; judged by the same specification (what it does not define is skipped)."""
    atoms = ["a", "b", "c", "d", "f(x)", "f(g(x))", "f(x + 1)", "f(x, 2)", "f(2, x)", "f(x, k=g(x))", "f(x, k='s')", "g(f(x))", "g(x)", "{x + 1}",
             "{x * 2}", "I(x + 1)", "`w w`", "a['u']", "np.log(x)", "np.log(np.abs(x))", "f(-x)", "f(x ** 2)", "h(x, y, z)", "h(x, g(y), z)"]
    ops = ["+", "+", "-", ":", "*", "/"]

    def gen(d):
        r = rng.random()
        if d == 0 or r < 0.3:
            return rng.choice(atoms)
        if r < 0.4:
            return "(" + gen(d - 1) + ")**" + rng.choice("23")
        if r < 0.5:
            return "(" + gen(d - 1) + ")"
        return gen(d - 1) + " " + rng.choice(ops) + " " + gen(d - 1)
    out = []
    for _ in range(count):
        f = gen(rng.randint(1, 4))
        r = rng.random()
        if r < 0.25:
            f += f" + ({rng.choice(['1', 'a', '0 + a', 'f(x)', 'f(g(x)) + a'])}|{rng.choice(['g', 'g:h', 'f(x)', 'f(g(x))', 'g + h'])})"
        out.append(("y ~ " if rng.random() < 0.6 else "") + f)
    return out


def late_removal(tree):
    """Known-finding class C02-late-intercept-removal: a group term whose effect side removes the
    intercept (+0, -1, + -1) after the preceding additive items already amount to two or more
    terms, or after an explicit 1 (the removal then meets a Model that holds no Intercept item)."""
    from formulae.expr import Binary, Grouping, Literal, Unary
    hits = []

    def items(e, sign, acc):
        while isinstance(e, Grouping):
            e = e.expression
        if isinstance(e, Binary) and e.operator.kind in ("PLUS", "MINUS"):
            items(e.left, sign, acc)
            items(e.right, sign * (1 if e.operator.kind == "PLUS" else -1), acc)
        else:
            acc.append((sign, e))

    def lit(e):
        neg = 1
        while isinstance(e, (Unary, Grouping)):
            if isinstance(e, Unary):
                neg *= -1 if e.operator.kind == "MINUS" else 1
                e = e.right
            else:
                e = e.expression
        if isinstance(e, Literal) and e.value in (0, 1) and not isinstance(e.value, bool):
            return (1 if e.value == 1 else -1) * neg
        return 0

    def walk(e):
        if isinstance(e, Grouping):
            walk(e.expression)
        elif isinstance(e, Binary):
            if e.operator.kind == "PIPE":
                acc = []
                items(e.left, 1, acc)
                from ..rtc.algebra import ev as spec_ev, OutOfLanguage
                seen_one = False
                prefix_terms = []
                for i, (sg, it) in enumerate(acc):
                    v = lit(it) * sg
                    if v == -1 and i >= 1 and (len(prefix_terms) >= 2 or seen_one):
                        hits.append(e)
                    if v == 1:
                        seen_one = True
                    if v == 0 and sg == 1:
                        try:
                            for t in spec_ev(it)[0]:
                                if t not in prefix_terms:
                                    prefix_terms.append(t)
                        except OutOfLanguage:
                            pass
            walk(e.left)
            walk(e.right)
        elif isinstance(e, Unary):
            walk(e.right)
    walk(tree)
    return bool(hits)


def equal_model_product(tree):
    """Known-finding class C02-equal-models-product: a '*' whose operands are sums with the same set of terms
    (Model.__mul__ returns self when self == other, so the cross interactions are missing)."""
    from formulae.expr import Binary, Grouping, Unary
    from ..rtc.algebra import ev as spec_ev, OutOfLanguage
    hit = []

    def walk(e):
        if isinstance(e, Grouping):
            walk(e.expression)
        elif isinstance(e, Unary):
            walk(e.right)
        elif isinstance(e, Binary):
            if e.operator.kind == "STAR":
                try:
                    a, b = spec_ev(e.left)[0], spec_ev(e.right)[0]
                    if len(a) >= 2 and set(a) == set(b):
                        hit.append(e)
                except OutOfLanguage:
                    pass
            walk(e.left)
            walk(e.right)
    walk(tree)
    return bool(hit)


def _chunk(forms):
    from ..rtc.algebra import expand, observed, OutOfLanguage, expand_counts, observed_counts
    from formulae.scanner import Scanner
    from formulae.parser import Parser
    from formulae import model_description
    from formulae.resolver import Resolver
    from ..contracts import algebra_c as ac
    evals = nontriv = 0
    bad = []
    known = 0
    known2 = 0
    for f in forms:
        ref = f
        if isinstance(f, tuple):         # (formula without parentheses, the fully parenthesised form it must be read as)
            f, ref = f
        try:
            tree = Parser(Scanner(ref).scan(False)).parse()
            spec = expand(tree)
        except OutOfLanguage:
            continue
        except Exception:
            continue
        evals += 1
        if len(spec[1]) + len(spec[2]) >= 3:
            nontriv += 1
        try:
            md = model_description(f)
            obs = observed(md)
        except Exception as ex:
            bad.append((f, f"model_description raised {type(ex).__name__}: {ex}", str(spec), None))
            continue
        if obs != spec:
            if (late_removal(tree) and obs[0] == spec[0] and obs[1] == spec[1] and spec[2] <= obs[2]
                    and all(n.startswith("1|") for n in obs[2] - spec[2])):
                known += 1
                continue
            if (equal_model_product(tree) and obs[0] == spec[0] and obs[2] == spec[2] and obs[1] <= spec[1]
                    and all(":" in n for n in spec[1] - obs[1])):
                known2 += 1
                continue
            bad.append((f, "expansion differs from the set-semantics specification" + (f" of its fully parenthesised form {ref}" if ref != f else ""),
                        str(spec), str(obs)))
            continue
        if ref != f:
            continue
        # the specification function of the Resolver contract (vf/contracts/algebra_c.model_of), executed natively on the real syntax
        # tree with the real operator overloads, against the real Resolver
        try:
            t1, t2 = Parser(Scanner(f).scan()).parse(), Parser(Scanner(f).scan()).parse()
            if ac.wf_formula(t1):
                got_m, want_m = Resolver(t1).resolve(), ac.model_of(t2)
                if repr(got_m) != repr(want_m):
                    bad.append((f, "Resolver's result differs from the operator-by-operator specification model_of", repr(want_m)[:300], repr(got_m)[:300]))
                    continue
        except Exception:       # noqa: BLE001 - formulas the operators refuse are judged by the expansion check above
            pass
        sc, oc = expand_counts(tree), observed_counts(md)
        if sc != oc:
            bad.append((f, "number of terms per name differs from the specification (distinct factors merged or one factor kept twice)",
                        str(tuple(dict(c) for c in sc)), str(tuple(dict(c) for c in oc))))
    return evals, nontriv, bad[:20], known, known2


def PROOFS():
    from ..contracts import algebra_c, parser_c, operators_c
    T = "formulae.terms.terms."
    R = "formulae.terms.call_resolver."
    from ..contracts import terms_c
    return [("vf.contracts.terms_c", terms_c.IDENTITY + [T + "Term.__init__", T + "Term.__eq__", T + "Model.__init__", T + "Model.add_term", T + "Model.terms",
                                      T + "Model.__add__", T + "Model.__sub__", T + "Model.__add__#model", T + "Model.__sub__#model"]),
            ("vf.contracts.call_resolver_c", [R + c for c in ("LazyValue.__eq__", "LazyCall.__eq__", "LazyOperator.__eq__", "LazyVariable.__eq__",
                                                              "LazyValue.__hash__", "LazyVariable.__hash__",
                                                              # compared with an object of another class: not equal (and no exception)
                                                              "LazyValue.__eq__#other", "LazyCall.__eq__#other", "LazyOperator.__eq__#other",
                                                              "LazyVariable.__eq__#other")]),
            ("vf.contracts.variable_c", ["formulae.terms.call.Call.__eq__", "formulae.terms.call.Call.__hash__",
                                         "formulae.terms.variable.Variable.__eq__", "formulae.terms.variable.Variable.__hash__"]),
            # the Resolver: every operator token is wired to the documented operator of the term classes, operands in source order
            ("vf.contracts.algebra_c", algebra_c.FUNCTIONS),
            # ':' on Models: the set of pairwise interactions, each once, operands untouched (product() by its defining property)
            ("vf.contracts.operators_c", operators_c.FUNCTIONS),
            # the syntax tree the Resolver is given: the parser's binary levels (documented precedence, left-associative)
            ("vf.contracts.parser_c", parser_c.FUNCTIONS)]


def run(report, findings):
    checklib.run_proofs(report, "C02", PROOFS())
    rng = random.Random(common.seed())
    forms = sorted(set(formulas(report.tier, rng)))
    pairs = sorted(set(chains(report.tier, rng)))
    forms = forms + pairs
    chunks = [forms[i::64] for i in range(64)]
    res = par.pmap(_chunk, chunks)
    evals = sum(r[0] for r in res)
    nontriv = sum(r[1] for r in res)
    known = sum(r[3] for r in res)
    fk = {f["id"]: f for f in findings if f.get("kind") == "finding"}
    known2 = sum(r[4] for r in res)
    if known2:
        if "C02-equal-models-product" in fk:
            report.known_hits["C02-equal-models-product"] = known2
        else:
            report.violation("(A) * (B) with equal term sets returns A without the cross interactions", {"count": known2})
    if known:
        if "C02-late-intercept-removal" in fk:
            report.known_hits["C02-late-intercept-removal"] = known
        else:
            report.violation("intercept removal late on the effect side of | is ignored", {"count": known})
    shown = 0
    for r in res:
        for f, err, spec, obs in r[2]:
            if shown < 12:
                report.violation(f"formula {f!r}: {err}", {"formula": f, "error": err, "expected": spec, "observed": obs})
                shown += 1
    report.coverage.update({
        "evaluations": evals, "distinct_nontrivial": nontriv,
        "rule": "distinct formula strings inside the documented language (intercept literals only as additive items of "
                "the right-hand side / effect side of |); non-trivial = the specified expansion has at least three terms",
        "samples": forms[:3] + forms[len(forms) // 3: len(forms) // 3 + 3] + [" == ".join(p) for p in pairs[-3:]],
        "exhaustive": True,
        "bounded": {"enumerator": "all operator trees with <=2 binary operators over 7 atoms (5 for depth 2), **2/**3, "
                                  "20 effect expressions x 5 grouping expressions x 4 contexts, intercept contexts; chains of 3-4 atoms without parentheses "
                                  "against their fully parenthesised form (own precedence climbing); "
                                  "thorough adds 40000 depth-3 trees", "formulas_generated": len(forms)},
        "oracle": "vf/rtc/algebra.py expand(): executable set-semantics specification over the parser AST; term identity is "
                  "the ordered duplicate-free factor list (a:b and b:a are different terms, as in formulae)",
    })
    report.assumptions = list(dict.fromkeys(list(report.assumptions) + ["the scanner is trusted to deliver the tokens (C01)",
                          "formulas outside the documented language (parenthesised intercept literals, '- 0', "
                          "group terms as operands of : * / **) are skipped, not judged"]))

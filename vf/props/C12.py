"""C12 - call terms evaluate like the Python expression they spell."""
import random

import numpy as np
import pandas as pd

from .. import common, checklib
from ..rtc import par

LEVEL = "exploration"
N = 7
CMP = ["<", "<=", "==", "!=", ">", ">="]
ARITH = ["+", "-", "*", "/", "**"]

CALLS = []


def rec(*args, **kwargs):
    CALLS.append((args, kwargs))
    return args[0]


def h(v):
    return v * 2 + 1


def two(v, k=2):
    """a call whose value has k columns"""
    return np.column_stack([np.asarray(v, dtype=float) * (j + 1) for j in range(k)])


# a callee reached through several attribute levels, with decoys of the same name on the way
from types import SimpleNamespace as _NS      # noqa: E402
ns = _NS(inner=_NS(deep=_NS(f=lambda v: v * 5 + 1, core=_NS(f=lambda v: v * 11)), f=lambda v: v * 3), deep=_NS(f=lambda v: v * 7, core=_NS(f=lambda v: v * 13)),
         core=_NS(f=lambda v: v * 17), f=lambda v: v * 2)


class Chain:
    """terms: list of (sign, atom); ops between them. atom: ('leaf', text) | ('paren', Chain) | ('call', Chain)."""

    def __init__(self, terms, ops):
        self.terms = terms
        self.ops = ops

    def tokens(self):
        out = []
        for i, (sign, atom) in enumerate(self.terms):
            if i:
                out.append(("op", self.ops[i - 1]))
            if sign:
                out.append(("sign", sign))
            if atom[0] == "leaf":
                out.append(("leaf", atom[1]))
            elif atom[0] == "paren":
                out += [("lp", "(")] + atom[1].tokens() + [("rp", ")")]
            else:
                out += [("leaf", "h"), ("lp", "(")] + atom[1].tokens() + [("rp", ")")]
        return out

    def classes(self):
        """Known-finding classes of the pinned tree this expression falls into."""
        cl = set()
        for i, (sign, atom) in enumerate(self.terms):
            if sign and i < len(self.ops) and self.ops[i] == "**":
                cl.add("sign-power")
            if i + 1 < len(self.ops) and self.ops[i] == "**" and self.ops[i + 1] == "**":
                cl.add("power-assoc")
            if atom[0] == "paren":
                cl.add("parens")
            if atom[0] in ("paren", "call"):
                cl |= atom[1].classes()
        return cl


def gen_chain(rnd, depth, allow_cmp=True):
    n = rnd.choice([1, 1, 2, 2, 3, 4])
    terms, ops = [], []
    used_cmp = not allow_cmp
    for i in range(n):
        sign = rnd.choice(["", "", "", "-", "+"])
        r = rnd.random()
        if depth > 0 and r < 0.15:
            atom = ("paren", gen_chain(rnd, depth - 1, False))
        elif depth > 0 and r < 0.25:
            atom = ("call", gen_chain(rnd, depth - 1, False))
        else:
            atom = ("leaf", rnd.choice(["a", "b", "c", "a", "b", "2", "0.5", "3"]))
        terms.append((sign, atom))
        if i < n - 1:
            if not used_cmp and rnd.random() < 0.12:
                ops.append(rnd.choice(CMP))
                used_cmp = True
            else:
                ops.append(rnd.choice(ARITH))
    return Chain(terms, ops)


def spell(tokens, rnd=None):
    """Canonical (rnd None) or randomly spaced text of a token list."""
    out = ""
    prev = None
    for kind, t in tokens:
        if rnd is None:
            if kind == "op":
                out += f" {t} "
            else:
                out += t
        else:
            pad = rnd.choice(["", " ", "  "])
            # avoid gluing '*' '*' into '**', or a sign into '**'/'--' changing tokens: keep one blank where needed
            if prev is not None and (prev[1][-1:] in "*<>=!+-/" and t[:1] in "*<>=") :
                pad = " "
            out += pad + t
        prev = (kind, t)
    return out.strip()


def build_case(rnd):
    e1 = gen_chain(rnd, 2)
    e2 = gen_chain(rnd, 1, False)
    form = rnd.choice(["I", "brace", "rec"])
    return form, e1, e2


def texts(form, e1, e2, rnd):
    if form == "I":
        return f"I({spell(e1.tokens(), rnd)})", f"I({spell(e1.tokens())})"
    if form == "brace":
        return "{" + spell(e1.tokens(), rnd) + "}", f"I({spell(e1.tokens())})"
    sp = rnd.choice(["", " "])
    # the string literal reaches the callee exactly as written (blanks inside a literal are part of the value)
    lit = rnd.choice(["'x y'", "'x y'", "'x  y'", "' x y '", "'x\ty'", '"x   y"', "'x   y  z'"])
    messy = f"rec({spell(e1.tokens(), rnd)},{sp}0.5 ,{sp}k{sp}={sp}{spell(e2.tokens(), rnd)}, s={lit})"
    canon = f"rec({spell(e1.tokens())}, 0.5, k={spell(e2.tokens())}, s={lit})"
    return messy, canon


def same_value(x, y):
    try:
        return bool(np.allclose(np.asarray(x), np.asarray(y), equal_nan=True))
    except Exception:
        return repr(x) == repr(y)


def _chunk(task):
    import logging
    import warnings
    seed, count = task
    logging.getLogger("formulae").setLevel(logging.CRITICAL)
    warnings.simplefilter("ignore")
    from formulae import design_matrices
    from formulae.scanner import Scanner
    from formulae.parser import Parser
    from formulae.terms.call_resolver import CallResolver
    from ..contracts import resolver_c as rc
    rnd = random.Random(seed)
    rng = np.random.default_rng(seed)
    d = pd.DataFrame({"y": rng.normal(size=N), "a": rng.uniform(1, 2, N), "b": rng.uniform(1, 2, N), "c": rng.uniform(1, 2, N)})
    env = {"a": d["a"], "b": d["b"], "c": d["c"], "h": h, "rec": rec, "I": lambda v: v, "ns": ns}
    res = []
    cases = []
    for _ in range(count):
        form, e1, e2 = build_case(rnd)
        messy, canon = texts(form, e1, e2, rnd)
        cases.append((form, messy, canon, e1.classes() | (e2.classes() if form == "rec" else set())))
    if seed % 1000 == 0:
        # integer literals that no double represents must be read exactly (kept out of the random chains: a ** of them never ends)
        for big in ("9007199254740993", "12345678901234567891"):
            cases += [("I", f"I(a + {big})", f"I(a + {big})", set()), ("I", f"I( {big}*b )", f"I({big} * b)", set()),
                      ("rec", f"rec(a, 0.5, k={big}, s='x y')", f"rec(a, 0.5, k={big}, s='x y')", set())]
    if seed % 1000 == 1:
        # callees reached through 1..4 attribute levels; argument expressions with observable evaluation order (positional, then keyword)
        for dotted in ("ns.f", "ns.inner.f", "ns.inner.deep.f", "ns.inner.deep.core.f", "ns.deep.core.f"):
            cases += [("I", f"{dotted}(a)", f"{dotted}(a)", set()), ("I", f"I({dotted}( a+b ) * 2)", f"I({dotted}(a + b) * 2)", set()),
                      ("rec", f"rec({dotted}(a), 0.5, k={dotted}(b), s='x y')", f"rec({dotted}(a), 0.5, k={dotted}(b), s='x y')", set())]
        cases += [("rec", "rec(rec(a, 1), 0.5, k=rec(b, 2), s='x y')", "rec(rec(a, 1), 0.5, k=rec(b, 2), s='x y')", set()),
                  ("rec", "rec(rec(a, 1) + rec(b, 2), 0.5, k=rec(c, 3) * rec(a, 4), s='x y')",
                   "rec(rec(a, 1) + rec(b, 2), 0.5, k=rec(c, 3) * rec(a, 4), s='x y')", set())]
    if seed % 1000 == 2:
        # (i) a frame with its own row labels and an operand that lives in the calling scope with the same labels: the names resolve to
        # the frame's columns as they are (labels included), so pandas aligns them as Python's eval does; (ii) a one-row frame with a
        # call whose value has several columns
        d2 = d.copy()
        d2.index = [f"r{i}" for i in range(N)][::-1]
        w = pd.Series(rng.uniform(1, 2, N), index=list(d2.index)[::-1])        # noqa: F841  (same labels, other order)
        env2 = {"a": d2["a"], "b": d2["b"], "c": d2["c"], "w": w, "I": lambda v: v, "two": two, "np": np}
        for frame_, txts in ((d2, ["I(a + w)", "I(a * w - b)", "I(w / a)"]), (d.iloc[[3]], ["two(a)", "two(a + b, 3)", "two(a, k=3)"]),
                             (d2.iloc[[2]], ["two(a * 2)"])):
            envx = dict(env2, a=frame_["a"], b=frame_["b"], c=frame_["c"])
            for txt in txts:
                f = f"y ~ 0 + {txt}"
                try:
                    want = np.asarray(eval(txt, {"__builtins__": {}}, dict(envx)), dtype=float)
                    want = want.reshape(len(want), -1)
                    X = np.asarray(design_matrices(f, frame_).common.design_matrix, dtype=float)
                    X = X.reshape(X.shape[0], -1) if X.ndim else X.reshape(1, 1)
                    ok_ = X.shape == want.shape and np.allclose(X, want, equal_nan=True)
                    res.append((f, set(), "ok" if ok_ else f"value: column differs from Python's eval of the same text (shape {X.shape} vs {want.shape})"))
                except Exception as ex:
                    res.append((f, set(), f"value: raised {type(ex).__name__}: {ex}"))
    for form, messy, canon, cls in cases:
        pytext = messy[1:-1] if form == "brace" else messy
        try:
            CALLS.clear()
            want = eval(pytext if form != "brace" else f"I({pytext})", {"__builtins__": {}}, dict(env))
            want_calls = list(CALLS)
        except Exception as ex:
            continue        # not a valid Python expression over these values (e.g. complex result): skip
        if np.ndim(want) == 0:
            continue        # a constant is not a term value: outside the property
        try:
            want = np.asarray(want, dtype=float)
        except (TypeError, ValueError):
            continue        # complex / object results: not a numeric column, outside the property
        if not np.all(np.isfinite(want)):
            continue
        f = f"y ~ 0 + {messy}"
        # the specification function of the resolver contract (vf/contracts/resolver_c.lazy_of), executed natively on the real
        # syntax tree, against the real CallResolver
        try:
            tree = Parser(Scanner(messy).scan(False)).parse()
            if rc.wf(tree) and rc.resolvable(tree):
                got_lazy, want_lazy = CallResolver(tree).resolve(), rc.lazy_of(tree)
                if not (got_lazy == want_lazy and str(got_lazy) == str(want_lazy)):
                    res.append((f, cls, f"resolver: lazy object {got_lazy} differs from the node-by-node specification {want_lazy}"))
                    continue
        except Exception as ex:
            res.append((f, cls, f"resolver: raised {type(ex).__name__}: {ex}"))
            continue
        try:
            CALLS.clear()
            dm = design_matrices(f, d)
            got_calls = list(CALLS)
        except Exception as ex:
            res.append((f, cls, f"value: raised {type(ex).__name__}: {ex}"))
            continue
        X = np.asarray(dm.common.design_matrix, dtype=float).reshape(N, -1)
        names = list(dm.common.terms)
        err = None
        if X.shape[1] != 1 or not np.allclose(X[:, 0], want, rtol=1e-9, atol=1e-12):
            err = "value: column differs from Python's eval of the same text"
        elif form == "rec":
            ga, gk = got_calls[-1]
            wa, wk = want_calls[-1]
            if len(ga) != len(wa) or set(gk) != set(wk) or not all(same_value(x, y_) for x, y_ in zip(ga[:2], wa[:2])) \
                    or not same_value(gk["k"], wk["k"]) or gk["s"] != wk["s"]:
                err = "value: the callee received different positional/keyword arguments than under Python's eval"
            else:
                order = lambda calls: [float(c_[0][1]) for c_ in calls if len(c_[0]) > 1 and np.ndim(c_[0][1]) == 0]      # noqa: E731
                if order(got_calls[-len(want_calls):]) != order(want_calls):
                    err = (f"value: argument expressions were evaluated in the order {order(got_calls[-len(want_calls):])}, "
                           f"Python evaluates them in the order {order(want_calls)}")
        irregular = form == "rec" and ("  " in canon or "\t" in canon or "' " in canon)
        # (a literal with irregular blanks: the value is judged above; how such a literal is spelled in the name is left open)
        if err is None and names != [canon] and not irregular:
            err = f"name: term is named {names}, expected the normalised source text {canon!r}"
        res.append((f, cls, err or "ok"))
    return res


IDENTITY_CASES = [
    # (formula, expected number of common terms): textual variants are one term, different calls differ
    ("y ~ 0 + rec(a, k=2) + rec( a ,k = 2 )", 1), ("y ~ 0 + rec(a, k=2) + rec(a, k=3)", 2), ("y ~ 0 + rec(a, k=b) + rec(a, k=c)", 2),
    ("y ~ 0 + rec(a, s='u') + rec(a, s='v')", 2), ("y ~ 0 + rec(a, s='u') + rec(a, s=\"u\")", 2), ("y ~ 0 + h(a) + h( a )", 1),
    ("y ~ 0 + rec(a, k=2, s='u') + rec(a, k=2, s='u')", 1), ("y ~ 0 + rec(a + b) + rec(a+b)", 1),
    ("y ~ 0 + rec(a, k=1):rec(a, k=2)", 1), ("y ~ 0 + rec(a, k=9007199254740993) + rec(a, k=9007199254740992)", 2),
    ("y ~ 0 + rec(h(a)) + rec(b)", 2), ("y ~ 0 + rec(b) + rec(h(a))", 2), ("y ~ 0 + rec(a, k=h(b)) + rec(a, k=b)", 2), ("y ~ 0 + rec(a + 1) + rec(h(a))", 2),
    ("y ~ 0 + rec(a, k=2) + rec(a, k=h(b))", 2), ("y ~ 0 + rec(h(a)) + rec(h(a))", 1), ("y ~ 0 + rec(h(a) + 1) + rec(a * 2 + 1)", 2),
    ("y ~ 0 + rec(a, k=+b) + rec(a, k=b)", 2), ("y ~ 0 + rec(a, s='u v') + rec(a, s='u  v')", 2), ("y ~ 0 + rec(a, s='u\tv') + rec(a, s='u v')", 2), ("y ~ 0 + {a + 1} + I(a + 1)", 1), ("y ~ 0 + rec(a, k=h(b)) + rec(a, k=h(c))", 2),
]


def known_class(cls, sig):
    if sig.startswith("value") and "sign-power" in cls:
        return "C12-sign-binds-tighter-than-power"
    if sig.startswith("value") and "power-assoc" in cls:
        return "C12-power-left-associative"
    if sig.startswith("name") and "parens" in cls:
        return "C12-name-drops-parentheses"
    return None


def PROOFS():
    from ..contracts import call_resolver_c, parser_c, resolver_c
    R = "formulae.terms.call_resolver."
    return [("vf.contracts.call_resolver_c", [R + "LazyValue.eval"] + [R + c for c in (
        "LazyValue.__eq__", "LazyCall.__eq__", "LazyOperator.__eq__", "LazyVariable.__eq__",
        "LazyValue.__eq__#other", "LazyCall.__eq__#other", "LazyOperator.__eq__#other", "LazyVariable.__eq__#other")]),
            # literal scanning: the literal of a NUMBER / STRING / PYTHON_LITERAL token is Python's reading of exactly its text
            ("vf.contracts.scanner_c", ["formulae.scanner.Scanner." + f for f in ("__init__", "add_token", "floatnum", "number", "identifier", "char")]),
            ("vf.contracts.variable_c", ["formulae.terms.call.Call.__eq__", "formulae.terms.call.Call.__hash__"]),
            # the lazy object built for the arguments mirrors the parsed expression node by node, with Python's operator for every
            # operator token (all visit methods, dynamic dispatch through accept, resolve)
            ("vf.contracts.resolver_c", resolver_c.FUNCTIONS),
            # the argument grammar is the formula grammar: tree shape, precedence levels and associativity of every parser function
            ("vf.contracts.parser_c", parser_c.FUNCTIONS)]


def run(report, findings):
    checklib.run_proofs(report, "C12", PROOFS())
    fk = {f["id"] for f in findings if f.get("kind") == "finding"}
    total = 2400 if report.tier == "quick" else 40000
    res = []
    for r in par.pmap(_chunk, [(common.seed() * 1000 + i, total // 16) for i in range(16)]):
        res += r
    evals = ok = bad = 0
    for f, cls, sig in res:
        evals += 1
        if sig == "ok":
            ok += 1
            continue
        kc = known_class(cls, sig)
        if kc and kc in fk:
            report.known_hits[kc] = report.known_hits.get(kc, 0) + 1
            continue
        bad += 1
        if bad <= 8:
            report.violation(f"formula {f!r}: {sig}", {"formula": f, "error": sig, "classes": sorted(cls)})
    from formulae import design_matrices
    d = pd.DataFrame({"y": np.arange(N, dtype=float), "a": np.linspace(1, 2, N), "b": np.linspace(2, 3, N), "c": np.linspace(3, 4, N)})
    for f, want in IDENTITY_CASES:
        evals += 1
        try:
            n = len(design_matrices(f, d).common.terms)
        except Exception as ex:
            n = f"raise {type(ex).__name__}"
        if n == want:
            ok += 1
        else:
            bad += 1
            report.violation(f"formula {f!r}: {n} terms, expected {want} (textual variants of one call are one term, different calls differ)",
                             {"formula": f, "terms": n, "expected": want})
    report.coverage.update({
        "evaluations": evals, "distinct_nontrivial": ok,
        "rule": "generated call terms I(e), {e}, rec(e, 0.5, k=e2, s='x y') with operator chains (signs, + - * / **, one comparison, "
                "parentheses, nested calls) over three columns and literals, random blanks; value, received arguments and term name "
                "compared with Python's eval of the same text; non-trivial = all three agree",
        "samples": [r[0] for r in res[:5]]})
    report.assumptions = list(dict.fromkeys(list(report.assumptions) + ["values compared with relative tolerance 1e-9"]))

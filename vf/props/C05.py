"""C05 - group-specific blocks: group indicators x effect columns, lme4 intercept rules."""
import gzip
import itertools
import json
import os

import numpy as np
import pandas as pd

from .. import common, checklib
from ..rtc import par

LEVEL = "exploration"
KNOWN = os.path.join(common.ROOT, "known", "C05_failing.json.gz")
KINDS = {"c": "cat", "e": "cat", "x": "num", "z": "num", "g": "cat", "k": "cat", "h": "cat", "n": "num", "x_c": "num", "gc": "cat", "k_lv": "cat", "go": "cat"}

# effect expressions: (text, list of effect terms as tuples, intercept present)
EFFECTS = [
    ("1", [], True), ("x", [("x",)], True), ("0 + x", [("x",)], False), ("c", [("c",)], True), ("0 + c", [("c",)], False),
    ("x + z", [("x",), ("z",)], True), ("0 + x + z", [("x",), ("z",)], False), ("x + c", [("x",), ("c",)], True),
    ("c + x", [("c",), ("x",)], True), ("0 + c + x", [("c",), ("x",)], False), ("c:x", [("c", "x")], True),
    ("x:c", [("x", "c")], True), ("0 + c:x", [("c", "x")], False), ("c + e", [("c",), ("e",)], True),
    ("0 + c + e", [("c",), ("e",)], False), ("c:e", [("c", "e")], True), ("0 + c:e", [("c", "e")], False),
    ("c*e", [("c",), ("e",), ("c", "e")], True), ("c*x", [("c",), ("x",), ("c", "x")], True),
    ("scale(x)", [("x",)], True), ("0 + center(x)", [("x_c",)], False), ("0 + c:center(x)", [("c", "x_c")], False), ("C(c)", [("c",)], True), ("0 + C(c)", [("c",)], False), ("x + x:c", [("x",), ("x", "c")], True),
]
# grouping expressions: (text, list of factor terms)
GROUPS = [("g", [("g",)]), ("g + h", [("g",), ("h",)]), ("g:h", [("g", "h")]), ("h:g", [("h", "g")]),
          ("g/h", [("g",), ("g", "h")]), ("C(k)", [("k",)]),
          # a numeric column used as grouping factor (forced to categoric): levels in numeric order, not in string order
          ("k", [("k",)]), ("k:h", [("k", "h")]),
          # an unordered pandas Categorical (categories listed in another order, one of them unused) inside C(): sorted observed levels
          ("C(gc)", [("gc",)]), ("C(gc):h", [("gc", "h")]),
          # a declared level order is respected: C(k, levels=lv) with lv = [100, 5, 10], and an ordered Categorical through C()
          ("C(k, levels=lv)", [("k_lv",)]), ("C(go)", [("go",)])]
lv = [100, 5, 10]
DECLARED = {"k_lv": ("k", lv), "go": ("go", ["w", "u", "v"])}
EXTRA = [  # combinations of several group terms
    "(0 + c|g) + (1|g)", "(1|g) + (0 + c|g)", "(0 + c|g) + (x|g)", "(1|g) + (0 + c|g + h)", "(1|h) + (0 + c|g + h)",
    "(0 + c|g + h) + (x|h)", "(x|g) + (0 + z|g)", "(1|g) + (0 + x|g) + (0 + c|g)", "(c|g) + (e|h)", "(0 + x|g) + (1|h)",
    # one numeric column as grouping factor of one term and as numeric effect of another
    "(1|n) + (0 + n|g)", "(0 + n|g) + (1|n)", "(x|n) + (n|g)", "(n|g) + (1|n:h)",
]
EXTRA_SPEC = {
    "(0 + c|g) + (1|g)": {("g",): ([("c",)], True)}, "(1|g) + (0 + c|g)": {("g",): ([("c",)], True)},
    "(0 + c|g) + (x|g)": {("g",): ([("c",), ("x",)], True)},
    "(1|g) + (0 + c|g + h)": {("g",): ([("c",)], True), ("h",): ([("c",)], False)},
    "(1|h) + (0 + c|g + h)": {("g",): ([("c",)], False), ("h",): ([("c",)], True)},
    "(0 + c|g + h) + (x|h)": {("g",): ([("c",)], False), ("h",): ([("c",), ("x",)], True)},
    "(x|g) + (0 + z|g)": {("g",): ([("x",), ("z",)], True)},
    "(1|g) + (0 + x|g) + (0 + c|g)": {("g",): ([("x",), ("c",)], True)},
    "(c|g) + (e|h)": {("g",): ([("c",)], True), ("h",): ([("e",)], True)},
    "(0 + x|g) + (1|h)": {("g",): ([("x",)], False), ("h",): ([], True)},
    "(1|n) + (0 + n|g)": {("n",): ([], True), ("g",): ([("n",)], False)}, "(0 + n|g) + (1|n)": {("n",): ([], True), ("g",): ([("n",)], False)},
    "(x|n) + (n|g)": {("n",): ([("x",)], True), ("g",): ([("n",)], True)}, "(n|g) + (1|n:h)": {("n", "h"): ([], True), ("g",): ([("n",)], True)},
}


def frame(seed):
    from ..rtc.gen import factorial_frame
    rng = np.random.default_rng(seed)
    d = factorial_frame(rng, {"g": ["u", "v", "w"], "h": ["p", "q"], "c": ["a", "b", "cc"], "e": ["m", "n"]}, reps=2,
                        numerics=("x", "z"))
    d["k"] = d["g"].map({"u": 10, "v": 5, "w": 100})
    d["n"] = d["c"].map({"a": 3, "b": 11, "cc": 7})      # numeric codes, crossed with g and h
    d["x_c"] = d["x"] - d["x"].mean()                    # what center(x) is on THIS frame
    d["gc"] = pd.Categorical(d["g"], categories=["w", "zz", "v", "u"])
    d["go"] = pd.Categorical(d["g"], categories=["w", "u", "v"], ordered=True)
    d["k_lv"] = d["k"]
    return d


def universe():
    forms = {}
    for (et, eterms, icpt), (gt, gterms) in itertools.product(EFFECTS, GROUPS):
        if any(v in {w for t in gterms for w in t} for t in eterms for v in t):
            continue
        forms[f"y ~ x + ({et}|{gt})"] = {tuple(g): (eterms, icpt) for g in gterms}
    for ex in EXTRA:
        forms[f"y ~ x + {ex}"] = EXTRA_SPEC[ex]
    return forms


def cell_indicator(d, factor):
    """Complete indicator of a grouping factor; cells of g1:g2 in lexicographic (first slowest) order."""
    levels = [DECLARED[v][1] if v in DECLARED else sorted(pd.unique(d[v]).tolist()) for v in factor]
    cols, names = [], []
    for cell in itertools.product(*levels):
        m = np.ones(len(d), dtype=bool)
        for v, l in zip(factor, cell):
            m &= (d[v] == l).values
        cols.append(m.astype(float))
        names.append(":".join(str(c) for c in cell))
    return np.column_stack(cols), names


def evaluate(formula, spec, d):
    from formulae import design_matrices
    from ..rtc.designs import model_space, failure_signature
    from ..rtc.gen import rank, same_span
    try:       # the same formula on another frame first (other location of x): every design is computed from the frame at hand
        e = d.copy()
        e["x"] = e["x"] * 3 + 100
        design_matrices(formula, e)
    except Exception:      # noqa: BLE001
        pass
    try:
        dm = design_matrices(formula, d)
    except Exception as ex:
        return "raise:" + failure_signature(ex)
    if dm.group is None:
        return "no-group-matrix"
    per_factor = {}
    for name, term in dm.group.terms.items():
        fac = tuple(c.name for c in term.factor.components)
        fac_cols = tuple({"C(k)": "k", "C(gc)": "gc", "C(k, levels=lv)": "k_lv", "C(go)": "go"}.get(v, v) for v in fac)
        J, cells = cell_indicator(d, fac_cols)
        Z = np.asarray(dm.group[name], dtype=float).reshape(len(d), -1)
        G = J.shape[1]
        if Z.shape[1] % G:
            return f"block-shape: term {name} has {Z.shape[1]} columns for {G} groups"
        p = Z.shape[1] // G
        if list(term.groups) != cells:
            return f"group-order: term {name} groups {list(term.groups)} != sorted cells {cells}"
        grp = J.argmax(axis=1)
        X = np.column_stack([Z[np.arange(len(d)), grp * p + l] for l in range(p)])
        want = np.column_stack([J[:, gi] * X[:, l] for gi in range(G) for l in range(p)])
        if not np.allclose(Z, want, atol=1e-9):
            return f"block-structure: term {name} is not (group indicator) x (effect columns), group slowest"
        en = name.split("|")[0]
        if en == "1" and not np.allclose(X, 1):
            return f"block-values: intercept effect of {name} is not 1 on the rows of its group"
        if en == "center(x)" and not np.allclose(X[:, 0], d["x_c"].values):
            return f"block-values: effect column of {name} is not x - mean(x) of this frame"
        if en in ("x", "z", "n") and not np.allclose(X[:, 0], d[en].values):
            return f"block-values: effect column of {name} does not carry {en}"
        per_factor.setdefault(fac_cols, []).append(Z)
    for fac, blocks in per_factor.items():
        if fac not in spec:
            return f"unexpected-factor: {fac}"
        eterms, icpt = spec[fac]
        Zg = np.column_stack(blocks)
        J, _ = cell_indicator(d, fac)
        E = model_space(d, eterms, KINDS, icpt)
        want = np.column_stack([J[:, gi] * E[:, l] for gi in range(J.shape[1]) for l in range(E.shape[1])])
        if rank(Zg) != Zg.shape[1]:
            return f"rank: columns of grouping factor {':'.join(fac)} are linearly dependent ({rank(Zg)} < {Zg.shape[1]})"
        if not same_span(Zg, want):
            return f"span: columns of grouping factor {':'.join(fac)} do not span the group-by-cell means ({rank(Zg)} of {rank(want)})"
    if set(per_factor) != set(spec):
        return f"missing-factor: {set(spec) - set(per_factor)}"
    return "ok"


def _chunk(task):
    import logging
    import warnings
    items, seed = task
    logging.getLogger("formulae").setLevel(logging.CRITICAL)
    warnings.simplefilter("ignore")
    d = frame(seed)
    return {f: evaluate(f, spec, d) for f, spec in items}


def results(seed):
    items = sorted(universe().items())
    out = {}
    for r in par.pmap(_chunk, [(items[i::32], seed) for i in range(32)]):
        out.update(r)
    return out


def sig_class(s):
    return s.split(":")[0]


def make_known():
    import collections
    res = results(0)
    known = {f: sig_class(s) for f, s in res.items() if s != "ok"}
    with gzip.open(KNOWN, "wt") as fh:
        json.dump(known, fh, sort_keys=True)
    print(len(res), "inputs", collections.Counter(known.values()))
    for f, s in res.items():
        if s != "ok":
            print("  ", f, "->", s)


def PROOFS():
    from ..contracts import utils_c, terms_c, variable_c, matrices_c  # noqa: F401
    return [("vf.contracts.utils_c", utils_c.FUNCTIONS),
            ("vf.contracts.matrices_c", ["formulae.matrices.GroupEffectsMatrix.__init__", "formulae.matrices.GroupEffectsMatrix.evaluate",
                                         # (the blocks of the training design stay where they are when new data are evaluated)
                                         "formulae.matrices.GroupEffectsMatrix.evaluate_new_data", "formulae.matrices.GroupEffectsMatrix.__getitem__"]), ("vf.contracts.terms_c", ["formulae.terms.terms.GroupSpecificTerm.eval_new_data"]),
            # the coding of a grouping factor: sorted duplicate-free levels, one indicator column per level
            ("vf.contracts.variable_c", ["formulae.terms.variable.Variable.eval_categoric", "formulae.terms.call.Call.eval_categoric"])]


def run(report, findings):
    checklib.run_proofs(report, "C05", PROOFS())
    with gzip.open(KNOWN, "rt") as fh:
        known = json.load(fh)
    fk = {f["id"] for f in findings if f.get("kind") == "finding"}
    seeds = [common.seed()] if report.tier == "quick" else [common.seed() + i for i in range(8)]
    ok = bad = evals = 0
    allkeys = []
    for sd in seeds:
        res = results(sd)
        evals += len(res)
        allkeys = sorted(res)
        for f, sig in sorted(res.items()):
            if sig == "ok":
                ok += 1
                continue
            fid = "C05-effect-coding-" + sig_class(sig)
            if known.get(f) == sig_class(sig) and fid in fk:
                report.known_hits[fid] = report.known_hits.get(fid, 0) + 1
                continue
            bad += 1
            if bad <= 10:
                report.violation(f"formula {f!r}: {sig}", {"formula": f, "signature": sig, "frame": f"vf.props.C05.frame({sd})"})
    report.coverage.update({
        "evaluations": evals, "distinct_nontrivial": ok,
        "rule": "distinct (formula, data seed): 23 effect expressions x 6 grouping expressions + 10 multi-term combinations on fully "
                "crossed data; non-trivial = block structure, group order and per-factor rank/span all verified",
        "samples": allkeys[:3] + allkeys[-3:], "known_failing_inputs_listed": len(known), "new_failures": bad})
    report.assumptions = list(dict.fromkeys(list(report.assumptions) + ["rank / span are numeric (SVD, least squares)"]))

"""C01 - formula grammar: precedence, associativity, nothing silently ignored."""
import itertools
import random

from .. import common, checklib
from ..rtc import par

LEVEL = "proof"

ALPHABET = ["y", "x", "g", "f", "1", "0", "2", "~", "+", "-", "*", "/", ":", "**", "|", "(", ")", ",",
            "[", "]", "{", "}", "=", "==", "'a'", "`b`"]

MUST_REJECT = ["y ~ x z", "y ~ x )", "y ~ x | g", "y ~ x == 2", "y ~ (x", "y ~ f(x", "y ~ x ~ z", "y ~ 'a",
               "y ~ x +", "y ~ f(x,)", "y ~ f(,x)", "y ~ x[", "y ~ {x", "y ~ x }", "y ~ x ]", "(", "y ~ x ,",
               "y ~ a b + c", "y ~ a + (b c)", "y ~ f(a b)", "y ~ x[a b]", "y ~ \"a", "x ~ y ~ z", "a = b = c"]


def _oracle():
    """The parser's top-level contract (from vf.contracts.parser_c) executed on real objects."""
    from ..contracts import parser_c as pc
    from formulae.scanner import Scanner
    from formulae.parser import Parser
    from formulae.expr import Grouping, Binary, Unary, Call, Variable, Assign, QuotedName, Literal

    def strip(e):
        """Remove redundant Grouping nodes."""
        if isinstance(e, Grouping):
            return strip(e.expression)
        if isinstance(e, Binary):
            return Binary(strip(e.left), e.operator, strip(e.right))
        if isinstance(e, Unary):
            return Unary(e.operator, strip(e.right))
        if isinstance(e, Assign):
            return Assign(strip(e.name), strip(e.value))
        if isinstance(e, Call):
            return Call(strip(e.callee), [strip(a) for a in e.args])
        if isinstance(e, Variable) and e.level is not None:
            return Variable(e.name, strip(e.level))
        return e

    def unparse(e, full, brace_ok=True):
        """Source text of a tree; full=True parenthesises every operator node."""
        if isinstance(e, Grouping):
            return "(" + unparse(e.expression, full) + ")"
        if isinstance(e, Binary):
            s = unparse(e.left, full) + " " + e.operator.lexeme + " " + unparse(e.right, full)
            return "(" + s + ")" if full else s
        if isinstance(e, Unary):
            s = e.operator.lexeme + unparse(e.right, full)
            return "(" + s + ")" if full else s
        if isinstance(e, Assign):
            return unparse(e.name, full) + " = " + unparse(e.value, full)
        if isinstance(e, Call):
            return unparse(e.callee, full) + "(" + ", ".join(unparse(a, full) for a in e.args) + ")"
        if isinstance(e, Variable):
            if e.level is None:
                return e.name.lexeme
            lv = e.level
            # y[ident] is stored as Literal(ident) without a lexeme: spell it back as the identifier
            inner = lv.value if isinstance(lv, Literal) and isinstance(lv.value, str) and lv.lexeme is None \
                else unparse(lv, full)
            return e.name.lexeme + "[" + inner + "]"
        if isinstance(e, QuotedName):
            return e.expression.lexeme
        if isinstance(e, Literal):
            if e.lexeme is not None:
                return e.lexeme if e.lexeme[:1] in "'\"" else "'" + e.lexeme + "'"
            return repr(e.value) if not isinstance(e.value, str) else "'" + e.value + "'"
        raise TypeError(e)

    def check_string(s):
        """Returns (accepted, error-or-None)."""
        try:
            toks = Scanner(s).scan()
            tree = Parser(list(toks)).parse()
        except Exception:
            return False, None
        T = list(toks)
        n = len(T)
        try:
            if not pc.covers(T, tree, 0):
                return True, "accepted but the tree does not cover the token sequence (covers)"
            if pc.size(T, tree, 0) != n - 1:
                return True, f"accepted but only {pc.size(T, tree, 0)} of {n - 1} tokens are in the tree"
            if not pc.strat(tree):
                return True, "accepted but the tree is not stratified by the documented precedence/associativity"
        except Exception as ex:   # e.g. IndexError inside covers: the tree claims tokens that do not exist
            return True, f"contract evaluation failed on accepted input: {type(ex).__name__}: {ex}"
        # fully parenthesised form parses to the same tree (modulo Grouping)
        try:
            full = unparse(tree, True)
            t2 = Parser(Scanner(full).scan(False)).parse()
        except Exception as ex:
            return True, f"fully parenthesised form {full!r} rejected: {type(ex).__name__}: {ex}"
        if strip(t2) != strip(tree):
            return True, f"fully parenthesised form {full!r} parses to a different tree"
        return True, None

    return check_string, strip, unparse


def _chunk(task):
    prefix, n = task
    check_string, strip, unparse = _oracle()
    from formulae.scanner import Scanner
    from formulae.parser import Parser
    evals = acc = 0
    bad = []
    for rest in itertools.product(ALPHABET, repeat=n - len(prefix)):
        lex = list(prefix) + list(rest)
        s = " ".join(lex)
        evals += 1
        ok, err = check_string(s)
        if ok:
            acc += 1
            if err is None:
                # whitespace between tokens never changes the model: dense / padded spellings
                for variant in ("".join(lex), "  ".join(lex) + " "):
                    try:
                        t_ref = Scanner(s).scan()
                        t_var = Scanner(variant).scan()
                    except Exception:
                        continue
                    if [(t.kind, t.lexeme) for t in t_var] != [(t.kind, t.lexeme) for t in t_ref]:
                        continue   # gluing changed the tokens (e.g. 'x' 'y' -> 'xy'): a different sentence
                    try:
                        if Parser(t_var).parse() != Parser(t_ref).parse():
                            err = f"whitespace variant {variant!r} parses differently"
                    except Exception as ex:
                        err = f"whitespace variant {variant!r} rejected: {ex}"
        if err and len(bad) < 5:
            bad.append((s, err))
    return evals, acc, bad


def _random_sentences(rng, count):
    """Grammar-generated sentences of unbounded depth with random blanks and redundant parentheses."""
    atoms = ["x", "z", "g", "f(x)", "f(x, 2)", "{x + 1}", "`w w`", "3", "'s'", "y['a']", "np.log(x)"]
    ops = ["+", "-", "*", "/", ":", "**", "|", "==", "<", "<="]

    def gen(d):
        r = rng.random()
        if d == 0 or r < 0.25:
            a = rng.choice(atoms)
            return a
        if r < 0.35:
            return rng.choice("+-") + gen(d - 1)
        if r < 0.5:
            return "(" + gen(d - 1) + ")"
        return gen(d - 1) + rng.choice([" ", "", "  "]) + rng.choice(ops) + rng.choice([" ", "", "\t"]) + gen(d - 1)
    out = []
    for _ in range(count):
        s = gen(rng.randint(1, 6))
        if rng.random() < 0.6:
            s = "y ~ " + s
        out.append(s)
    return out


def _paren_variants(rng, count):
    """Groups of spellings of one sentence that differ only by redundant parentheses (and blanks), inside call arguments and at the top
    level: the plain chain, its fully parenthesised form under the documented precedence (precedence climbing of C02.parenthesise,
    independent of the parser), every atom wrapped, the whole argument wrapped twice."""
    from .C02 import parenthesise
    out = []
    for _ in range(count):
        inside = rng.random() < 0.7
        atoms = ["x", "z", "w", "2", "1.5", "g(x)"] if inside else ["a", "b", "c", "f(x)", "d"]
        ops = ["+", "-", "*", "/", "**"] if inside else ["+", "-", "*", "/", ":"]
        chain = [rng.choice(atoms)]
        for _i in range(rng.randint(1, 4)):
            op = rng.choice(ops)
            chain += [op, "2" if op == "**" and not inside else rng.choice(atoms)]
        plain, full = " ".join(chain), parenthesise(chain)
        wrapped = " ".join(f"({t})" if i % 2 == 0 else t for i, t in enumerate(chain))
        spellings = [plain, full, wrapped, f"(({plain}))", plain.replace(" ", ""), full.replace(" ", "  ")]
        if inside:
            fn = rng.choice(["I(%s)", "f(%s)", "np.log(%s)", "{%s}", "f(x, k=%s)", "f(%s, 2)", "(I(%s))"])
            spellings = [fn % v for v in spellings]
        out.append(spellings)
    return out


def _same_model(spellings):
    """None, or what differs between the models of spellings that are one sentence up to redundant parentheses"""
    from formulae import model_description
    try:
        ref = model_description("y ~ " + spellings[0])
    except Exception:
        return None, False           # the sentence is refused (e.g. a number in an interaction): nothing to compare
    for v in spellings[1:]:
        try:
            m = model_description("y ~ " + v)
        except Exception as ex:
            return f"{spellings[0]!r} is accepted but {v!r} raises {type(ex).__name__}: {ex}", True
        try:
            same = len(m.terms) == len(ref.terms) and all(a == b and hash(a) == hash(b) for a, b in zip(ref.terms, m.terms))
        except Exception as ex:     # noqa: BLE001 - comparing the terms of two spellings of one sentence must not fail either
            return f"comparing the terms of {v!r} and {spellings[0]!r} raises {type(ex).__name__}: {ex}", True
        if not same:
            return f"{v!r} and {spellings[0]!r} give different terms: {m.terms} / {ref.terms}", True
        try:
            both = model_description(f"y ~ {spellings[0]} + {v}")
        except Exception:
            continue
        if len(both.terms) != len(ref.terms):
            return f"{spellings[0]!r} + {v!r} has {len(both.terms)} terms, {spellings[0]!r} alone {len(ref.terms)} (one sentence, two terms)", True
    return None, True


def run(report, findings):
    from ..contracts import parser_c, scanner_c, resolver_c, algebra_c, variable_c   # noqa: F401
    tier = report.tier
    # ---- proof tier: every scanner and parser function against the grammar contract
    checklib.run_proofs(report, "C01", [("vf.contracts.scanner_c", scanner_c.FUNCTIONS), ("vf.contracts.parser_c", parser_c.FUNCTIONS),
                                        # property lemma: the scanner's guarantee is the parser's precondition (the two contracts compose)
                                        ("vf.contracts.lemmas_c", ["vf.proplemmas.c01.scan_then_parse"]),
                                        # redundant parentheses: both tree walkers return for a Grouping what they return for its content
                                        ("vf.contracts.resolver_c", ["formulae.terms.call_resolver.CallResolver.visitGroupingExpr"]),
                                        ("vf.contracts.algebra_c", ["formulae.resolver.Resolver.visitGroupingExpr"]),
                                        # ... and parentheses that are NOT redundant make a different call: identity is the lazy call tree
                                        ("vf.contracts.variable_c", ["formulae.terms.call.Call.__eq__", "formulae.terms.call.Call.__hash__"])])
    # ---- bounded tier: exhaustive strings over the token alphabet
    n_max = 4 if tier == "quick" else 5
    tasks = []
    for n in range(1, n_max + 1):
        if n <= 2:
            tasks.append(((), n))
        else:
            for p in itertools.product(ALPHABET, repeat=min(2, n - 1) if n < 5 else 2):
                tasks.append((p, n))
    res = par.pmap(_chunk, tasks)
    evals = sum(r[0] for r in res)
    acc = sum(r[1] for r in res)
    for r in res:
        for s, err in r[2][:2]:
            report.violation(f"formula {s!r}: {err}", {"formula": s, "error": err})
    check_string, strip, unparse = _oracle()
    rejected_ok = 0
    for s in MUST_REJECT:
        ok, err = check_string(s)
        evals += 1
        if ok:
            report.violation(f"non-sentence {s!r} accepted", {"formula": s, "error": "must be rejected"})
        else:
            rejected_ok += 1
    rng = random.Random(common.seed())
    sent = _random_sentences(rng, 3000 if tier == "quick" else 30000)
    n_sent_acc = 0
    for s in sent:
        ok, err = check_string(s)
        evals += 1
        n_sent_acc += ok
        if ok and err:
            report.violation(f"formula {s!r}: {err}", {"formula": s, "error": err})
    n_groups = n_groups_judged = 0
    shown = 0
    for sp in _paren_variants(rng, 1500 if tier == "quick" else 15000):
        err, judged = _same_model(sp)
        n_groups += 1
        n_groups_judged += judged
        evals += len(sp)
        if err and shown < 5:
            shown += 1
            report.violation(f"redundant parentheses change the model: {err}", {"spellings": sp, "error": err})
    # blanks that separate tokens are not redundant: a sentence and the non-sentence (or other sentence) it becomes when such a blank is
    # inserted or removed are told apart by model_description in whichever order they arrive
    from formulae import model_description
    GLUE = [("ab + c", "a b + c", None), ("y ~ x1 + z", "y ~ x 1 + z", None), ("(p + q + r) ** 2", "(p + q + r) * * 2", None),
            ("h(d <= e)", "h(d < = e)", None), ("y ~ `u v` + w", "y ~ `uv` + w", "names"), ("g(k, 'm n')", "g(k, 'mn')", "names"),
            ("y ~ `st`", "y ~ ` st`", "names"), ("f(x, 10)", "f(x, 1 0)", None), ("y ~ a:b", "y ~ a: :b", None)]
    for first, second, kind in GLUE:
        for one, two in ((first, second), (second, first)):
            evals += 2
            outs = []
            for s_ in (one, two):
                try:
                    outs.append([t.name for t in model_description(s_).terms])
                except Exception:          # noqa: BLE001
                    outs.append(None)
            if kind is None and outs[[one, two].index(second)] is not None:
                report.violation(f"non-sentence {second!r} accepted (evaluated {'after' if two == second else 'before'} {first!r})",
                                 {"formula": second, "after": first, "error": "must be rejected"})
            elif kind == "names" and (outs[0] is None or outs[1] is None or outs[0] == outs[1]):
                report.violation(f"{one!r} then {two!r}: different names inside quotes must give different terms, got {outs}",
                                 {"formulas": [one, two], "error": str(outs)})
    report.coverage.update({
        "paren_groups": {"groups": n_groups, "judged": n_groups_judged,
                         "rule": "6 spellings of one chain (plain, fully parenthesised by own precedence climbing, atoms wrapped, doubly wrapped, "
                                 "dense, padded), inside call arguments and at the top level: equal terms (== and hash), union of two "
                                 "spellings has no extra term"},
        "checker_cmd": "./check C01",
        "trusted_base": checklib.PY_ASSUMPTIONS + [
            "spec-level lemma (not mechanised): a tree that is stratified and covers a token sequence is the unique "
            "fully parenthesised reading of that sequence; corroborated by re-parsing the fully parenthesised unparse "
            "of every accepted enumerated string",
            "scanner: the claim 'every non-blank character lies in exactly one token' is the composition of the proved contracts of "
            "scan (calls scan_token with start == current while current < len) and scan_token (consumes >= 1 character; one token "
            "spelling exactly the consumed span, or one blank and no token) - the composition itself is an argument, not an obligation",
            "Parser.check/match/consume and utils.listify are inlined into each caller rather than given contracts",
            "termination of the mutually recursive nonterminals is not proved (loop variants only)"],
        "bounded": {"enumerator": f"all strings over {len(ALPHABET)} lexemes up to length {n_max}, single-blank, dense "
                                  "and padded spellings; grammar-generated random sentences; must-reject list",
                    "evaluations": evals, "accepted": acc + n_sent_acc, "must_reject_ok": rejected_ok,
                    "exhaustive": True},
        "evaluations": evals,
        "distinct_nontrivial": acc + n_sent_acc,
        "rule": "distinct strings; non-trivial = accepted by scanner+parser, so the full contract "
                "(covers/size/strat, re-parse of the fully parenthesised form, whitespace variants) was evaluated",
    })
    report.assumptions = list(dict.fromkeys(list(report.assumptions) + report.coverage["trusted_base"]))

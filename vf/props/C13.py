"""C13 - contrast codings are valid, honour their options, and are interchangeable."""
import itertools

import numpy as np
import pandas as pd

from .. import common, checklib
from ..rtc.gen import rank, same_span

LEVEL = "proof"


def direct_checks(nmax):
    from formulae.categorical import Treatment, Sum
    out = []
    for n in range(1, nmax + 1):
        levels = [f"L{i:02d}" for i in range(n)]
        one = np.ones((n, 1))
        for r in [None] + list(range(n)):
            ref = None if r is None else levels[r]
            ri = 0 if r is None else r
            tag = f"Treatment(reference={ref!r}), n={n}"
            try:
                red = Treatment(ref).code_without_intercept(list(levels))
                full = Treatment(ref).code_with_intercept(list(levels))
                M = np.asarray(red.matrix, dtype=float)
                err = None
                if M.shape != (n, n - 1) or len(red.labels) != n - 1:
                    err = f"reduced matrix has shape {M.shape} and {len(red.labels)} labels"
                elif rank(np.column_stack([one, M])) != n:
                    err = "reduced matrix does not have full rank together with the constant"
                elif M[ri].any():
                    err = "the reference row is not zero"
                else:
                    others = [l for l in levels if l != levels[ri]]
                    if list(red.labels) != others:
                        err = f"labels {red.labels} do not name the non-reference levels {others}"
                    for j, l in enumerate(others):
                        want = np.array([1.0 if x == l else 0.0 for x in levels])
                        if not np.array_equal(M[:, j], want):
                            err = f"column {j} ({l}) is not the indicator of its level"
                F = np.asarray(full.matrix, dtype=float)
                if err is None and (F.shape != (n, n) or rank(F) != n or list(full.labels) != levels or not np.array_equal(F, np.eye(n))):
                    err = "full matrix is not the complete set of level indicators in level order"
            except Exception as ex:
                err = f"raised {type(ex).__name__}: {ex}"
            out.append((tag, err or "ok"))
            tag = f"Sum(omit={ref!r}), n={n}"
            oi = n - 1 if r is None else r
            try:
                red = Sum(ref).code_without_intercept(list(levels))
                full = Sum(ref).code_with_intercept(list(levels))
                M = np.asarray(red.matrix, dtype=float)
                err = None
                if M.shape != (n, n - 1) or len(red.labels) != n - 1:
                    err = f"reduced matrix has shape {M.shape} and {len(red.labels)} labels"
                elif rank(np.column_stack([one, M])) != n:
                    err = "reduced matrix does not have full rank together with the constant"
                elif n > 1 and not np.all(M.sum(axis=0) == 0):
                    err = "sum columns do not add up to zero over the levels"
                elif n > 1 and not np.all(M[oi] == -1):
                    err = "the omitted level is not coded -1"
                else:
                    others = [l for l in levels if l != levels[oi]]
                    if list(red.labels) != others:
                        err = f"labels {red.labels} do not name the non-omitted levels {others}"
                    for j, l in enumerate(others):
                        want = np.array([1.0 if x == l else (-1.0 if x == levels[oi] else 0.0) for x in levels])
                        if not np.array_equal(M[:, j], want):
                            err = f"column {j} ({l}) is not +1 on its level, -1 on the omitted level, 0 elsewhere"
                F = np.asarray(full.matrix, dtype=float)
                if err is None and (F.shape != (n, n) or rank(F) != n or len(full.labels) != n):
                    err = "full matrix does not span all level indicators"
            except Exception as ex:
                err = f"raised {type(ex).__name__}: {ex}"
            out.append((tag, err or "ok"))
    return out


def frame(seed, n=30):
    rng = np.random.default_rng(seed)
    from ..rtc.gen import _cover
    d = pd.DataFrame({"y": rng.normal(size=n), "x": rng.normal(size=n) + 2, "f": _cover(rng, ["a", "b", "c", "d"], n),
                      "g": _cover(rng, ["u", "v"], n), "k": _cover(rng, [3, 1, 2, 10], n)})
    d["z"] = rng.uniform(1, 4, size=n)
    d["c1"] = pd.Categorical(d["f"], categories=["c", "a", "d", "b"])
    d["o"] = pd.Categorical(d["f"], categories=["d", "b", "a", "c"], ordered=True)
    return d


def option_checks(d, max_perm_levels):
    """C, T, S honour contrast / reference / levels; first level is the default reference."""
    from formulae import design_matrices
    out = []
    lvset = {"f": ["a", "b", "c", "d"], "c1": ["a", "b", "c", "d"], "o": ["a", "b", "c", "d"], "k": [1, 2, 3, 10]}
    natural = {"f": ["a", "b", "c", "d"], "c1": ["a", "b", "c", "d"], "o": ["d", "b", "a", "c"], "k": [1, 2, 3, 10]}

    def cols(formula, ns):
        lv = ns.get("lv")   # noqa: F841
        r = ns.get("r")     # noqa: F841
        dm = design_matrices(formula, d)
        t = list(dm.common.terms.values())[-1]
        return list(t.labels), np.asarray(dm.common[t.name], dtype=float)

    for var in ("f", "c1", "o", "k"):
        perms = list(itertools.permutations(lvset[var]))
        if max_perm_levels < 4:
            perms = perms[:: max(1, len(perms) // 8)]
        for oi, order in enumerate([None] + perms):
            # (a declared order is a sequence: lists and tuples alike - every other permutation is handed over as a tuple)
            lv = None if order is None else (list(order) if oi % 2 else tuple(order))
            eff = natural[var] if lv is None else list(lv)
            vals = d[var].astype(object).values
            for spelling, kind, ref_i in (("C({v}{L})", "T", 0), ("T({v}{L})", "T", 0), ("S({v}{L})", "S", len(eff) - 1),
                                          ("C({v}, Sum{L})", "S", len(eff) - 1), ("C({v}, Treatment{L})", "T", 0),
                                          ("T({v}, r{L})", "T", 2), ("S({v}, r{L})", "S", 0), ("S({v}, r{L})", "S", 1),
                                          ("C({v}, Treatment(r){L})", "T", 1), ("C({v}, Sum(r){L})", "S", 0)):
                L = "" if lv is None else ", levels=lv"
                call = spelling.format(v=var, L=L)
                ns = {"lv": lv, "r": eff[ref_i]}
                f = f"y ~ {call}"
                tag = f"{f} with levels={lv} r={eff[ref_i]!r}"
                try:
                    labels, M = cols(f, ns)
                    others = [l for l in eff if l != eff[ref_i]]
                    err = None
                    if labels != [f"{call}[{l}]" for l in others]:
                        err = f"labels {labels} != levels in requested order without {eff[ref_i]!r}"
                    else:
                        for j, l in enumerate(others):
                            if kind == "T":
                                want = np.array([1.0 if v == l else 0.0 for v in vals])
                            else:
                                want = np.array([1.0 if v == l else (-1.0 if v == eff[ref_i] else 0.0) for v in vals])
                            if not np.array_equal(M[:, j], want):
                                err = f"column {labels[j]} does not follow the {('treatment' if kind == 'T' else 'sum')} pattern"
                                break
                except Exception as ex:
                    err = f"raised {type(ex).__name__}: {ex}"
                out.append((tag, err or "ok"))
    # the encodings are the library's, whatever the calling scope binds to their names
    from formulae.categorical import Treatment as _Tr, Sum as _Su
    shadow = {"Sum": _Tr, "Treatment": _Su, "T": 21.5, "S": None, "C": len}
    for fm in ("y ~ C(f, Sum('b'))", "y ~ C(f, Treatment('c'))", "y ~ T(f, 'b')", "y ~ S(f, 'a')", "y ~ 0 + C(f, Sum)"):
        try:
            A = np.asarray(design_matrices(fm, d, extra_namespace=dict(shadow)).common.design_matrix)
            B = np.asarray(design_matrices(fm, d).common.design_matrix)
            out.append((fm + " with user objects named like the encodings", "ok" if np.array_equal(A, B) else "a user object replaced the built-in encoding"))
        except Exception as ex:
            out.append((fm + " with user objects named like the encodings", f"raised {type(ex).__name__}: {ex}"))
    # alias equivalences
    for a, b in (("T(f, 'b')", "C(f, Treatment('b'))"), ("S(f, 'a')", "C(f, Sum('a'))"), ("T(f)", "C(f, Treatment)"), ("S(f)", "C(f, Sum)")):
        try:
            A = np.asarray(design_matrices(f"y ~ {a}", d).common.design_matrix)
            B = np.asarray(design_matrices(f"y ~ {b}", d).common.design_matrix)
            out.append((f"{a} == {b}", "ok" if np.array_equal(A, B) else "aliases give different matrices"))
        except Exception as ex:
            out.append((f"{a} == {b}", f"raised {type(ex).__name__}: {ex}"))
    return out


def swap_checks(d):
    from formulae import design_matrices
    out = []
    codings = ["f", "C(f)", "T(f, 'b')", "S(f)", "C(f, Sum)", "C(f, Treatment('c'))", "S(f, 'a')", "C(c1)", "C(o)"]
    templates = ["y ~ {A}", "y ~ 0 + {A}", "y ~ {A} + x", "y ~ {A}:x", "y ~ x + {A}:x", "y ~ {A} + g", "y ~ {A}*x",
                 # a factor interacting with two numeric variables whose product is / is not a term of its own
                 "y ~ x + z + x:z:{A}", "y ~ x + z + {A}:x:z", "y ~ x + z + x:z + x:z:{A}", "y ~ x:z + {A}:x:z"]
    for t in templates:
        try:
            base = np.asarray(design_matrices(t.format(A="f"), d).common.design_matrix, dtype=float).reshape(len(d), -1)
        except Exception as ex:
            continue
        for c in codings[1:]:
            f = t.format(A=c)
            try:
                X = np.asarray(design_matrices(f, d).common.design_matrix, dtype=float).reshape(len(d), -1)
                err = None if same_span(X, base) else "column space differs from the plain-factor design"
                if err is None and rank(X) != X.shape[1]:
                    err = "columns are linearly dependent"
            except Exception as ex:
                err = f"raised {type(ex).__name__}: {ex}"
            out.append((f"{f} vs {t.format(A='f')}", err or "ok"))
    return out


def PROOFS():
    from ..contracts import categorical_c
    return [("vf.contracts.categorical_c", categorical_c.FUNCTIONS)]


def run(report, findings):
    checklib.run_proofs(report, "C13", PROOFS())
    import logging
    import warnings
    logging.getLogger("formulae").setLevel(logging.CRITICAL)
    warnings.simplefilter("ignore")
    d = frame(common.seed())
    res = direct_checks(12) + option_checks(d, 4 if report.tier == "thorough" else 3) + swap_checks(d)
    evals = ok = bad = 0
    for tag, sig in res:
        evals += 1
        if sig == "ok":
            ok += 1
            continue
        bad += 1
        if bad <= 10:
            report.violation(f"{tag}: {sig}", {"case": tag, "error": sig})
    report.coverage.update({
        "evaluations": evals, "distinct_nontrivial": ok, "exhaustive": True,
        "rule": "level counts 1..12 x every reference / omit choice (exhaustive, direct calls), C/T/S spellings x level permutations on "
                "str / int / unordered / ordered categorical data, coding swaps in 7 formula templates; non-trivial = all algebraic checks hold",
        "samples": [r[0] for r in res[:2]] + [r[0] for r in res[400:402]] + [r[0] for r in res[-2:]]})
    report.assumptions = list(dict.fromkeys(list(report.assumptions) + ["rank and column space are numeric"]))

"""C06 - evaluating new data reproduces the training encoding."""
import random

import numpy as np
import pandas as pd

from .. import common, checklib
from ..rtc import par

LEVEL = "exploration"

FORMULAS = [
    "y ~ x", "y ~ center(x)", "y ~ scale(x)", "y ~ standardize(x) + z", "y ~ center(d0)", "y ~ f * center(d0)",
    "y ~ center(center(x))", "y ~ scale(center(x) + z)", "y ~ center(x - 12.5) + z", "y ~ bs(x, df=5)",
    "y ~ bs(x, df=4, intercept=True)", "y ~ bs(z, knots=knots)", "y ~ poly(x, 3)", "y ~ poly(x, 2, raw=True)",
    "y ~ poly(x, 2) + poly(z, 3)", "y ~ f:poly(x, 2)", "y ~ bs(center(x), df=4)", "y ~ np.log(z) + np.exp(w)",
    "y ~ f", "y ~ 0 + f", "y ~ f + g", "y ~ f:g", "y ~ f*x", "y ~ c1", "y ~ 0 + c1 + x", "y ~ c1:f", "y ~ o", "y ~ o:x + f",
    "y ~ C(k)", "y ~ C(k, Sum)", "y ~ T(f, 'b')", "y ~ S(f)", "y ~ S(f, 'a') + x", "y ~ C(f, Treatment('c'))",
    "y ~ C(c1)", "y ~ scale(x):f", "y ~ center(x):scale(z)", "y ~ I(x + z)", "y ~ {x * 2} + f",
    "y ~ x + (1|g)", "y ~ x + (x|g)", "y ~ (center(x)|g)", "y ~ (0 + f|g)", "y ~ (f|g)", "y ~ (x|g:h)", "y ~ (1|c1)",
    "y ~ (scale(z)|g) + (1|h)", "y ~ (poly(x, 2)|g)", "y ~ (x|C(k))", "y ~ (center(d0)|g)", "y ~ f + (c1|h)",
    "y ~ offset(z) + x", "y ~ offset(3) + x",
    # one factor in several terms that are coded differently (term x sum products)
    "y ~ 0 + f*(x + z)", "y ~ f*(x + z)", "y ~ 0 + f*(g + x)", "y ~ f*(g + x)", "y ~ 0 + (g + x)*f", "y ~ 0 + f/(x + z)", "y ~ 0 + f + f:x + f:z",
    "y ~ 0 + C(k)*(x + f)", "y ~ 0 + g + f:(x + g)",
    # interactions of three and four factors with unequal numbers of columns: the order in which the factors' new data are folded
    "y ~ 0 + f:g:x", "y ~ 0 + g:f:x", "y ~ f*g*x", "y ~ 0 + f:g:c1", "y ~ 0 + f:g:x:z", "y ~ (0 + f:x|g)",
    # one effect expression distributed over two grouping factors, coded differently for each (reduced next to (1|g), full for h)
    # integer columns of a narrow dtype whose product does not fit it, and 64-bit integers no double represents: new data are computed
    # exactly as the training data were
    "y ~ 0 + i8a:i8b", "y ~ 0 + i8a + i8b + i8a:i8b", "y ~ 0 + big + i8a",
    # grouping factors with empty cells: combinations that do not occur, an ordered categorical with an unused category
    "y ~ (1|ga:hb)", "y ~ x + (x|ga:hb)", "y ~ (0 + x|ga:hb) + (1|ga)", "y ~ (1|o4)", "y ~ x + (x|o4)",
    "y ~ (0 + f|g + h) + (1|g)", "y ~ (1|g) + (0 + f|g + h)", "y ~ x + (0 + f:x|g + h) + (1|h)", "y ~ (f|g + h)",
    # known findings on the pinned tree (recorded, not hidden):
    "y ~ B(s)", "y ~ binary(s, 'yes') + x", "y ~ C(k, levels=lv)", "y ~ C(o)", "y ~ B(k2)",
]


def frame(seed, n=30):
    rng = np.random.default_rng(seed)
    from ..rtc.gen import _cover
    d = pd.DataFrame({
        "y": rng.normal(size=n), "x": np.round(rng.normal(size=n) * 3 + 12, 3), "z": np.round(rng.uniform(1, 9, size=n), 3),
        "w": rng.normal(size=n), "f": _cover(rng, ["a", "b", "c"], n), "g": _cover(rng, ["u", "v", "w", "t"], n),
        "h": _cover(rng, ["p", "q"], n), "k": _cover(rng, [5, 10, 25, 100], n), "s": _cover(rng, ["yes", "no"], n),
        "k2": _cover(rng, [1, 2, 3], n),
    })
    half = np.arange(n // 2) + 0.5
    d["d0"] = np.concatenate([half, -half])           # symmetric: mean exactly 0.0
    d["c1"] = pd.Categorical(_cover(rng, ["zeta", "alpha", "mid"], n), categories=["zeta", "alpha", "mid", "unused"])
    d["o"] = pd.Categorical(_cover(rng, ["lo", "mid", "hi"], n), categories=["lo", "mid", "hi"], ordered=True)
    d["i8a"] = rng.integers(20, 120, size=n).astype(np.int8)
    d["i8b"] = rng.integers(5, 100, size=n).astype(np.int8)
    d["big"] = (2 ** 53 + 1 + 2 * rng.integers(0, 1000, size=n)).astype(np.int64)
    d["ga"] = _cover(rng, ["u", "v", "w"], n)
    d["hb"] = [{"u": "p", "w": "q"}.get(a, b) for a, b in zip(d["ga"], _cover(rng, ["p", "q"], n))]     # u:q and w:p never occur
    d["o4"] = pd.Categorical(_cover(rng, ["l", "m", "h"], n), categories=["l", "m", "h", "xl"], ordered=True)
    return d


def selections(rng, d):
    n = len(d)
    sels = [np.arange(n), np.arange(n)[::-1], np.array([0]), np.array([n - 1]), np.array([3, 3, 3]),
            rng.permutation(n)[: n // 3], rng.integers(0, n, size=2 * n), np.arange(n // 2), np.arange(n // 2, n)]
    # subsets in which levels are missing
    for col, lev in (("f", "a"), ("g", "u"), ("c1", "zeta"), ("o", "hi"), ("k", 5), ("s", "yes")):
        sels.append(np.where(d[col].astype(object) != lev)[0][:7])
    return sels


def known_class(formula, sig):
    """Known findings of the pinned tree (class predicate on the input + failure signature)."""
    if ("B(" in formula or "binary(" in formula):
        return "C06-binary-reestimated"
    if ("levels=" in formula or "C(o)" in formula) and sig.startswith("raise:ValueError@levels"):
        return "C06-declared-levels-revalidated"
    return None


def _chunk(task):
    import logging
    import warnings
    forms, seed = task
    logging.getLogger("formulae").setLevel(logging.CRITICAL)
    warnings.simplefilter("ignore")
    from formulae import design_matrices
    from ..rtc.designs import failure_signature
    d = frame(seed)
    rng = np.random.default_rng(seed + 1)
    knots = [3.0, 5.5]   # noqa: F841
    lv = [100, 5, 25, 10]  # noqa: F841
    out = []
    for f in forms:
        try:
            dm = design_matrices(f, d)
        except Exception as ex:
            out.append((f, None, "build:" + failure_signature(ex)))
            continue
        for si, sel in enumerate(selections(rng, d)):
            new = d.iloc[sel].reset_index(drop=True)
            for part in ("common", "group"):
                m = getattr(dm, part)
                if m is None:
                    continue
                train = np.asarray(m.design_matrix, dtype=float)
                try:
                    got = np.asarray(m.evaluate_new_data(new).design_matrix, dtype=float)
                except Exception as ex:
                    out.append((f, si, f"raise:{failure_signature(ex)} ({part}, rows {sel[:8].tolist()})"))
                    continue
                want = train[sel]
                if got.shape != want.shape:
                    out.append((f, si, f"shape: {part} {got.shape} != rows of the training matrix {want.shape} (rows {sel[:8].tolist()})"))
                elif not np.allclose(got, want, rtol=0, atol=1e-9, equal_nan=True):
                    out.append((f, si, f"values: {part} matrix on rows {sel[:8].tolist()} differs from the training rows "
                                       f"(max abs diff {np.nanmax(np.abs(got - want)):.3g})"))
                else:
                    out.append((f, si, "ok"))
    return out


def PROOFS():
    from ..contracts import call_resolver_c, transforms_c, variable_c, matrices_c, terms_c, utils_c, call_newdata_c, offset_c   # noqa: F401
    T = "formulae.transforms."
    return [("vf.contracts.call_resolver_c", ["formulae.terms.call_resolver.LazyCall.eval"]),
            # categorical call terms at prediction: the remembered levels and contrast rows, applied to the call's value on the new frame
            ("vf.contracts.call_newdata_c", call_newdata_c.FUNCTIONS),
            # a constant offset at prediction: re-broadcast over the rows of the NEW frame
            ("vf.contracts.offset_c", ["formulae.terms.call.Call.eval_new_data_offset", "formulae.terms.call.Call.eval_new_data#offset"]),
            # the containers: new data are evaluated term by term with the remembered terms, into a new object with the same slices
            ("vf.contracts.matrices_c", ["formulae.matrices.CommonEffectsMatrix.evaluate_new_data", "formulae.matrices.GroupEffectsMatrix.evaluate_new_data"]),
            ("vf.contracts.terms_c", ["formulae.terms.terms.GroupSpecificTerm.eval_new_data"]), ("vf.contracts.utils_c", utils_c.FUNCTIONS),
            ("vf.contracts.transforms_c", [T + "Center.__call__", T + "Scale.__call__", T + "BSpline.__call__", T + "BSpline._initialize", T + "BSpline.eval",
                                           T + "Polynomial.__init__"]),
            ("vf.contracts.variable_c", [f for f in variable_c.FUNCTIONS if f.endswith("eval_new_data_categoric")] +
             ["formulae.terms.variable.Variable.eval_categoric", "formulae.terms.call.Call.eval_categoric",
              "formulae.terms.variable.Variable.eval_new_data_numeric", "formulae.terms.variable.Variable.eval_new_data"]),
            # property lemmas: a transform / a categorical factor fitted on a frame maps any selection of its rows to the training rows
            ("vf.contracts.lemmas_c", ["vf.proplemmas.c06.center_rows", "vf.proplemmas.c06.scale_rows", "vf.proplemmas.c06.categoric_rows", "vf.proplemmas.c06.bspline_rows"])]


def run(report, findings):
    checklib.run_proofs(report, "C06", PROOFS())
    fk = {f["id"] for f in findings if f.get("kind") == "finding"}
    seeds = [common.seed()] if report.tier == "quick" else [common.seed() + i for i in range(6)]
    evals = ok = bad = 0
    for sd in seeds:
        res = par.pmap(_chunk, [(FORMULAS[i::16], sd) for i in range(16)])
        for r in res:
            for f, si, sig in r:
                evals += 1
                if sig == "ok":
                    ok += 1
                    continue
                kc = known_class(f, sig)
                if kc and kc in fk:
                    report.known_hits[kc] = report.known_hits.get(kc, 0) + 1
                    continue
                bad += 1
                if bad <= 10:
                    report.violation(f"formula {f!r}: {sig}", {"formula": f, "signature": sig, "frame": f"vf.props.C06.frame({sd})", "selection": si})
    report.coverage.update({
        "evaluations": evals, "distinct_nontrivial": ok,
        "rule": f"distinct (formula, row selection, matrix): {len(FORMULAS)} formulas x 15 row multisets (identity, reversal, single rows, "
                "repetitions, random subsets, over-sized multisets, level-dropping subsets) x {common, group}; non-trivial = the "
                "new-data matrix was produced and compared entry-wise with the training rows",
        "samples": FORMULAS[:3] + FORMULAS[20:23] + FORMULAS[-8:-5], "new_failures": bad})
    report.assumptions = list(dict.fromkeys(list(report.assumptions) + ["entry-wise comparison with absolute tolerance 1e-9 (floating point)"]))

"""C10 - unseen levels and new groups at prediction follow the configured policy."""
import itertools
import warnings

import numpy as np
import pandas as pd

from .. import common, checklib
from ..rtc import par

LEVEL = "proof"

# (formula, variable that receives unseen levels, replacement level that was seen)
CASES = [
    ("y ~ f", "f"), ("y ~ 0 + f", "f"), ("y ~ f + x", "f"), ("y ~ f:x", "f"), ("y ~ x:f + z", "f"), ("y ~ f*g", "f"), ("y ~ f*g", "g"),
    ("y ~ f:g", "g"), ("y ~ C(f) + x", "f"), ("y ~ S(f) + x", "f"), ("y ~ T(f, 'b') + x", "f"), ("y ~ x:S(f)", "f"),
    ("y ~ C(f, Sum)", "f"), ("y ~ 0 + C(f)", "f"), ("y ~ h:S(f)", "f"), ("y ~ o + x", "o"), ("y ~ c1", "c1"),
    ("y ~ x + (1|g)", "g"), ("y ~ x + (x|g)", "g"), ("y ~ (0 + f|g)", "g"), ("y ~ (f|g)", "g"), ("y ~ (f|g)", "f"),
    ("y ~ (x|g) + (1|h)", "g"), ("y ~ (x|g) + (1|h)", "h"), ("y ~ (1 + x|g) + (1 + x|h)", "g"), ("y ~ (1|h) + (x|g)", "g"),
    ("y ~ (x|g:h)", "g"), ("y ~ (x|g:h)", "h"), ("y ~ (1|g) + (z|g) + (1|h)", "g"), ("y ~ (x|C(f))", "f"), ("y ~ (S(f)|g)", "f"),
    ("y ~ (scale(x)|g) + f", "g"), ("y ~ (0 + x + z|g)", "g"),
]
MODES = ["error", "warning", "silent"]


def frame(seed, n=24):
    rng = np.random.default_rng(seed)
    from ..rtc.gen import _cover
    d = pd.DataFrame({"y": rng.normal(size=n), "x": rng.normal(size=n) + 3, "z": rng.uniform(1, 9, size=n),
                      "f": _cover(rng, ["a", "b", "c"], n), "g": _cover(rng, ["u", "v", "w"], n), "h": _cover(rng, ["p", "q"], n)})
    d["c1"] = _cover(rng, ["zeta", "alpha", "mid"], n)
    d["o"] = pd.Categorical(_cover(rng, ["lo", "mid", "hi"], n), categories=["lo", "mid", "hi"], ordered=True)
    return d


def new_frames(d, var, rng):
    """(new frame with unseen values of var at rows U, the same frame with seen values there, U)."""
    out = []
    for U in ([1], [0, 3], [0, 1, 2, 3, 4, 5]):
        base = d.iloc[[2, 5, 7, 11, 13, 17]].reset_index(drop=True)
        seen = base.copy()
        new = base.copy()
        if var == "o":
            new["o"] = new["o"].astype(object)
            seen["o"] = seen["o"].astype(object)
        new[var] = new[var].astype(object)
        for i, r in enumerate(U):
            new.loc[r, var] = f"NEW{i % 2}"
        out.append((new, seen, U))
        if U == [1]:
            # an unseen value that only extends a seen level ('a' -> 'az'): unseen all the same
            near = base.copy()
            if var == "o":
                near["o"] = near["o"].astype(object)
            near[var] = near[var].astype(object)
            near.loc[1, var] = str(seen.loc[0, var]) + "z"
            out.append((near, seen, U))
        if U == [0, 3]:
            # the same new data stored as a pandas Categorical column (unordered, and ordered with permuted categories)
            for ordered in (False, True):
                nc, sc = new.copy(), seen.copy()
                cats_n = sorted(set(nc[var]), key=str, reverse=ordered)
                cats_s = sorted(set(sc[var]), key=str, reverse=ordered)
                nc[var] = pd.Categorical(nc[var], categories=cats_n, ordered=ordered)
                sc[var] = pd.Categorical(sc[var], categories=cats_s, ordered=ordered)
                out.append((nc, sc, U))
    return out


def involves(term, var):
    return var in term.var_names


def check_case(f, var, d, rng):
    import formulae
    from formulae import design_matrices
    res = []
    try:
        dm = design_matrices(f, d)
    except Exception:
        return []          # no design (a C03 finding class): nothing for C10 to judge
    for new, seen, U in new_frames(d, var, rng):
        # the same frame object under every mode, and again under the stricter modes after the silent one (the policy is applied at
        # every evaluation, whatever was evaluated before)
        for mode in MODES + ["error", "warning"]:
            formulae.config["EVAL_UNSEEN_CATEGORIES"] = mode
            for part in ("common", "group"):
                m = getattr(dm, part)
                if m is None:
                    continue
                touched = [n for n, t in m.terms.items() if involves(t, var)]
                with warnings.catch_warnings(record=True) as w:
                    warnings.simplefilter("always")
                    try:
                        got = m.evaluate_new_data(new)
                        raised = None
                    except Exception as ex:
                        got, raised = None, ex
                warned = any("not present in the" in str(x.message) for x in w)
                tag = f"{part}, unseen {var} at rows {U}, mode {mode}"
                if not touched:
                    # the variable does not occur in this matrix: nothing may change
                    if raised is not None:
                        res.append((f, tag, f"raised {type(raised).__name__} although {var} is not used by the {part} matrix"))
                    continue
                if mode == "error":
                    res.append((f, tag, "ok" if isinstance(raised, ValueError) else f"expected ValueError, got {raised!r}"))
                    continue
                if raised is not None:
                    res.append((f, tag, f"raised {type(raised).__name__}: {raised}"))
                    continue
                if warned != (mode == "warning"):
                    res.append((f, tag, f"warned={warned} in mode {mode}"))
                    continue
                # straight afterwards, the same frame object in 'error' mode
                formulae.config["EVAL_UNSEEN_CATEGORIES"] = "error"
                try:
                    m.evaluate_new_data(new)
                    res.append((f, tag, "the same frame evaluated again in 'error' mode did not raise"))
                    continue
                except ValueError:
                    pass
                except Exception as ex:
                    res.append((f, tag, f"the same frame evaluated again in 'error' mode raised {type(ex).__name__}"))
                    continue
                formulae.config["EVAL_UNSEEN_CATEGORIES"] = "error"
                ref = m.evaluate_new_data(seen)
                formulae.config["EVAL_UNSEEN_CATEGORIES"] = mode
                R = np.asarray(ref.design_matrix, dtype=float).reshape(len(seen), -1)
                G = np.asarray(got.design_matrix, dtype=float).reshape(len(new), -1)
                err = None
                start = 0
                fnl = []
                for name, term in m.terms.items():
                    sl = ref.slices[name]
                    blockR = R[:, sl]
                    if part == "common" or var not in term.factor.var_names:
                        want = blockR.copy()
                        if name in touched:
                            want[U] = 0
                    else:
                        Gn = len(term.groups)
                        p = blockR.shape[1] // Gn
                        Jrows = np.abs(blockR).reshape(len(seen), Gn, p)
                        eff = np.zeros((len(seen), p))
                        # effect values of each row: the row's own slot in the reference (seen) evaluation
                        for r in range(len(seen)):
                            gi = int(np.argmax(np.abs(Jrows[r]).sum(axis=1)))
                            eff[r] = blockR[r, gi * p:(gi + 1) * p]
                        if var in getattr(term.expr, "var_names", set()):
                            err = err or "case not judged"
                        want = blockR.copy()
                        want[U] = 0
                        extra = np.zeros((len(seen), p))
                        extra[U] = eff[U]
                        want = np.column_stack([want, extra])
                        if term.factor.name not in fnl:
                            fnl.append(term.factor.name)
                    gs = got.slices.get(name)
                    if gs is None or (gs.start, gs.stop) != (start, start + want.shape[1]):
                        err = err or f"slice of {name} is {gs}, expected [{start}, {start + want.shape[1]})"
                    elif not np.allclose(G[:, gs], want, atol=1e-9):
                        err = err or f"block of {name} differs from the policy (zero rows / appended group block)"
                    start += want.shape[1]
                if err is None and G.shape[1] != start:
                    err = f"matrix has {G.shape[1]} columns, slices cover {start}"
                if err is None and part == "group" and tuple(got.factors_with_new_levels) != tuple(fnl):
                    err = f"factors_with_new_levels={tuple(got.factors_with_new_levels)}, expected {tuple(fnl)}"
                if err is None and part == "group" and mode == "silent":
                    # the derived object evaluated again: on the same new frame (the same factors have new groups), and on the frame
                    # without unseen values (none has) - the comparison is with the training design, not with the object at hand
                    try:
                        again = tuple(got.evaluate_new_data(new).factors_with_new_levels)
                        back = tuple(got.evaluate_new_data(seen).factors_with_new_levels)
                        if again != tuple(fnl):
                            err = f"derived.evaluate_new_data(same new frame).factors_with_new_levels={again}, expected {tuple(fnl)}"
                        elif back != ():
                            err = f"derived.evaluate_new_data(frame without unseen groups).factors_with_new_levels={back}, expected ()"
                    except Exception as ex:
                        err = f"evaluating new data on a derived matrix raised {type(ex).__name__}: {ex}"
                if err != "case not judged":
                    res.append((f, tag, err or "ok"))
    formulae.config["EVAL_UNSEEN_CATEGORIES"] = "error"
    return res


def check_config():
    import formulae
    from formulae.config import Config
    res = []
    cfg = formulae.config
    for key, val in itertools.product(["EVAL_UNSEEN_CATEGORIES", "eval_unseen_categories", "OTHER", ""],
                                      ["error", "warning", "silent", "Error", "ignore", None, 1]):
        ok_expected = key == "EVAL_UNSEEN_CATEGORIES" and val in ("error", "warning", "silent")
        for how in ("item", "attr"):
            before = cfg["EVAL_UNSEEN_CATEGORIES"]
            try:
                if how == "item":
                    cfg[key] = val
                else:
                    setattr(cfg, key, val)
                accepted = True
            except (ValueError, KeyError):
                accepted = False
            except Exception as ex:
                res.append(("config", f"{how} {key!r}={val!r}", f"raised {type(ex).__name__}"))
                continue
            after = cfg["EVAL_UNSEEN_CATEGORIES"]
            if accepted != ok_expected:
                res.append(("config", f"{how} {key!r}={val!r}", f"accepted={accepted}, expected {ok_expected}"))
            elif accepted and after != val:
                res.append(("config", f"{how} {key!r}={val!r}", "accepted but the value was not stored"))
            elif not accepted and after != before:
                res.append(("config", f"{how} {key!r}={val!r}", "refused but the configuration changed"))
            else:
                res.append(("config", f"{how} {key!r}={val!r}", "ok"))
            cfg["EVAL_UNSEEN_CATEGORIES"] = "error"
    # the constructor takes the same documented values only
    for val in ("error", "warning", "silent", "quiet", "Error", None, 0, ""):
        try:
            c_ = Config({"EVAL_UNSEEN_CATEGORIES": val})
            okc = val in ("error", "warning", "silent") and c_["EVAL_UNSEEN_CATEGORIES"] == val
            res.append(("config", f"Config({{'EVAL_UNSEEN_CATEGORIES': {val!r}}})", "ok" if okc else "an undocumented value was accepted by the constructor"))
        except ValueError:
            res.append(("config", f"Config({{'EVAL_UNSEEN_CATEGORIES': {val!r}}})", "ok" if val not in ("error", "warning", "silent") else "a documented value was refused"))
        except Exception as ex:
            res.append(("config", f"Config({{'EVAL_UNSEEN_CATEGORIES': {val!r}}})", f"raised {type(ex).__name__}"))
    if Config()["EVAL_UNSEEN_CATEGORIES"] != "error":
        res.append(("config", "default", "default mode is not 'error'"))
    return res


def _chunk(task):
    import logging
    cases, seed = task
    logging.getLogger("formulae").setLevel(logging.CRITICAL)
    d = frame(seed)
    rng = np.random.default_rng(seed)
    out = []
    for f, var in cases:
        try:
            out += check_case(f, var, d, rng)
        except Exception as ex:
            import traceback
            out.append((f, f"unseen {var}", f"check crashed: {type(ex).__name__}: {ex} {traceback.format_exc()[-300:]}"))
    return out


def PROOFS():
    from ..contracts import config_c, variable_c, terms_c, matrices_c, call_newdata_c
    return [("vf.contracts.config_c", config_c.FUNCTIONS),
            # the dispatcher of call terms (C(f), T(f, ref), ...): the call is evaluated on the new frame, a CategoricalBox is unwrapped,
            # and the value always goes through the policy
            ("vf.contracts.call_newdata_c", [f for f in call_newdata_c.FUNCTIONS if ".Call." in f]), ("vf.contracts.variable_c", [f for f in variable_c.FUNCTIONS if f.endswith("eval_new_data_categoric")] +
             ["formulae.terms.variable.Variable.eval_new_data"]),        # the dispatcher: a categorical variable always goes through the policy
            ("vf.contracts.terms_c", ["formulae.terms.terms.GroupSpecificTerm.eval_new_data"]),
            ("vf.contracts.matrices_c", ["formulae.matrices.GroupEffectsMatrix.evaluate_new_data", "formulae.matrices.CommonEffectsMatrix.evaluate_new_data"]),
            ("vf.contracts.utils_c", ["formulae.utils.get_interaction_matrix"])]


def run(report, findings):
    checklib.run_proofs(report, "C10", PROOFS())
    seeds = [common.seed()] if report.tier == "quick" else [common.seed() + i for i in range(6)]
    evals = ok = bad = 0
    allres = check_config()
    for sd in seeds:
        for r in par.pmap(_chunk, [(CASES[i::16], sd) for i in range(16)]):
            allres += r
    for f, tag, sig in allres:
        evals += 1
        if sig == "ok":
            ok += 1
            continue
        bad += 1
        if bad <= 10:
            report.violation(f"formula {f!r}, {tag}: {sig}", {"formula": f, "case": tag, "error": sig})
    report.coverage.update({
        "evaluations": evals, "distinct_nontrivial": ok,
        "rule": "distinct (formula, variable with unseen values, placement, mode, matrix): 33 cases x 3 placements x 3 modes x {common, group} "
                "compared with a reference evaluation in which the unseen values are replaced by seen ones, + 56 configuration stores",
        "samples": [list(c) for c in CASES[:3]] + [list(CASES[19])]})
    report.assumptions = list(dict.fromkeys(list(report.assumptions) + ["the reference for 'what the other entries would be' is the same frame with a seen level substituted"]))

"""C11 - name resolution order and evaluation environment."""
import itertools
import types

import numpy as np
import pandas as pd

from .. import common, checklib

LEVEL = "proof"

SEEN = []


def rec(v):
    """Recording callee: remembers what it was given."""
    SEEN.append(v)
    return np.zeros(N)


def reck(x, k=None):
    SEEN.append(k)
    return np.zeros(N)


N = 6


def data_frame(with_col, name):
    d = pd.DataFrame({"y": np.arange(N, dtype=float), "x": np.arange(N, dtype=float) + 1})
    if with_col:
        d[name] = np.arange(N, dtype=float) + 500
    return d


def classify(v):
    if isinstance(v, pd.Series):
        return "data"
    if isinstance(v, type) or callable(v):
        return "builtin"
    if v is None:
        return "none-value"
    return {1001.0: "local", 1002.0: "global", 1003.0: "extra"}.get(v, f"?{v!r}")


def call_chain(depth_total, env, formula, d, extra, local_at, name, local_value):
    """design_matrices is called from the innermost of `depth_total`+1 nested callers with env=`env`;
    only the frame `env` levels above the innermost caller defines the local."""
    from formulae import design_matrices
    code = ["def f0(formula, d, extra, env, design_matrices):"]
    src = []
    for lvl in range(depth_total + 1):
        pad = "    " * (lvl + 1)
        src.append(f"{'    ' * lvl}def f{lvl}(formula, d, extra, env, design_matrices):")
        if lvl == local_at:
            src.append(f"{pad}{name} = {local_value!r}")
        else:
            src.append(f"{pad}_other{lvl} = 1")
        if lvl == depth_total:
            src.append(f"{pad}return design_matrices(formula, d, env=env, extra_namespace=extra)")
    # build as sibling functions calling each other (not nested closures, so locals stay separate)
    lines = []
    for lvl in range(depth_total + 1):
        lines.append(f"def f{lvl}(formula, d, extra, env, design_matrices):")
        if lvl == local_at:
            lines.append(f"    {name} = {local_value!r}")
        lines.append(f"    _pad{lvl} = 0")
        if lvl == depth_total:
            lines.append("    return design_matrices(formula, d, env=env, extra_namespace=extra)")
        else:
            lines.append(f"    return f{lvl + 1}(formula, d, extra, env, design_matrices)")
    g = globals()
    ns = {}
    exec("\n".join(lines), g, ns)     # functions share this module's globals
    for k, v in ns.items():
        g[k] = v
    try:
        return g["f0"](formula, d, extra, env, design_matrices)
    finally:
        for k in ns:
            g.pop(k, None)


def expected_arg(scopes, name_is_builtin):
    for s in ("data", "builtin", "local", "global", "extra"):
        if s == "builtin":
            if name_is_builtin:
                return "builtin"
            continue
        if s in scopes:
            return s
    return None


def run_arg_case(name, scopes, env, local_value=1001.0, builtin=False, backquoted=False, kw=False):
    g = globals()
    d = data_frame("data" in scopes, name)
    extra = {name: 1003.0} if "extra" in scopes else None
    had = name in g
    old = g.get(name)
    if "global" in scopes:
        g[name] = 1002.0
    elif had:
        del g[name]
    SEEN.clear()
    spelled = f"`{name}`" if backquoted else name
    depth_total = 3
    local_at = depth_total - env if "local" in scopes else None
    try:
        try:
            call_chain(depth_total, env, f"y ~ reck(x, k={spelled})" if kw else f"y ~ rec({spelled})", d, extra, local_at, name if name.isidentifier() else "_x", local_value)
            got = classify(SEEN[-1]) if SEEN else "not-called"
        except KeyError:
            got = None
        except Exception as ex:
            got = f"raise {type(ex).__name__}: {ex}"
    finally:
        if had:
            g[name] = old
        else:
            g.pop(name, None)
    return got


def run_callee_case(name, scopes, env, dotted=0):
    """Callee lookup: builtins, locals, globals, extra (never the data frame)."""
    g = globals()

    def mk(tag):
        fn = lambda v, _t=tag: np.asarray(v, dtype=float) * 0 + _t     # noqa: E731
        for _ in range(dotted):
            fn = types.SimpleNamespace(sub=fn) if _ else types.SimpleNamespace(fn=fn)
        return fn
    # dotted: name.fn(x) / name.sub.fn(x): build namespace chains
    def obj(tag):
        base = lambda v, _t=tag: np.asarray(v, dtype=float) * 0 + _t     # noqa: E731
        if dotted == 0:
            return base
        if dotted == 1:
            return types.SimpleNamespace(fn=base)
        return types.SimpleNamespace(sub=types.SimpleNamespace(fn=base))
    d = data_frame("data" in scopes, name)      # a data column of that name must be ignored for callees
    extra = {name: obj(1003.0)} if "extra" in scopes else None
    had = name in g
    old = g.get(name)
    if "global" in scopes:
        g[name] = obj(1002.0)
    elif had:
        del g[name]
    call = {0: f"{name}(x)", 1: f"{name}.fn(x)", 2: f"{name}.sub.fn(x)"}[dotted]
    depth_total = 3
    local_at = depth_total - env if "local" in scopes else None
    g["_LOCAL_OBJ"] = obj(1001.0)
    try:
        try:
            dm = call_chain_callee(depth_total, env, f"y ~ {call}", d, extra, local_at, name)
            col = np.asarray(dm.common.design_matrix)[:, -1]
            got = {1001.0: "local", 1002.0: "global", 1003.0: "extra"}.get(float(col[0]), "builtin")
        except KeyError:
            got = None
        except Exception as ex:
            got = f"raise {type(ex).__name__}: {ex}"
    finally:
        g.pop("_LOCAL_OBJ", None)
        if had:
            g[name] = old
        else:
            g.pop(name, None)
    return got


def call_chain_callee(depth_total, env, formula, d, extra, local_at, name):
    from formulae import design_matrices
    lines = []
    for lvl in range(depth_total + 1):
        lines.append(f"def f{lvl}(formula, d, extra, env, design_matrices):")
        if lvl == local_at:
            lines.append(f"    {name} = _LOCAL_OBJ")
        lines.append(f"    _pad{lvl} = 0")
        if lvl == depth_total:
            lines.append("    return design_matrices(formula, d, env=env, extra_namespace=extra)")
        else:
            lines.append(f"    return f{lvl + 1}(formula, d, extra, env, design_matrices)")
    g = globals()
    ns = {}
    exec("\n".join(lines), g, ns)
    for k, v in ns.items():
        g[k] = v
    try:
        return g["f0"](formula, d, extra, env, design_matrices)
    finally:
        for k in ns:
            g.pop(k, None)


def PROOFS():
    from ..contracts import environment_c, call_resolver_c, scanner_c   # noqa: F401
    R = "formulae.terms.call_resolver."
    return [("vf.contracts.environment_c", environment_c.FUNCTIONS),
            ("vf.contracts.call_resolver_c", [R + "LazyVariable.eval", R + "get_function_from_module",
                                              "formulae.environment.Environment.capture"]),
            # the name that is looked up is the name that was written (one token spelling exactly its span)
            ("vf.contracts.scanner_c", ["formulae.scanner.Scanner." + f for f in ("identifier", "add_token", "backquote")])]


def run(report, findings):
    checklib.run_proofs(report, "C11", PROOFS())
    import logging
    logging.getLogger("formulae").setLevel(logging.CRITICAL)
    evals = ok = bad = 0
    samples = []

    def note(what, got, want, detail):
        nonlocal evals, ok, bad
        evals += 1
        if got == want:
            ok += 1
        else:
            bad += 1
            if bad <= 10:
                report.violation(f"{what}: resolved to {got!r}, expected {want!r}", dict(detail, got=got, expected=want))
    scopes_all = ["data", "local", "global", "extra"]
    envs = [0, 1, 2, 3]
    # ---- argument role: plain names (builtin and non-builtin), backquoted names
    for name, builtin in (("vv", False), ("Treatment", True), ("scale", True)):
        for r in range(len(scopes_all) + 1):
            for sc in itertools.combinations(scopes_all, r):
                for env in (envs if report.tier == "thorough" or not builtin else [0, 2]):
                    want = expected_arg(set(sc), builtin)
                    got = run_arg_case(name, set(sc), env, builtin=builtin)
                    note(f"argument {name!r} defined in {list(sc) + (['builtin'] if builtin else [])}, env={env}", got, want,
                         {"role": "argument", "name": name, "scopes": list(sc), "env": env})
                    if len(samples) < 4:
                        samples.append({"role": "argument", "name": name, "scopes": list(sc), "env": env, "resolved": got})
    # the same name used as a keyword argument
    for r in range(len(scopes_all) + 1):
        for sc in itertools.combinations(scopes_all, r):
            got = run_arg_case("vv", set(sc), 1, kw=True)
            note(f"keyword argument 'vv' defined in {list(sc)}, env=1", got, expected_arg(set(sc), False),
                 {"role": "keyword argument", "name": "vv", "scopes": list(sc), "env": 1})
    # a scope that binds the name to None is still the first match
    for sc in (("local", "global"), ("local", "extra"), ("local",), ("local", "global", "extra")):
        got = run_arg_case("vv", set(sc), 0, local_value=None)
        note(f"argument 'vv' bound to None in locals, also defined in {list(sc)[1:]}", got, "none-value",
             {"role": "argument", "name": "vv", "scopes": list(sc), "local_value": None})
    # backquoted (non-syntactic) names live in the data frame or in extra_namespace
    for sc in ((), ("data",), ("extra",), ("data", "extra")):
        got = run_arg_case("my var", set(sc), 0, backquoted=True)
        note(f"argument `my var` defined in {list(sc)}", got, expected_arg(set(sc), False), {"role": "argument", "name": "my var", "scopes": list(sc)})
    # ---- callee role
    cal_scopes = ["data", "local", "global", "extra"]
    for name, builtin in (("myfn", False), ("I", True)):
        for r in range(len(cal_scopes) + 1):
            for sc in itertools.combinations(cal_scopes, r):
                for env in ([0, 1, 3] if not builtin else [0]):
                    s = set(sc) - {"data"}
                    want = "builtin" if builtin else expected_arg(s, False)
                    got = run_callee_case(name, set(sc), env)
                    note(f"callee {name!r} defined in {list(sc) + (['builtin'] if builtin else [])}, env={env}", got, want,
                         {"role": "callee", "name": name, "scopes": list(sc), "env": env})
    for dotted in (1, 2):
        for r in range(4):
            for sc in itertools.combinations(["local", "global", "extra"], r):
                got = run_callee_case("modx", set(sc), 0, dotted=dotted)
                note(f"dotted callee (depth {dotted}) defined in {list(sc)}", got, expected_arg(set(sc), False),
                     {"role": "callee", "dotted": dotted, "scopes": list(sc)})
    report.coverage.update({
        "evaluations": evals, "distinct_nontrivial": ok,
        "rule": "distinct configurations (role, name kind, subset of defining scopes, env depth): every subset of {data, locals, globals, "
                "extra_namespace} x builtin / non-builtin names, argument and callee roles, plain / dotted / backquoted names, env 0..3 "
                "through four nested callers, names bound to None; non-trivial = the resolved source equals the first defined scope",
        "samples": samples})
    report.assumptions = list(dict.fromkeys(list(report.assumptions) + ["the caller chain is generated with exec so that exactly one frame defines the local"]))

"""C08 - row equivariance and independence from irrelevant frame structure."""
import numpy as np
import pandas as pd

from .. import common, checklib
from ..rtc import par

LEVEL = "exploration"

FORMULAS = [
    "y ~ x", "y ~ x + z", "y ~ center(x) + scale(z)", "y ~ bs(x, df=4)", "y ~ poly(x, 2)", "y ~ f", "y ~ 0 + f + g", "y ~ f:g",
    "y ~ f*x", "y ~ c1 + x", "y ~ o:x", "y ~ C(k)", "y ~ S(f) + T(g, 'v')", "y ~ upper(g)", "y ~ np.where(z > 5, 'hi', 'lo') + x",
    "y ~ I(f) + x", "y ~ x + (1|g)", "y ~ x + (x|g)", "y ~ (0 + f|g) + (1|h)", "y ~ (x|upper(g))", "y ~ (scale(x)|g:h)",
    "y ~ {binary(f, 'a') * x} + z", "y ~ I(scale(x) * z) + h", "y ~ binary(g, success='v') + x", "y ~ poly(x, degree=2, raw=True)",
    "y ~ T(f, ref='b') + bs(z, 4, degree=2)", "y ~ I(center(x) + binary(h, 'p')) + (1|g)",
    "f ~ x", "s['yes'] ~ x + f", "prop(succ, trials) ~ x", "y ~ times(x, by=z)", "y ~ offset(z) + x",
    "y ~ C(g, levels=lv8) + x", "y ~ C(f, Sum, levels=lf8):x", "y ~ x + (1|C(g, levels=lv8))",
]
lv8 = ["w", "u", "v"]
lf8 = ["c", "a", "b"]


def upper(s):
    return s.str.upper() + s.str.lower()


def times(a, by=1):
    return a * by


def frame(seed, n=24):
    rng = np.random.default_rng(seed)
    from ..rtc.gen import _cover
    d = pd.DataFrame({
        "y": rng.normal(size=n), "x": rng.normal(size=n) * 3 + 2, "z": rng.uniform(1, 9, size=n),
        "f": _cover(rng, ["b", "a", "c"], n), "g": _cover(rng, ["w", "u", "v"], n), "h": _cover(rng, ["q", "p"], n),
        "k": _cover(rng, [25, 5, 100, 10], n), "s": _cover(rng, ["yes", "no"], n), "unused": rng.normal(size=n),
    })
    d["c1"] = pd.Categorical(_cover(rng, ["zeta", "alpha", "mid"], n), categories=["zeta", "alpha", "mid"])
    d["o"] = pd.Categorical(_cover(rng, ["lo", "mid", "hi"], n), categories=["lo", "mid", "hi"], ordered=True)
    d["trials"] = rng.integers(5, 12, size=n)
    d["succ"] = (d["trials"] * rng.uniform(0, 1, size=n)).astype(int)
    # make the first-appearance order of levels differ from the sorted order
    return d


def observe(dm):
    out = {}
    if dm.response is not None:
        r = dm.response
        out["response"] = (np.asarray(r.design_matrix, dtype=float), r.kind, None if r.levels is None else list(r.levels), r.name)
    if dm.common is not None:
        c = dm.common
        view = c.as_dataframe()        # (the data-frame view is part of the result: its values and its row labels)
        out["common"] = (np.asarray(c.design_matrix, dtype=float), list(view.columns),
                         {k: (v.start, v.stop) for k, v in c.slices.items()}, [str(i) for i in view.index],
                         np.asarray(view.to_numpy(dtype=float)).tolist() == np.asarray(c.design_matrix, dtype=float).reshape(len(view), -1).tolist()
                         or bool(np.allclose(view.to_numpy(dtype=float), np.asarray(c.design_matrix, dtype=float).reshape(len(view), -1), equal_nan=True)))
    if dm.group is not None:
        g = dm.group
        out["group"] = (np.asarray(g.design_matrix, dtype=float), {k: (v.start, v.stop) for k, v in g.slices.items()},
                        {k: list(t.groups) for k, t in g.terms.items()}, {k: list(t.labels) for k, t in g.terms.items()})
    return out


def compare(base, other, perm=None):
    if base.keys() != other.keys():
        return f"different parts: {sorted(base)} vs {sorted(other)}"
    for part in base:
        a, b = base[part], other[part]
        A = a[0] if perm is None else a[0][perm]
        if A.shape != b[0].shape:
            return f"{part}: shape {b[0].shape} instead of {A.shape}"
        if not np.allclose(A, b[0], rtol=1e-9, atol=1e-9, equal_nan=True):
            return f"{part}: matrix rows are not the {'permuted' if perm is not None else 'same'} rows (max diff {np.nanmax(np.abs(A - b[0])):.3g})"
        if a[1:] != b[1:]:
            return f"{part}: labels / levels / slices / groups changed: {a[1:]} vs {b[1:]}"
    return None


def variants(d, rng, formula=""):
    import re
    n = len(d)
    out = []
    # unused columns that happen to be named like the keyword arguments of the formula's calls, with missing values
    kws = [k for k in dict.fromkeys(re.findall(r"(\w+)\s*=(?!=)", formula)) if k not in d.columns]
    if kws:
        e = d.copy()
        for k in kws:
            col = rng.normal(size=n)
            col[rng.choice(n, size=3, replace=False)] = np.nan
            e[k] = col
        out.append((f"unused columns named like keyword arguments {kws}, with NaN", e, None))
    for _ in range(3):
        p = rng.permutation(n)
        out.append(("row permutation", d.iloc[p].reset_index(drop=True), p))
    out.append(("reversed rows, index kept", d.iloc[::-1], np.arange(n)[::-1]))
    # rows stored in increasing order of a covariate (parameter estimates must not depend on the storage order)
    for v in ("x", "z"):
        p = np.argsort(d[v].values, kind="stable")
        out.append((f"rows sorted by {v}", d.iloc[p].reset_index(drop=True), p))
    # a NAMED index: named like a column the formula uses, like an unused column, or like a variable of the calling environment;
    # and a used column promoted to index while staying a column
    for nm in ("x", "g", "unused", "by", "wgt"):
        e = d.copy()
        e.index = pd.Index(list(rng.permutation(n)), name=nm)
        out.append((f"index named {nm!r}", e, None))
    out.append(("set_index('g', drop=False)", d.set_index("g", drop=False), None))
    for name, idx in (("string index", [f"r{i}" for i in range(n)]), ("float index", list(np.linspace(3, -3, n))),
                      ("non-unique index", [i // 3 for i in range(n)]), ("constant index", [7] * n),
                      ("shuffled integer index", list(rng.permutation(n)))):
        e = d.copy()
        e.index = idx
        out.append((name, e, None))
    out.append(("reversed column order", d[list(d.columns)[::-1]], None))
    e = d.copy()
    e["extra1"] = np.nan
    e["extra2"] = "txt"
    out.append(("unused columns added (one all-NaN)", e, None))
    out.append(("unused column removed", d.drop(columns=["unused"]), None))
    # missing values in a used variable + non-unique index: the row filter must be positional
    e = d.copy()
    e.loc[[2, 9], "x"] = np.nan
    e2 = e.copy()
    e2.index = [i // 3 for i in range(n)]
    out.append(("NaN in x, non-unique index vs RangeIndex", (e, e2), None))
    return out


def _chunk(task):
    import logging
    import warnings
    forms, seed = task
    logging.getLogger("formulae").setLevel(logging.CRITICAL)
    warnings.simplefilter("ignore")
    from formulae import design_matrices
    d = frame(seed)
    rng = np.random.default_rng(seed + 7)
    res = []
    for f in forms:
        try:
            base = observe(design_matrices(f, d))
        except Exception as ex:
            res.append((f, "baseline", f"raise {type(ex).__name__}: {ex}"))
            continue
        for name, e, perm in variants(d, rng, f):
            try:
                if isinstance(e, tuple):
                    ref = observe(design_matrices(f, e[0]))
                    got = observe(design_matrices(f, e[1]))
                    err = compare(ref, got)
                else:
                    err = compare(base, observe(design_matrices(f, e)), perm)
            except Exception as ex:
                err = f"raise {type(ex).__name__}: {ex}"
            res.append((f, name, err or "ok"))
    return res


def PROOFS():
    from ..contracts import design_c, variable_c, utils_c  # noqa: F401
    return [("vf.contracts.design_c", design_c.FUNCTIONS), ("vf.contracts.utils_c", utils_c.FUNCTIONS),
            ("vf.contracts.variable_c", ["formulae.terms.variable.Variable.eval_categoric", "formulae.terms.call.Call.eval_categoric"]),
            # stateless transforms return positional arrays computed row by row (no index labels to align on)
            ("vf.contracts.transforms_c", ["formulae.transforms.binary",
                                           # parameter estimates: functions of the data vector as a whole (mean, std, percentiles, min/max)
                                           "formulae.transforms.Center.__call__", "formulae.transforms.Scale.__call__",
                                           "formulae.transforms.BSpline._initialize"])]


def run(report, findings):
    checklib.run_proofs(report, "C08", PROOFS())
    seeds = [common.seed()] if report.tier == "quick" else [common.seed() + i for i in range(8)]
    evals = ok = bad = 0
    for sd in seeds:
        for r in par.pmap(_chunk, [(FORMULAS[i::13], sd) for i in range(13)]):
            for f, name, sig in r:
                evals += 1
                if sig == "ok":
                    ok += 1
                    continue
                bad += 1
                if bad <= 10:
                    report.violation(f"formula {f!r}, {name}: {sig}", {"formula": f, "variant": name, "error": sig,
                                                                        "frame": f"vf.props.C08.frame({sd})"})
    report.coverage.update({
        "evaluations": evals, "distinct_nontrivial": ok,
        "rule": "distinct (formula, frame transformation): 26 formulas x 14 transformations (row permutations, re-indexing incl. "
                "non-unique / float / string indexes, column order, added / removed unused columns, NaN rows under a non-unique index); "
                "non-trivial = both designs built and response/common/group matrices, labels, levels, slices, groups compared",
        "samples": [[f, "row permutation"] for f in FORMULAS[:3]] + [[FORMULAS[13], "non-unique index"]]})
    report.assumptions = list(dict.fromkeys(list(report.assumptions) + ["matrices compared with relative/absolute tolerance 1e-9 (summation order of float reductions)"]))

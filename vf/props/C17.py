"""C17 - matrix containers are internally consistent."""
import numpy as np
import pandas as pd

from .. import common, checklib
from ..rtc import par

LEVEL = "proof"

FORMULAS = [
    "y ~ x", "y ~ 1", "y ~ 0 + x", "y ~ x + f", "y ~ f:g + x", "y ~ bs(x, df=4) + f", "y ~ poly(x, 2):f", "y ~ x + (1|g)",
    "y ~ x + (x|g)", "y ~ (0 + f|g)", "y ~ (f|g) + (1|h)", "y ~ (x|g) + (z|h)", "y ~ (1|g:h)", "y ~ (x + z|g)", "y ~ x + (bs(x, df=4)|g)",
    "y ~ (poly(x, 2)|g) + (1|h)", "y ~ (f:x|g)", "f ~ x", "s['yes'] ~ x + (1|g)", "prop(succ, trials) ~ x", "y ~ scale(x) + (scale(x)|g)",
    "y ~ x + (x|g) + (x|h)", "y ~ (1|h) + (x|g)", "y ~ C(site) + x", "y ~ 0 + S(site) + x", "y ~ x:C(lab) + z", "y ~ poly(x, 2) + z", "y ~ x + (poly(x, 2)|g)", "y ~ ki + kb + x", "y ~ 0 + ki:f", "y ~ x + (1|ga:hb)", "y ~ (x|ga:hb)", "y ~ (1|o4)", "y ~ 0 + I((x + 1) * 2) + I(x + 1 * 2)", "y ~ x + `x`", "y ~ x + offset(z) + f", "y ~ offset(2.5) + (1|g)",
]


def frame(seed, n=24):
    rng = np.random.default_rng(seed)
    from ..rtc.gen import _cover
    d = pd.DataFrame({"y": rng.normal(size=n), "x": rng.normal(size=n) + 3, "z": rng.uniform(1, 9, size=n),
                      "f": _cover(rng, ["a", "b", "c"], n), "g": _cover(rng, ["u", "v", "w"], n), "h": _cover(rng, ["p", "q"], n),
                      "s": _cover(rng, ["yes", "no"], n)})
    d["trials"] = rng.integers(5, 12, size=n)
    d["succ"] = (d["trials"] * rng.uniform(0, 1, size=n)).astype(int)
    d.loc[4, "x"] = np.nan          # one observation is dropped
    # numeric factors whose levels differ beyond the sixth significant digit (ids stored as float; 0.1 + 0.2 next to 0.3)
    d["site"] = _cover(rng, [1000001.0, 1000002.0, 1000003.0], n)
    d["lab"] = pd.Categorical(_cover(rng, [0.1 + 0.2, 0.3, 0.5], n))
    d["ki"] = rng.integers(0, 9, size=n)                  # integer / boolean at training, fractions / counts in the new frames (see _chunk)
    d["kb"] = rng.integers(0, 2, size=n).astype(bool)
    d["ga"] = _cover(rng, ["u", "v", "w"], n)            # u:q and w:p never occur; o4 has an unused category
    d["hb"] = [{"u": "p", "w": "q"}.get(a, b) for a, b in zip(d["ga"], _cover(rng, ["p", "q"], n))]
    d["o4"] = pd.Categorical(_cover(rng, ["l", "m", "h"], n), categories=["l", "m", "h", "xl"], ordered=True)
    return d


def check_matrix(m, kind, nrows, what):
    X = np.asarray(m.design_matrix)
    X2 = X.reshape(X.shape[0], -1)
    if X.shape[0] != nrows:
        return f"{what}: {X.shape[0]} rows for {nrows} retained observations"
    if not np.array_equal(np.asarray(np.array(m), dtype=float), np.asarray(X, dtype=float), equal_nan=True):
        return f"{what}: np.array(obj) differs from design_matrix"
    if kind in ("common", "group"):
        start = 0
        for name in m.terms:
            if name not in m.slices:
                return f"{what}: term {name} has no slice"
            s = m.slices[name]
            if s.start != start or s.stop <= s.start:
                return f"{what}: slice of {name} is [{s.start}, {s.stop}), expected to start at {start}"
            start = s.stop
            try:
                sub = m[name]
            except Exception as ex:
                return f"{what}: obj[{name!r}] raised {type(ex).__name__}"
            if not np.array_equal(np.asarray(sub, dtype=float), X2[:, s].astype(float), equal_nan=True):
                return f"{what}: obj[{name!r}] is not the slice of the design matrix"
        if list(m.slices) != list(m.terms):
            return f"{what}: slices {list(m.slices)} do not follow the term order {list(m.terms)}"
        if start != X2.shape[1]:
            return f"{what}: slices cover {start} of {X2.shape[1]} columns"
        try:
            m["__no_such_term__"]
            return f"{what}: unknown term name accepted"
        except ValueError:
            pass
        except Exception as ex:
            return f"{what}: unknown term name raised {type(ex).__name__} instead of ValueError"
    if kind in ("common", "response"):
        try:
            df = m.as_dataframe()
        except Exception as ex:
            return f"{what}: as_dataframe raised {type(ex).__name__}: {ex}"
        if df.shape != X2.shape or not np.array_equal(df.to_numpy(dtype=float), X2.astype(float), equal_nan=True):
            return f"{what}: data-frame view differs from the matrix"
        if len(set(df.columns)) != len(df.columns):
            return f"{what}: duplicate column labels {list(df.columns)}"
    if kind == "group":
        labels = [l for t in m.terms.values() for l in t.labels]
        if len(set(labels)) != len(labels):
            return f"{what}: duplicate column labels"
    try:
        text = str(m)
        rep = repr(m)
    except Exception as ex:
        return f"{what}: printing raised {type(ex).__name__}: {ex}"
    if str(X.shape) not in text or str(X.shape) not in rep:
        return f"{what}: printed text does not report the shape {X.shape}"
    return None


def _chunk(task):
    import logging
    import warnings
    forms, seed = task
    logging.getLogger("formulae").setLevel(logging.CRITICAL)
    warnings.simplefilter("ignore")
    import formulae
    from formulae import design_matrices
    d = frame(seed)
    new_seen = d.iloc[[0, 1, 2, 3, 5]].reset_index(drop=True)
    new_seen["ki"] = [1.5, 2.25, 0.0, 7.75, 3.0]
    new_seen["kb"] = [2, 0, 1, 3, 1]
    new_g = new_seen.copy()
    new_g["g"] = ["u", "NEW", "v", "NEW", "w"]
    new_h = new_seen.copy()
    new_h["h"] = ["p", "q", "NEW", "p", "q"]
    res = []
    for f in forms:
        try:
            dm = design_matrices(f, d)
        except Exception as ex:
            res.append((f, "build", f"raise {type(ex).__name__}: {ex}"))
            continue
        nrows = int((~d[["x"]].isna().any(axis=1)).sum()) if "x" in f else len(d)
        r, c, g = dm
        if (r, c, g) != (dm.response, dm.common, dm.group) or (dm[0], dm[1], dm[2]) != (r, c, g):
            res.append((f, "unpack", "tuple unpacking / indexing does not return (response, common, group)"))
        try:
            if str(dm) is None or "DesignMatrices" not in repr(dm):
                res.append((f, "print", "printing the design object failed"))
        except Exception as ex:
            res.append((f, "print", f"printing DesignMatrices raised {type(ex).__name__}"))
        objs = []
        if r is not None:
            objs.append((r, "response", nrows, "response"))
        if c is not None:
            objs.append((c, "common", nrows, "common"))
        if g is not None:
            objs.append((g, "group", nrows, "group"))
        formulae.config["EVAL_UNSEEN_CATEGORIES"] = "silent"
        # (also new frames of one and two rows: the width of every term is the training width, whatever the data at hand)
        for new, tag in ((new_seen, "seen"), (new_g, "new g"), (new_h, "new h"), (new_seen, "seen again"), (new_seen.iloc[[1]], "one row"),
                         (new_seen.iloc[[0, 2]], "two rows")):
            for part in ("common", "group"):
                m = getattr(dm, part)
                if m is None:
                    continue
                try:
                    objs.append((m.evaluate_new_data(new), part, len(new), f"{part}.evaluate_new_data({tag})"))
                except Exception as ex:
                    res.append((f, f"{part}.evaluate_new_data({tag})", f"raise {type(ex).__name__}: {ex}"))
        formulae.config["EVAL_UNSEEN_CATEGORIES"] = "error"
        # a second design of the same formula on a frame with other level sets, built before the first is inspected: the first design's
        # containers still describe the first frame
        try:
            d2 = d[(d["f"] != "a") & (d["g"] != "u")].reset_index(drop=True)
            design_matrices(f, d2)
        except Exception:      # noqa: BLE001 - the reduced frame may not support the formula; the first design is what is judged
            pass
        # all objects, including the training ones again after the evaluations
        for m, kind, n, what in objs + objs[:3]:
            err = check_matrix(m, kind, n, what)
            res.append((f, what, err or "ok"))
        # rows: incomplete rows are removed by position - with repeated index labels too
        if "x" in f:
            try:
                e = d.copy()
                e.index = [i // 3 for i in range(len(e))]
                dme = design_matrices(f, e)
                for m, kind in ((dme.response, "response"), (dme.common, "common"), (dme.group, "group")):
                    if m is not None:
                        err = check_matrix(m, kind, nrows, f"{kind} (repeated index labels)")
                        if err is None and kind != "group" and not np.array_equal(
                                np.asarray(m.design_matrix, dtype=float), np.asarray(getattr(dm, kind).design_matrix, dtype=float), equal_nan=True):
                            err = f"{kind} (repeated index labels): differs from the design on the default index"
                        res.append((f, f"{kind} (repeated index labels)", err or "ok"))
            except Exception as ex:
                res.append((f, "repeated index labels", f"raise {type(ex).__name__}: {ex}"))
    return res


def known_class(f, what, sig):
    return None     # no recorded findings: the two defects found here were repaired (see known_findings.jsonl)


def PROOFS():
    from ..contracts import terms_c, matrices_c
    return [("vf.contracts.matrices_c", matrices_c.FUNCTIONS), ("vf.contracts.terms_c", ["formulae.terms.terms.GroupSpecificTerm.eval_new_data"]),
            # property lemma: evaluate, then index by a term's name = exactly that term's data
            ("vf.contracts.lemmas_c", ["vf.proplemmas.c17.block_view", "vf.proplemmas.c17.block_view#group"])]


def run(report, findings):
    checklib.run_proofs(report, "C17", PROOFS())
    fk = {f["id"] for f in findings if f.get("kind") == "finding"}
    seeds = [common.seed()] if report.tier == "quick" else [common.seed() + i for i in range(6)]
    evals = ok = bad = 0
    for sd in seeds:
        for r in par.pmap(_chunk, [(FORMULAS[i::13], sd) for i in range(13)]):
            for f, what, sig in r:
                evals += 1
                if sig == "ok":
                    ok += 1
                    continue
                kc = known_class(f, what, sig)
                if kc and kc in fk:
                    report.known_hits[kc] = report.known_hits.get(kc, 0) + 1
                    continue
                bad += 1
                if bad <= 10:
                    report.violation(f"formula {f!r}, {what}: {sig}", {"formula": f, "object": what, "error": sig, "frame": f"vf.props.C17.frame({sd})"})
    report.coverage.update({
        "evaluations": evals, "distinct_nontrivial": ok,
        "rule": "distinct (formula, matrix object): 25 formulas; for each the response/common/group matrices and the objects derived by four "
                "evaluate_new_data calls (seen groups, unseen g, unseen h, seen again) are checked: slices, indexing, views, labels, rows, printing",
        "samples": FORMULAS[:3] + FORMULAS[8:11]})
    report.assumptions = list(dict.fromkeys(list(report.assumptions) + []))

"""C15 - response handling."""
import numpy as np
import pandas as pd

from .. import common, checklib

LEVEL = "exploration"
RHS = ["x", "1", "0 + x", "g2", "x + g2", "x*g2", "(1|g2)", "x + (x|g2)", "x + T(g2, 'l')", "binary(g2, 'k') + C(g2, Treatment('m'))"]


def frame(seed, n=24):
    rng = np.random.default_rng(seed)
    from ..rtc.gen import _cover
    d = pd.DataFrame({"y": rng.normal(size=n), "x": rng.normal(size=n), "g2": _cover(rng, ["k", "l", "m"], n),
                      "s": _cover(rng, ["b", "a", "c"], n), "sp": _cover(rng, ["two words", "one", "z z"], n)})
    d["c"] = pd.Categorical(_cover(rng, ["q", "p", "r"], n), categories=["r", "q", "p"])
    d["o"] = pd.Categorical(_cover(rng, ["low", "mid", "high"], n), categories=["low", "mid", "high"], ordered=True)
    d["trials"] = rng.integers(5, 12, size=n)
    d["k"] = (d["trials"] * rng.uniform(0, 1, size=n)).astype(int)
    d["k8"] = d["k"].astype(np.int8)                                  # successes stored in a narrow integer type / as booleans
    d["kb"] = d["k"] > 3
    d["yn"] = _cover(rng, [2, 9, 10, 33, 100, -1, -10], n)            # numeric levels: sorted by value, not by their text
    return d


def expected_response(form, d):
    """(kind, matrix, levels)"""
    if form == "y":
        return "numeric", d["y"].values.astype(float), None
    if form == "np.log(trials)":
        return "numeric", np.log(d["trials"].values.astype(float)), None
    for col, levels in (("s", None), ("sp", None), ("c", None), ("o", ["low", "mid", "high"])):
        if levels is None:       # data that is not an ordered categorical: the observed values, sorted
            levels = sorted(set(d[col].astype(object).values))
        if form == col:
            v = d[col].astype(object).values
            return "categoric", np.column_stack([(v == l).astype(float) for l in levels]), levels
        if form.startswith(col + "["):
            lvl = form[len(col) + 1:-1].strip("'\"")
            return "categoric", (d[col].astype(object).values == lvl).astype(float), None
    if form == "prop(k, trials)" or form == "p(k, trials)" or form == "proportion(k, trials)":
        return "proportion", np.column_stack([d["k"].values, d["trials"].values]).astype(float), None
    if form == "prop(k, 12)":
        return "proportion", np.column_stack([d["k"].values, np.full(len(d), 12)]).astype(float), None
    if form in ("prop(k8, 200)", "prop(k8, 70000)", "prop(kb, 5)", "p(k8, trials)"):
        succ, tr = form[form.index("(") + 1:-1].split(", ")
        trv = d["trials"].values if tr == "trials" else np.full(len(d), int(tr))
        return "proportion", np.column_stack([d[succ].values.astype(float), trv]).astype(float), None
    if form in ("C(yn)", "T(yn)", "S(yn)"):
        levels = sorted(set(d["yn"].values))
        return "categoric", np.column_stack([(d["yn"].values == l).astype(float) for l in levels]), levels
    raise KeyError(form)


FORMS = ["y", "np.log(trials)", "s", "sp", "c", "o", "s[a]", "s['b']", "sp['two words']", "c[q]", "o[high]", "o['mid']", "o[low]",
         "s[zzz]", "prop(k, trials)", "p(k, trials)", "proportion(k, trials)", "prop(k, 12)",
         "prop(k8, 200)", "prop(k8, 70000)", "prop(kb, 5)", "p(k8, trials)", "C(yn)", "T(yn)"]


def PROOFS():
    from ..contracts import transforms_c, variable_c, terms_c, matrices_c, scanner_c, offset_c  # noqa: F401
    T = "formulae.transforms."
    return [("vf.contracts.transforms_c", [T + "Proportion.__init__", T + "Proportion.eval"]),
            ("vf.contracts.variable_c", ["formulae.terms.variable.Variable.eval_categoric"]),
            ("vf.contracts.terms_c", ["formulae.terms.terms.Response.__init__"]),
            # prop() only as a response (refused otherwise); the response term's value is the successes / trials pair; offset() never as one
            ("vf.contracts.offset_c", ["formulae.terms.call.Call.eval_proportion", "formulae.terms.call.Call.eval_offset",
                                       "formulae.terms.call.Call.eval_offset#variable"]),
            ("vf.contracts.matrices_c", ["formulae.matrices.ResponseMatrix.evaluate"]),
            # the level of y['level'] is the text between its own quotes
            ("vf.contracts.scanner_c", ["formulae.scanner.Scanner.char", "formulae.scanner.Scanner.add_token"])]


def run(report, findings):
    checklib.run_proofs(report, "C15", PROOFS())
    import logging
    import warnings
    logging.getLogger("formulae").setLevel(logging.CRITICAL)
    warnings.simplefilter("ignore")
    from formulae import design_matrices
    seeds = [common.seed()] if report.tier == "quick" else [common.seed() + i for i in range(5)]
    res = []
    for sd in seeds:
        d = frame(sd)
        # "a numeric response is returned unchanged": exactly, also integers no double represents, unsigned and boolean columns
        rng_ = np.random.default_rng(sd)
        exact = {"big": (2 ** 53 + 1 + 2 * rng_.integers(0, 1000, size=len(d))).astype(np.int64),
                 "ubig": (2 ** 64 - 1 - rng_.integers(0, 1000, size=len(d)).astype(np.uint64)).astype(np.uint64),
                 "small": rng_.integers(-5, 5, size=len(d)), "flag": rng_.integers(0, 2, size=len(d)).astype(bool)}
        de = d.assign(**exact)
        for name, want in exact.items():
            for rhs in ("x", "1", "x + g2"):
                try:
                    got = np.asarray(design_matrices(f"{name} ~ {rhs}", de).response.design_matrix).reshape(-1)
                    same = [int(v) for v in got] == [int(v) for v in want] and (name != "big" and name != "ubig" or got.dtype.kind in "iu")
                    res.append((f"{name} ~ {rhs}", "ok" if same else f"numeric response is not returned unchanged (dtype {got.dtype})"))
                except Exception as ex:
                    res.append((f"{name} ~ {rhs}", f"raised {type(ex).__name__}: {ex}"))
        for rhs in RHS:
            try:
                base = design_matrices(rhs, d)
            except Exception as ex:
                res.append((f"{rhs} (no response)", f"raised {type(ex).__name__}: {ex}"))
                continue
            res.append((f"{rhs} (no response)", "ok" if base.response is None else "a design without response has a response matrix"))
            for form in FORMS:
                f = f"{form} ~ {rhs}"
                try:
                    dm = design_matrices(f, d)
                except Exception as ex:
                    res.append((f, f"raised {type(ex).__name__}: {ex}"))
                    continue
                kind, want, levels = expected_response(form, d)
                R = np.asarray(dm.response.design_matrix, dtype=float)
                err = None
                if dm.response.kind != kind:
                    err = f"response kind {dm.response.kind!r}, expected {kind!r}"
                elif R.shape != want.shape or not np.allclose(R, want):
                    err = f"response values differ from the specification (shape {R.shape} vs {want.shape})"
                elif levels is not None and [str(l) for l in dm.response.levels] != [str(l) for l in levels]:
                    err = f"response levels {dm.response.levels} != {levels}"
                # predictors do not depend on the response
                for part in ("common", "group"):
                    a, b = getattr(dm, part), getattr(base, part)
                    if (a is None) != (b is None):
                        err = err or f"{part} matrix present={a is not None} with response but {b is not None} without"
                    elif a is not None and (not np.array_equal(np.asarray(a.design_matrix), np.asarray(b.design_matrix))
                                            or list(a.terms) != list(b.terms)):
                        err = err or f"{part} matrix depends on the response"
                res.append((f, err or "ok"))
        # degenerate frames: a single row; a categorical response with a single observed level - shapes must not collapse
        one = d.iloc[[3]].reset_index(drop=True)
        const = d.copy()
        const["s"] = "b"
        const["c"] = pd.Categorical(["q"] * len(d), categories=["r", "q", "p"])
        zero = d.copy()
        zero.loc[[2, 7], ["trials", "k"]] = 0          # no trials, no successes: a valid row of a proportion response
        for tagf, e in (("one-row frame", one), ("single-level frame", const), ("frame with zero-trial rows", zero)):
            for form in ("y", "s", "c", "o", "s[b]", "prop(k, trials)", "prop(k, 12)"):
                f = f"{form} ~ 1"
                try:
                    dm = design_matrices(f, e)
                except Exception as ex:
                    res.append((f"{f} on the {tagf}", f"raised {type(ex).__name__}: {ex}"))
                    continue
                kind, want, levels = expected_response(form, e)
                R = np.asarray(dm.response.design_matrix, dtype=float)
                err = None
                if dm.response.kind != kind:
                    err = f"response kind {dm.response.kind!r}, expected {kind!r}"
                elif R.shape != want.shape or not np.allclose(R, want):
                    err = f"response values differ from the specification (shape {R.shape} vs {want.shape})"
                elif levels is not None and [str(l) for l in dm.response.levels] != [str(l) for l in levels]:
                    err = f"response levels {dm.response.levels} != {levels}"
                res.append((f"{f} on the {tagf}", err or "ok"))
        for f in ("y + x ~ g2", "y:x ~ g2", "y*x ~ 1", "(y|g2) ~ x", "1 ~ x"):
            try:
                design_matrices(f, d)
                res.append((f, "a response that is not a single term was accepted"))
            except Exception:
                res.append((f, "ok"))
    evals = ok = bad = 0
    for tag, sig in res:
        evals += 1
        if sig == "ok":
            ok += 1
            continue
        bad += 1
        if bad <= 10:
            report.violation(f"formula {tag!r}: {sig}", {"formula": tag, "error": sig, "frame": f"vf.props.C15.frame({common.seed()})"})
    report.coverage.update({
        "evaluations": evals, "distinct_nontrivial": ok,
        "rule": "18 response forms (numeric, call, str, str with blanks, unordered / ordered Categorical, y[ident], y['quoted'], absent level, "
                "prop with column or constant trials and aliases) x 8 right-hand sides; non-trivial = response values, kind, levels and the "
                "independence of the predictor matrices from the response all verified",
        "samples": [f"{FORMS[6]} ~ {RHS[1]}", f"{FORMS[10]} ~ {RHS[4]}", f"{FORMS[14]} ~ {RHS[7]}"]})
    report.assumptions = list(dict.fromkeys(list(report.assumptions) + []))

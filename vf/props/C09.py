"""C09 - missing-value policy: drop / error / pass."""
import itertools

import numpy as np
import pandas as pd

from .. import common, checklib
from ..rtc import par
from .C08 import observe, compare

LEVEL = "exploration"


def times(a, by=1):
    return a * by


def addk(a, k=0, *, w=None):
    return a + k if w is None else a + k + w


# (formula, used variables, {numeric variable: labels of the columns derived from it by pointwise maps})
CASES = [
    ("y ~ x + z", {"y", "x", "z"}, {"x": ["x"], "z": ["z"]}),
    ("y ~ x", {"y", "x"}, {"x": ["x"]}),
    ("y ~ np.log(z) + x", {"y", "x", "z"}, {"z": ["np.log(z)"], "x": ["x"]}),
    ("y ~ x + f", {"y", "x", "f"}, {"x": ["x"]}),
    ("y ~ x:f", {"y", "x", "f"}, {"x": ["x:f[*"]}),                 # "p*": every label that starts with p
    ("y ~ f + x:f", {"y", "x", "f"}, {"x": ["x:f[*"]}),
    ("y ~ x:z + w", {"y", "x", "z", "w"}, {"x": ["x:z"], "z": ["x:z"], "w": ["w"]}),
    ("y ~ 0 + f:x:z", {"y", "x", "z", "f"}, {"x": ["f[*"], "z": ["f[*"]}),
    # a variable that the expansion removes again is not used by the formula
    # a missing numerator over a divisor that is exactly 0 in that row (zz is 0 in row 1 only): NaN, as for every other row
    ("y ~ I(x / zz) + w", {"y", "x", "zz", "w"}, {"x": ["I(x / zz)"], "w": ["w"]}),
    ("y ~ np.log(x / zz + 10)", {"y", "x", "zz"}, {"x": ["np.log(x / zz + 10)"]}),
    # columns of the frame that are named like a call of the formula, or like the prefix of a dotted column name, are not used by it
    ("y ~ np.log(z) + w", {"y", "z", "w"}, {"z": ["np.log(z)"], "w": ["w"]}),
    ("y ~ np.log(x.1) + w", {"y", "x.1", "w"}, {"x.1": ["np.log(x.1)"], "w": ["w"]}),
    ("y ~ np.exp(w) + (np.log(z)|g)", {"y", "w", "z", "g"}, {"w": ["np.exp(w)"]}),
    ("y ~ x + z - z", {"y", "x"}, {"x": ["x"]}),
    ("y ~ x*z - z - x:z", {"y", "x"}, {"x": ["x"]}),
    ("y ~ x + (z|g) - (z|g) - (1|g)", {"y", "x"}, {"x": ["x"]}),
    ("y ~ (x + f + w)**2 - f - x:f - f:w", {"y", "x", "w"}, {"x": ["x", "x:w"], "w": ["w", "x:w"]}),
    ("y ~ I(x + z)", {"y", "x", "z"}, {"x": ["I(x + z)"], "z": ["I(x + z)"]}),
    ("y ~ times(x, by=z)", {"y", "x", "z"}, {"x": ["times(x, by=z)"], "z": ["times(x, by=z)"]}),
    ("y ~ times(x, by=z / 2)", {"y", "x", "z"}, {"x": ["times(x, by=z / 2)"], "z": ["times(x, by=z / 2)"]}),
    ("y ~ addk(x, k=np.sqrt(z), w=w)", {"y", "x", "z", "w"}, {}),
    ("y ~ times(np.log(z), x)", {"y", "x", "z"}, {}),
    ("y ~ x + (1|g)", {"y", "x", "g"}, {"x": ["x"]}),
    ("y ~ x + (z|g)", {"y", "x", "z", "g"}, {"x": ["x"]}),
    ("y ~ f + (x|g:h)", {"y", "x", "f", "g", "h"}, {}),
    ("np.log(z) ~ x", {"z", "x"}, {"x": ["x"]}),
    ("y ~ `w w` + x", {"y", "w w", "x"}, {"x": ["x"], "w w": ["w w"]}),
    ("y ~ {x * 2} + w", {"y", "x", "w"}, {"w": ["w"]}),
    # transforms that estimate parameters, judged only for missing values in THEIR OWN variable (then 'pass' estimates from the
    # complete rows, as 'drop' does; with missing values elsewhere the two policies legitimately see different rows - the
    # statement speaks of plain variables and pointwise calls there)
    ("y ~ center(x) + z", {"y", "x", "z"}, {"x": ["center(x)"]}),
    ("y ~ scale(x) + w", {"y", "x", "w"}, {"x": ["scale(x)"]}),
    ("y ~ z + center(x):z", {"y", "x", "z"}, {"x": ["center(x):z"]}),
]


def frame(seed, n=20):
    rng = np.random.default_rng(seed)
    from ..rtc.gen import _cover
    d = pd.DataFrame({"y": rng.normal(size=n), "x": rng.normal(size=n) + 3, "z": rng.uniform(1, 9, size=n), "w": rng.normal(size=n),
                      "w w": rng.normal(size=n), "f": _cover(rng, ["a", "b", "c"], n), "g": _cover(rng, ["u", "v", "w"], n),
                      "h": _cover(rng, ["p", "q"], n), "unused": rng.normal(size=n), "unused_s": _cover(rng, ["k", "l"], n)})
    d["np.log(z)"] = np.log(d["z"])       # a precomputed column labelled like a call; 'x.1' as read_csv names a duplicated header
    d["np.exp(w)"] = np.exp(d["w"])
    d["x.1"] = rng.uniform(1, 5, size=n)
    d["zz"] = rng.uniform(1, 3, size=n)
    d.loc[1, "zz"] = 0.0              # (row 1 is the row the single-column patterns make incomplete)
    return d


def patterns(d, used, rng):
    n = len(d)
    cols = list(d.columns)
    pats = [{}]
    for c in cols:
        pats.append({c: [1]})
    pats.append({c: [int(rng.integers(0, n))] for c in cols if c not in used})       # only unused columns
    u = sorted(used)
    pats.append({u[0]: [0, 5], u[-1]: [5, 9]})
    pats.append({c: list(rng.choice(n, size=3, replace=False)) for c in rng.choice(cols, size=3, replace=False)})
    return pats


def apply_pattern(d, pat):
    e = d.copy()
    for c, rows in pat.items():
        e[c] = e[c].astype(object) if e[c].dtype == object else e[c]
        e.loc[rows, c] = np.nan
    return e


def _chunk(task):
    import logging
    import warnings
    cases, seed = task
    logging.getLogger("formulae").setLevel(logging.CRITICAL)
    warnings.simplefilter("ignore")
    from formulae import design_matrices
    d = frame(seed)
    rng = np.random.default_rng(seed + 3)
    res = []
    for f, used, derived in cases:
        for pat in patterns(d, used, rng):
            e = apply_pattern(d, pat)
            incomplete = e[sorted(used)].isna().any(axis=1).values
            tag = f"NaN at {pat}"
            # --- drop == run on the frame without exactly the incomplete rows
            try:
                got = observe(design_matrices(f, e, na_action="drop"))
                want = observe(design_matrices(f, e[~incomplete].reset_index(drop=True), na_action="error"))
                err = compare(want, got)
                if err is None:
                    e2 = e.copy()
                    e2.index = [i // 3 for i in range(len(e))]     # repeated index labels: the filter is positional
                    err = compare(want, observe(design_matrices(f, e2, na_action="drop")))
                    if err:
                        err = "with a non-unique index: " + err
                if err is None:
                    rows = {p: v[0].shape[0] for p, v in got.items()}
                    if len(set(rows.values())) > 1:
                        err = f"matrices are not row-aligned: {rows}"
            except Exception as ex:
                err = f"raise {type(ex).__name__}: {ex}"
            res.append((f, "drop", tag, err or "ok"))
            # --- error raises iff such a row exists
            try:
                design_matrices(f, e, na_action="error")
                raised = False
            except ValueError:
                raised = True
            except Exception as ex:
                raised = f"{type(ex).__name__}"
            ok = raised is bool(incomplete.any())
            res.append((f, "error", tag, "ok" if ok else f"na_action='error' raised={raised} but incomplete rows exist={bool(incomplete.any())}"))
            # --- pass keeps all rows; complete rows as under drop; NaN exactly in the derived columns
            num_missing = [c for c in pat if c in used and d[c].dtype != object]
            if all(c in derived or c not in used for c in pat) and derived is not None:
                try:
                    dm = design_matrices(f, e, na_action="pass")
                    X = np.asarray(dm.common.design_matrix, dtype=float)
                    labels = list(dm.common.as_dataframe().columns)
                    err = None
                    if X.shape[0] != len(e):
                        err = f"pass kept {X.shape[0]} of {len(e)} rows"
                    else:
                        Xd = np.asarray(design_matrices(f, e[~incomplete].reset_index(drop=True)).common.design_matrix, dtype=float)
                        if not np.allclose(X[~incomplete], Xd, equal_nan=True):
                            err = "complete rows are not encoded as under 'drop'"
                        for r in np.where(incomplete)[0]:
                            want_nan = set()
                            for c in num_missing:
                                if r in pat[c]:
                                    for p in derived[c]:
                                        want_nan |= {l for l in labels if l.startswith(p[:-1])} if p.endswith("*") else {p}
                            got_nan = {labels[j] for j in range(X.shape[1]) if np.isnan(X[r, j])}
                            if got_nan != want_nan and err is None:
                                err = f"row {r}: NaN in columns {sorted(got_nan)}, expected exactly {sorted(want_nan)}"
                except Exception as ex:
                    err = f"raise {type(ex).__name__}: {ex}"
                res.append((f, "pass", tag, err or "ok"))
        for bad_action in ("omit", "", "DROP", None):
            try:
                design_matrices(f, d, na_action=bad_action)
                res.append((f, "refuse", repr(bad_action), f"na_action={bad_action!r} accepted"))
            except ValueError:
                res.append((f, "refuse", repr(bad_action), "ok"))
            except Exception as ex:
                res.append((f, "refuse", repr(bad_action), f"na_action={bad_action!r}: {type(ex).__name__} instead of ValueError"))
    return res


def PROOFS():
    from ..contracts import design_c, utils_c
    # (interaction columns are plain row-wise products: a NaN factor gives NaN in every column derived from it)
    return [("vf.contracts.design_c", design_c.FUNCTIONS), ("vf.contracts.utils_c", utils_c.FUNCTIONS)]


def run(report, findings):
    checklib.run_proofs(report, "C09", PROOFS())
    seeds = [common.seed()] if report.tier == "quick" else [common.seed() + i for i in range(6)]
    evals = ok = bad = 0
    for sd in seeds:
        for r in par.pmap(_chunk, [(CASES[i::16], sd) for i in range(16)]):
            for f, policy, tag, sig in r:
                evals += 1
                if sig == "ok":
                    ok += 1
                    continue
                bad += 1
                if bad <= 10:
                    report.violation(f"formula {f!r}, na_action={policy}, {tag}: {sig}",
                                     {"formula": f, "policy": policy, "pattern": tag, "error": sig, "frame": f"vf.props.C09.frame({sd})"})
    report.coverage.update({
        "evaluations": evals, "distinct_nontrivial": ok,
        "rule": "distinct (formula, policy, missingness pattern): 16 formulas (variables inside calls, keyword arguments, nested calls, "
                "backquoted names, group terms, response) x ~14 patterns over used and unused columns x {drop, error, pass} + refused "
                "policies; non-trivial = verdict compared with the run on the manually filtered frame",
        "samples": [[c[0], sorted(c[1])] for c in CASES[:4]]})
    report.assumptions = list(dict.fromkeys(list(report.assumptions) + ["the set of used variables of each pool formula is stated by hand in the pool (independent of formulae's visitor)"]))

"""C14 - stateful transforms satisfy their mathematical contracts."""
import itertools

import numpy as np
import pandas as pd

from .. import common, checklib
from ..rtc.gen import rank, same_span

LEVEL = "exploration"


def vectors(rng):
    n = int(rng.integers(5, 40))
    vs = [rng.normal(size=n) * 3 + 1, rng.uniform(0, 10, size=n), np.round(rng.normal(size=n), 0) + 5,      # ties
          rng.normal(size=n) * 1e-3 + 1e6, rng.uniform(1, 2, size=6), np.arange(1.0, 12.0), -rng.uniform(1, 9, size=n),
          rng.uniform(2, 9, size=n)]
    return vs


class _ViaFormula:
    """name(x) evaluated like a formula term: design_matrices on the first vector, evaluate_new_data on every later one"""

    def __init__(self, name):
        self.name, self.dm, self.first = name, None, None

    def __call__(self, x):
        import pandas as pd
        from formulae import design_matrices
        d = pd.DataFrame({"y": np.zeros(len(x)), "x": np.asarray(x, dtype=float)})
        if self.dm is None:
            # (objects of the calling scope that happen to be named like the transforms do not replace them)
            shadow = {"center": lambda v: v - np.median(v), "scale": 2.5, "standardize": False, "bs": 32, "poly": np}
            try:
                self.dm = design_matrices(f"y ~ 0 + {self.name}(x)", d, extra_namespace=shadow)
            except Exception:        # noqa: BLE001 - a term that cannot be built is not the transform: reported through its values
                return np.full(len(x), np.nan)
            return np.asarray(self.dm.common.design_matrix, dtype=float)[:, 0]
        if self.dm is None:
            return np.full(len(x), np.nan)
        return np.asarray(self.dm.common.evaluate_new_data(d).design_matrix, dtype=float)[:, 0]


def check_raw_integer_training():
    """poly(x, d, raw=True) returns exactly the powers - of later data too, whatever dtype the training column had"""
    import pandas as pd
    from formulae import design_matrices
    out = []
    tr = pd.DataFrame({"y": np.zeros(6), "x": np.array([1, 2, 3, 5, 8, 13], dtype=np.int64)})
    for later in (np.array([0.5, 1.25, 2.0]), np.array([4], dtype=np.int64), np.array([-1.5, 7.75])):
        for deg in (2, 3):
            tag = f"poly(x, {deg}, raw=True), integer training column, later data {later.tolist()}"
            try:
                dm = design_matrices(f"y ~ 0 + poly(x, {deg}, raw=True)", tr)
                got = np.asarray(dm.common.evaluate_new_data(pd.DataFrame({"x": later})).design_matrix, dtype=float).reshape(len(later), -1)
                want = np.column_stack([later.astype(float) ** k for k in range(1, deg + 1)])
                out.append((tag, "ok" if got.shape == want.shape and np.allclose(got, want) else "later data are not mapped to exactly their powers"))
            except Exception as ex:
                out.append((tag, f"raised {type(ex).__name__}: {ex}"))
    return out


def check_center_scale(rng):
    from formulae.transforms import Center, Scale, TRANSFORMS
    out = []
    for x in vectors(rng):
        x2 = rng.normal(size=7) * 5 + 3
        for cls, name in ((Center, "center"), (Scale, "scale"), (TRANSFORMS["standardize"], "standardize"), (TRANSFORMS["center"], "center*"),
                          (None, "center"), (None, "scale"), (None, "standardize")):       # None: through the formula API
            if not isinstance(cls, type):
                # the registered name is not a transform class: evaluate it the way a formula does (one LazyCall, training then later data)
                t = _ViaFormula(name.rstrip("*"))
            else:
                t = cls()
            r = np.asarray(t(x), dtype=float)
            tol = 1e-9 * max(1.0, np.abs(x).max())
            err = None
            if abs(r.mean()) > tol:
                err = f"mean of the transformed training data is {r.mean():.3g}"
            m, s = x.mean(), x.std()
            if name.startswith("center"):
                want1, want2 = x - m, x2 - m
            else:
                if abs(r.std() - 1) > 1e-9:
                    err = err or f"population sd of the transformed training data is {r.std():.6g}"
                want1, want2 = (x - m) / s, (x2 - m) / s
            if not np.allclose(r, want1, rtol=1e-12, atol=tol):
                err = err or "training result is not the affine map x -> (x - mean)[/sd]"
            r2 = np.asarray(t(x2), dtype=float)
            if not np.allclose(r2, want2, rtol=1e-12, atol=tol):
                err = err or "later data are not mapped by the affine map fitted on the training data"
            r3 = np.asarray(t(x), dtype=float)
            if not np.allclose(r3, r):
                err = err or "re-evaluating the training data after other data gives a different result"
            out.append((f"{name} on a vector of length {len(x)}", err or "ok"))
    return out


def check_bs(rng):
    from formulae.transforms import BSpline
    out = []
    for x in vectors(rng)[:6] + [np.array([4, 4, 4, 5, 5, 6, 6, 6, 6.0])]:        # (the last one: the witness of C14-knot-on-boundary)
        lo, hi = x.min(), x.max()
        grid = np.linspace(lo, hi, 41)
        for degree, icpt in itertools.product(range(0, 6), (False, True)):
            for df in (None, degree + 1, degree + 2, degree + 4):
                for knots in (None, [lo + (hi - lo) * 0.3, lo + (hi - lo) * 0.6]):
                    if df is None and knots is None:
                        continue
                    tag = f"bs(df={df}, knots={None if knots is None else 'two'}, degree={degree}, intercept={icpt}), n={len(x)}"
                    order = degree + 1
                    n_inner = None if df is None else df - order + (0 if icpt else 1)
                    valid = True
                    if df is not None and n_inner < 0:
                        valid = False
                    if df is not None and knots is not None and len(knots) != n_inner:
                        valid = False
                    t = BSpline()
                    try:
                        B = t(x, df=df, knots=knots, degree=degree, intercept=icpt)
                        if not valid:
                            out.append((tag, "invalid df/knots combination accepted"))
                            continue
                    except ValueError:
                        out.append((tag, "ok" if not valid else "valid parameters refused"))
                        continue
                    except Exception as ex:
                        out.append((tag, f"raised {type(ex).__name__}: {ex}"))
                        continue
                    ncol = df if df is not None else len(knots) + degree + (1 if icpt else 0)
                    err = None
                    if B.shape != (len(x), ncol):
                        err = f"shape {B.shape}, expected ({len(x)}, {ncol})"
                    elif (B < -1e-12).any():
                        err = "negative basis values on the training data"
                    else:
                        G = t(grid)
                        if (G < -1e-12).any():
                            err = "negative basis values inside the boundary knots"
                        elif icpt and not np.allclose(G.sum(axis=1), 1, atol=1e-9):
                            err = "with intercept=True the basis does not sum to one inside the boundary knots"
                        elif icpt and not np.allclose(B.sum(axis=1), 1, atol=1e-9):
                            err = "with intercept=True the basis does not sum to one on the training data"
                    if err and "sum to one" in err:
                        # known-finding class C14-knot-on-boundary: an inner knot coincides with a boundary knot (only possible through
                        # ties: an equally spaced quantile of x equals min(x) or max(x), or an explicit knot on the boundary)
                        inner = np.asarray(t._knots)[order:len(t._knots) - order]
                        if len(inner) and (np.any(inner == t._knots[0]) or np.any(inner == t._knots[-1])):
                            err = "known:C14-knot-on-boundary " + err
                    out.append((tag, err or "ok"))
    # explicit bounds, including bounds equal to zero
    x = rng.uniform(2, 9, size=25)
    xn = -rng.uniform(2, 9, size=25)
    for data, lb, ub in ((x, 0, None), (x, 0.0, 12), (x, 0.5, 12), (xn, None, 0), (xn, -12, 0.0), (x, -2, 11), (x, None, None)):
        tag = f"bs(df=5, intercept=True, lower_bound={lb}, upper_bound={ub})"
        t = BSpline()
        try:
            B = t(data, df=5, intercept=True, lower_bound=lb, upper_bound=ub)
            lo = data.min() if lb is None else lb
            hi = data.max() if ub is None else ub
            G = t(np.linspace(lo, hi, 31))
            err = None
            if (G < -1e-12).any():
                err = "negative basis values inside the requested boundary knots"
            elif not np.allclose(G.sum(axis=1), 1, atol=1e-9):
                err = "basis does not sum to one inside the requested boundary knots"
        except Exception as ex:
            err = f"raised {type(ex).__name__}: {ex}"
        out.append((tag, err or "ok"))
        # knots outside the requested bounds are refused, knots inside are accepted
        for kn, ok_expected in (([lo - 1.0], False), ([hi + 1.0], False), ([(lo + hi) / 2], True)):
            try:
                BSpline()(data, knots=kn, lower_bound=lb, upper_bound=ub)
                acc = True
            except ValueError:
                acc = False
            except Exception as ex:
                acc = f"{type(ex).__name__}"
            out.append((tag + f" knots={kn}", "ok" if acc is ok_expected else f"accepted={acc}, expected {ok_expected}"))
    for bad in (dict(df=None, knots=None), dict(df=2.5), dict(df=3, degree=-1), dict(df=3, degree=1.5), dict(df=1, degree=3),
                dict(df=4, lower_bound=5, upper_bound=1), dict(knots=[[1, 2], [3, 4]]), dict(df=6, knots=[3.0]),
                # the same invalid values as numpy scalars (what np.sqrt(n), np.mean([...]) hand over)
                dict(df=np.float64(4.5)), dict(df=4, degree=np.float64(1.5)), dict(df=4, degree=np.float64(-0.5)), dict(df=np.float32(2.5)),
                dict(df=np.sqrt(20.0))):
        try:
            BSpline()(x, **bad)
            out.append((f"bs(**{bad})", "invalid arguments accepted"))
        except ValueError:
            out.append((f"bs(**{bad})", "ok"))
        except Exception as ex:
            out.append((f"bs(**{bad})", f"raised {type(ex).__name__} instead of ValueError"))
    return out


def check_poly(rng):
    from formulae.transforms import Polynomial
    out = []
    for x in vectors(rng):
        if len(np.unique(x)) < 8:
            continue
        xs = (x - x.mean()) / (x.std() or 1.0)         # conditioning of the raw power basis used as the span reference
        for deg in range(1, 7):
            tag = f"poly(x, {deg}), n={len(x)}"
            # floating point: the recurrence loses about eps * |mean| / sd per step (conditioning of the input)
            tol = max(1e-8, 256 * np.finfo(float).eps * (abs(x.mean()) / (x.std() or 1.0) + 1.0))
            try:
                P = np.asarray(Polynomial()(x, deg), dtype=float)
                err = None
                if P.shape != (len(x), deg):
                    err = f"shape {P.shape}"
                elif not np.allclose(P.T @ P, np.eye(deg), atol=tol):
                    err = "columns are not orthonormal"
                elif not np.allclose(P.sum(axis=0), 0, atol=tol):
                    err = "columns are not orthogonal to the constant"
                else:
                    V = np.column_stack([xs ** k for k in range(0, deg + 1)])
                    if deg <= 4 and not same_span(np.column_stack([np.ones(len(x)), P]), V, tol=1e-5):
                        err = "span differs from 1, x, ..., x^d"
                R = np.asarray(Polynomial()(x, deg, raw=True), dtype=float)
                if err is None and not np.allclose(R, np.column_stack([x ** k for k in range(1, deg + 1)])):
                    err = "raw=True does not return the powers"
                if err is None and deg <= 4:
                    # the same instance on later data - one row, two rows, few distinct values: each column is the polynomial that the
                    # training column is in x (recovered by least squares from the training values), evaluated at the later points
                    t = Polynomial()
                    P0 = np.asarray(t(x, deg), dtype=float)
                    V = np.column_stack([xs ** k for k in range(0, deg + 1)])
                    coef = np.linalg.lstsq(V, P0, rcond=None)[0]
                    for later in (x[:1], x[3:5], np.array([x[0], x[0], x[1]])):
                        ls_ = (later - x.mean()) / (x.std() or 1.0)
                        want = np.column_stack([ls_ ** k for k in range(0, deg + 1)]) @ coef
                        got = np.asarray(t(later, deg), dtype=float).reshape(len(later), -1)
                        if got.shape != want.shape or not np.allclose(got, want, atol=max(1e-6, tol * 100)):
                            err = f"later data ({len(later)} rows) are not mapped by the polynomials fitted on the training data"
                            break
                    Rl = np.asarray(Polynomial()(x[:1], deg, raw=True), dtype=float).reshape(1, -1)
                    if err is None and not np.allclose(Rl, [[x[0] ** k for k in range(1, deg + 1)]]):
                        err = "raw=True on a single row does not return the powers"
            except Exception as ex:
                err = f"raised {type(ex).__name__}: {ex}"
            out.append((tag, err or "ok"))
    return out


def check_through_design(rng):
    from formulae import design_matrices
    out = []
    n = 30
    d = pd.DataFrame({"y": rng.normal(size=n), "x": rng.uniform(0, 10, n), "z": rng.normal(size=n) * 4 + 20, "w": rng.uniform(100, 200, n)})
    for f, terms in (("y ~ poly(x, 2) + poly(z, 3)", ["poly(x, 2)", "poly(z, 3)"]), ("y ~ poly(z, 3) + poly(x, 2) + poly(w, 2)", None),
                     ("y ~ 0 + poly(w, 4)", None)):
        for rep in range(2):
            try:
                dm = design_matrices(f, d)
                err = None
                for name in dm.common.terms:
                    if not name.startswith("poly"):
                        continue
                    P = np.asarray(dm.common[name], dtype=float)
                    k = P.shape[1]
                    if not np.allclose(P.T @ P, np.eye(k), atol=1e-6) or not np.allclose(P.sum(axis=0), 0, atol=1e-6):
                        err = f"term {name} is not orthonormal / orthogonal to the constant on its own training data"
            except Exception as ex:
                err = f"raised {type(ex).__name__}: {ex}"
            out.append((f"{f} (build {rep + 1})", err or "ok"))
    for f in ("y ~ bs(x, df=5)", "y ~ bs(x, df=6, degree=2, intercept=True)", "y ~ bs(x, knots=kn)"):
        kn = [2.5, 5.0, 7.5]    # noqa: F841
        try:
            dm = design_matrices(f, d)
            B = np.asarray(dm.common[list(dm.common.terms)[-1]], dtype=float)
            want = {"y ~ bs(x, df=5)": 5, "y ~ bs(x, df=6, degree=2, intercept=True)": 6, "y ~ bs(x, knots=kn)": 6}[f]
            err = None if B.shape[1] == want and (B >= -1e-12).all() else f"{B.shape[1]} columns (expected {want}) or negative values"
        except Exception as ex:
            err = f"raised {type(ex).__name__}: {ex}"
        out.append((f, err or "ok"))
    return out


def PROOFS():
    from ..contracts import transforms_c
    T = "formulae.transforms."
    return [("vf.contracts.transforms_c", [T + "Center.__call__", T + "Scale.__call__", T + "BSpline.__call__", T + "BSpline._initialize", T + "BSpline.eval",
                                           T + "Polynomial.__init__"]),
            ("vf.contracts.lemmas_c", ["vf.proplemmas.c06.bspline_rows"])]


def run(report, findings):
    checklib.run_proofs(report, "C14", PROOFS())
    import logging
    import warnings
    logging.getLogger("formulae").setLevel(logging.CRITICAL)
    warnings.simplefilter("ignore")
    reps = 1 if report.tier == "quick" else 8
    res = []
    for i in range(reps):
        rng = np.random.default_rng(common.seed() + i)
        res += check_center_scale(rng) + check_bs(rng) + check_poly(rng) + check_through_design(rng) + check_raw_integer_training()
    evals = ok = bad = 0
    fk = {f["id"] for f in findings if f.get("kind") == "finding"}
    for tag, sig in res:
        evals += 1
        if sig == "ok":
            ok += 1
            continue
        if sig.startswith("known:") and sig.split()[0][6:] in fk:
            fid = sig.split()[0][6:]
            report.known_hits[fid] = report.known_hits.get(fid, 0) + 1
            continue
        bad += 1
        if bad <= 10:
            report.violation(f"{tag}: {sig}", {"case": tag, "error": sig, "seed": common.seed()})
    report.coverage.update({
        "evaluations": evals, "distinct_nontrivial": ok,
        "rule": "generated vectors (ties, large offsets, small n, negative) x parameter grids: center/scale/standardize identities and frozen "
                "affine map; bs df x knots x degree 0..5 x intercept x bounds (incl. 0) with shape, non-negativity, partition of unity and "
                "refusals; poly degree 1..6 orthonormality, span, raw powers; several poly/bs terms in one design",
        "samples": [r[0] for r in res[:3]] + [r[0] for r in res[60:63]]})
    report.assumptions = list(dict.fromkeys(list(report.assumptions) + ["numeric identities are checked to tolerance (1e-9 .. 1e-6), not exactly: floating point"]))

"""C03 - common-effects matrix has full column rank and spans exactly the model space."""
import gzip
import itertools
import json
import os
import random

import numpy as np

from .. import common
from ..rtc import par

LEVEL = "exploration"
KNOWN = os.path.join(common.ROOT, "known", "C03_failing.json.gz")
VARS = ["f", "g", "h", "x", "z"]
KINDS = {"f": "cat", "g": "cat", "h": "cat", "x": "num", "z": "num"}
ATOM_VARIANTS = {"f": ["C(f)", "T(f, 'b')", "S(f)", "C(f, Sum)"], "x": ["scale(x)", "center(x)", "np.exp(x)"]}


def all_terms():
    out = []
    for r in (1, 2, 3):
        for comb in itertools.combinations(VARS, r):
            out.extend(itertools.permutations(comb))
    return out


def universe(tier):
    """Deterministic family of term lists (independent of VERIF_SEED, so that the committed list of
    known failing inputs refers to a fixed set of inputs)."""
    terms = all_terms()
    fams = [(t,) for t in terms]
    fams += [p for p in itertools.permutations(terms, 2) if frozenset(p[0]) != frozenset(p[1])]
    rnd = random.Random(20260926)
    n3 = 5000 if tier == "quick" else 40000
    seen = set()
    while len(seen) < n3:
        fam = tuple(rnd.sample(terms, 3))
        if len({frozenset(t) for t in fam}) == 3:
            seen.add(fam)
    fams += sorted(seen)
    # four two-level factors: all families of main effects and two-way interactions
    return fams


# operator spellings: the same families written with / * ** (these operators put one Variable object into several terms,
# so a coding chosen for one term must not leak into another); the family is the set-semantics expansion of the text
OPFORMS = ["f/g", "f/g/h", "f/(g + h)", "f/x", "x/f", "(f + g)**2", "(f + g + h)**2", "(f + g + h)**3", "f*g", "f*g*h", "f*g*h - f:g",
           "f*x", "f*g + x", "f*g*x", "(f + x)**2", "f/g + h", "f/(g + x)", "g/f", "(g + h)**2", "h*g*f", "f/h/g", "f*g - f", "x*z*f"]


def op_family(rhs):
    from formulae.scanner import Scanner
    from formulae.parser import Parser
    from ..rtc.algebra import ev
    terms, icpt = ev(Parser(Scanner(rhs).scan(False)).parse())
    return tuple(tuple(str(v) for v in t) for t in terms), icpt != -1


def formula_of(fam, icpt, rename=None):
    def nm(v):
        return rename.get(v, v) if rename else v
    return "y ~ " + ("" if icpt else "0 + ") + " + ".join(":".join(nm(v) for v in t) for t in fam)


def evaluate(formula, fam, icpt, d):
    from formulae import design_matrices
    from ..rtc.designs import model_space, failure_signature
    from ..rtc.gen import rank, same_span
    try:
        X = design_matrices(formula, d).common.design_matrix
    except Exception as ex:
        return failure_signature(ex)
    X = np.asarray(X, dtype=float).reshape(len(d), -1)
    M = model_space(d, fam, KINDS, icpt)
    if not np.isfinite(X).all():
        return "span"
    if rank(X) != X.shape[1]:
        return "rank-deficient"
    if not same_span(X, M):
        return "span"
    return "ok"


def _chunk(task):
    import logging
    import warnings
    fams, seed = task
    from ..rtc.gen import factorial_frame
    logging.getLogger("formulae").setLevel(logging.CRITICAL)
    warnings.simplefilter("ignore")
    rng = np.random.default_rng(seed)
    d = factorial_frame(rng, {"f": ["a", "b", "c"], "g": ["u", "v"], "h": ["p", "q", "r"]}, reps=3)
    out = {}
    for fam in fams:
        rnd = random.Random(repr(fam))   # independent of VERIF_SEED: the input family is fixed
        for icpt in (True, False):
            f = formula_of(fam, icpt)
            out[f] = evaluate(f, fam, icpt, d)
        # the same family with C/T/S/transform atoms must span the same space
        used = sorted({v for t in fam for v in t})
        ren = {}
        for v in used:
            if v in ATOM_VARIANTS and rnd.random() < 0.5:
                ren[v] = rnd.choice(ATOM_VARIANTS[v])
        if ren and rnd.random() < 0.3:
            f = formula_of(fam, True, ren)
            out[f] = evaluate(f, fam, True, d)
    return out


def _op_chunk(task):
    import logging
    import warnings
    rhss, seed = task
    from ..rtc.gen import factorial_frame
    logging.getLogger("formulae").setLevel(logging.CRITICAL)
    warnings.simplefilter("ignore")
    rng = np.random.default_rng(seed)
    d = factorial_frame(rng, {"f": ["a", "b", "c"], "g": ["u", "v"], "h": ["p", "q", "r"]}, reps=3)
    out = {}
    for rhs in rhss:
        fam, icpt = op_family(rhs)
        out["y ~ " + rhs] = evaluate("y ~ " + rhs, fam, icpt, d)
    return out


# the same formula on several data sets in one process: the design of EVERY data set spans that data set's model space (transforms that
# estimate parameters are estimated from the data at hand). (rhs, family over the derived columns, intercept, {derived column: recipe})
STATEFUL = [
    ("0 + f:scale(x)", [("f", "x_s")], False), ("0 + scale(x) + g:z", [("x_s",), ("g", "z")], False),
    ("0 + g:center(z) + x", [("g", "z_c"), ("x",)], False), ("0 + center(x)", [("x_c",)], False), ("scale(x) + f", [("x",), ("f",)], True),
    ("0 + poly(x, 2) + g:z", [("x_p1",), ("x_p2",), ("g", "z")], False), ("0 + f:center(x) + center(z)", [("f", "x_c"), ("z_c",)], False),
]
STATEFUL += [   # calls of one user function that differ only in a keyword value / in one positional value are different columns
    ("0 + pw(x, p=2) + pw(x, p=3)", [("x_q2",), ("x_q3",)], False), ("0 + f:pw(x, p=2) + f:pw(x, p=3)", [("f", "x_q2"), ("f", "x_q3")], False),
    ("0 + pw(x, 2) + pw(x, 3)", [("x_q2",), ("x_q3",)], False), ("pw(x, p=2):g + pw(x, p=3)", [("x_q2", "g"), ("x_q3",)], True),
]
STATEFUL += [   # a factor with a single level in the data adds nothing next to an intercept or a fully coded factor; two poly() terms
    ("g1", [("g1",)], True), ("x + g1", [("x",), ("g1",)], True), ("f + g1", [("f",), ("g1",)], True), ("C(g1) + x", [("g1",), ("x",)], True),
    ("0 + f + g1", [("f",), ("g1",)], False), ("0 + g1 + x", [("g1",), ("x",)], False),
    ("0 + poly(x, 2) + poly(z, 2)", [("x_p1",), ("x_p2",), ("z_p1",), ("z_p2",)], False), ("0 + poly(z, 3) + poly(x, 2)", [("z_p1",), ("z_p2",), ("z_p3",), ("x_p1",), ("x_p2",)], False),
]
STATEFUL += [("0 + f:scale(xi)", [("f", "xi_s")], False), ("0 + scale(xb) + g:z", [("xb_s",), ("g", "z")], False), ("0 + scale(xi)", [("xi_s",)], False)]
KINDS2 = dict(KINDS, xi_s="num", xb_s="num", x_s="num", x_c="num", z_c="num", x_p1="num", x_p2="num", x_q2="num", x_q3="num", g1="cat", z_p1="num", z_p2="num", z_p3="num")


def pw(v, p=1):
    return v ** p


def _derived(d):
    e = d.copy()
    e["x_s"] = (d["x"] - d["x"].mean()) / d["x"].std()
    e["x_c"] = d["x"] - d["x"].mean()
    e["z_c"] = d["z"] - d["z"].mean()
    e["x_p1"] = d["x"] - d["x"].mean()                          # orthogonal polynomials of degree 1, 2 span the centred x, x^2
    e["x_p2"] = d["x"] ** 2 - (d["x"] ** 2).mean()
    e["g1"] = "only"
    for c_ in ("xi", "xb"):
        v_ = d[c_].astype(float)
        e[c_ + "_s"] = (v_ - v_.mean()) / v_.std()
    for k_ in (1, 2, 3):
        e[f"z_p{k_}"] = d["z"] ** k_ - (d["z"] ** k_).mean()
    e["x_q2"] = d["x"] ** 2
    e["x_q3"] = d["x"] ** 3
    return e


def _stateful_chunk(task):
    import logging
    import warnings
    items, seed = task
    from formulae import design_matrices
    from ..rtc.designs import model_space, failure_signature
    from ..rtc.gen import factorial_frame, rank, same_span
    logging.getLogger("formulae").setLevel(logging.CRITICAL)
    warnings.simplefilter("ignore")
    rng = np.random.default_rng(seed)
    d0 = factorial_frame(rng, {"f": ["a", "b", "c"], "g": ["u", "v"], "h": ["p", "q", "r"]}, reps=3)
    d0["g1"] = "only"
    d0["xi"] = (300 + 40 * d0["x"]).round().astype(np.int16)        # squares of these do not fit the column's own dtype
    d0["xb"] = 1.7e12 + d0["x"]                                      # far from zero: the spread is 12 digits below the level
    d1, d2 = d0.copy(), d0.copy()
    d1["x"] = d0["x"] * 3 + 10
    d1["z"] = d0["z"] ** 2 + 1
    d2["x"] = np.exp(d0["x"] / (1 + np.abs(d0["x"]).max()))
    d2["z"] = d0["z"] - 50
    out = {}
    for rhs, fam, icpt in items:
        for k, d in enumerate((d0, d1, d2)):
            key = f"y ~ {rhs}  [data set {k + 1} of 3 evaluated in one process]"
            try:
                X = np.asarray(design_matrices("y ~ " + rhs, d).common.design_matrix, dtype=float).reshape(len(d), -1)
            except Exception as ex:
                out[key] = failure_signature(ex)
                continue
            M = model_space(_derived(d), fam, KINDS2, icpt)
            if not np.isfinite(X).all():
                out[key] = "span"           # (NaN / inf columns span nothing)
                continue
            out[key] = "rank-deficient" if rank(X) != X.shape[1] else "ok" if same_span(X, M) else "span"
    return out


def results(tier, seed):
    fams = universe(tier)
    chunks = [(fams[i::128], seed) for i in range(128)]
    merged = {}
    for r in par.pmap(_chunk, chunks):
        merged.update(r)
    ops = OPFORMS + ["0 + " + r for r in OPFORMS]
    for r in par.pmap(_op_chunk, [(ops[i::16], seed) for i in range(16)]):
        merged.update(r)
    for r in par.pmap(_stateful_chunk, [([it], seed) for it in STATEFUL]):
        merged.update(r)
    return merged


def make_known():
    """Maintenance only (never run by a check): record the inputs that fail on the pinned tree."""
    res = results("thorough", 0)
    known = {f: s for f, s in res.items() if s != "ok"}
    with gzip.open(KNOWN, "wt") as fh:
        json.dump(known, fh, sort_keys=True)
    print(len(res), "inputs,", len(known), "failing")


FINDING_OF = {"IndexError@eval": "C03-empty-coding", "span": "C03-lost-dimensions",
              "rank-deficient": "C03-redundant-columns"}


def PROOFS():
    """The per-factor part of the coding under contract: a factor evaluated with spans_intercept gets the full indicator
    coding, otherwise the reduced one, chosen afresh at every evaluation. Of the redundancy analysis of contrasts.py that decides
    spans_intercept per term, the identity layer (ExpandedFactor / Subterm equality and hashing: what 'already used' means) and the
    absorption step (can_absorb / absorb) are under contract; its loops (pick_contrast, _simplify_subterm, _sorted_subsets) are not:
    bounded tier only."""
    from ..contracts import categorical_c, variable_c, utils_c, matrices_c, call_resolver_c, transforms_c, contrasts_c, lemmas_c, terms_c  # noqa: F401
    return [("vf.contracts.categorical_c", categorical_c.FUNCTIONS),
            ("vf.contracts.contrasts_c", contrasts_c.FUNCTIONS),
            # helper terms are assembled from the term's components picked by name (create_extra_term): the first component of that name
            ("vf.contracts.terms_c", ["formulae.terms.terms.Term.get_component", "formulae.terms.terms.Term.set_type"]),
            # the pair step of the simplification: can_absorb's guarantee is absorb's precondition; nothing of the shorter subterm is lost
            ("vf.contracts.lemmas_c", ["vf.proplemmas.c03.merge_step"]),
            # columns of an interaction are the pairwise products; the matrix is the terms' blocks side by side, one term per name
            ("vf.contracts.utils_c", utils_c.FUNCTIONS),
            ("vf.contracts.matrices_c", ["formulae.matrices.CommonEffectsMatrix.__init__", "formulae.matrices.CommonEffectsMatrix.evaluate"]),
            # every poly() term has its own parameter memo
            ("vf.contracts.transforms_c", ["formulae.transforms.Polynomial.__init__"]),
            # which columns exist at all: two call terms are one term only if callee, arguments and keyword VALUES are equal
            ("vf.contracts.call_resolver_c", ["formulae.terms.call_resolver." + c for c in (
                "LazyCall.__eq__", "LazyOperator.__eq__", "LazyValue.__eq__", "LazyVariable.__eq__", "LazyCall.__eq__#other", "LazyOperator.__eq__#other")]),
            ("vf.contracts.variable_c", ["formulae.terms.variable.Variable.eval_categoric", "formulae.terms.call.Call.eval_categoric"])]


def run(report, findings):
    from .. import checklib
    checklib.run_proofs(report, "C03", PROOFS())
    with gzip.open(KNOWN, "rt") as fh:
        known = json.load(fh)
    fk = {f["id"] for f in findings if f.get("kind") == "finding"}
    res = results(report.tier, common.seed())
    bad = 0
    ok = 0
    shown = 0
    for f, sig in sorted(res.items()):
        if sig == "ok":
            ok += 1
            continue
        fid = FINDING_OF.get(sig, "C03-helper-term-" + sig)
        if known.get(f) == sig and fid in fk:
            report.known_hits[fid] = report.known_hits.get(fid, 0) + 1
            continue
        bad += 1
        if shown < 10:
            shown += 1
            was = known.get(f)
            report.violation(f"formula {f!r} on complete factorial data: {sig}" + (f" (listed finding has signature {was})" if was else ""),
                             {"formula": f, "signature": sig, "data": "factorial f(3) x g(2) x h(3), 3 replicates, numeric x z in general position, seed %d" % common.seed()})
    keys = sorted(res)
    report.coverage.update({
        "evaluations": len(res), "distinct_nontrivial": ok,
        "rule": "distinct formulas (families of 1, 2 and sampled 3 terms over f g h x z in every term and factor order, with and "
                "without intercept, plus C/T/S/scale/center atom variants); non-trivial = the design was built and full rank "
                "and span were compared numerically with the complete-indicator model space",
        "samples": keys[:2] + keys[len(keys) // 2: len(keys) // 2 + 2] + keys[-2:],
        "known_failing_inputs_listed": len(known), "new_failures": bad,
    })
    report.assumptions = list(dict.fromkeys(list(report.assumptions) + ["rank / column-space comparison is numeric (SVD, least squares, tol 1e-8)",
                          "the enumerated family is fixed; only the numeric data depend on VERIF_SEED"]))

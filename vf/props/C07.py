"""C07 - designs are isolated: no state leaks across evaluations, designs or calls."""
import itertools
import multiprocessing as mp
import random

import numpy as np
import pandas as pd

from .. import common, checklib

LEVEL = "exploration"

FORMULAS = ["y ~ x + f", "y ~ scale(x) + (x|g)", "y ~ poly(x, 2) + (1|g) + (1|h)", "y ~ center(x):f + (0 + f|g)",
            "y ~ bs(x, df=4) + z", "y ~ x + (x|g) + (1|h)", "y ~ x", "y ~ poly(x, 2) + poly(z, 3)",
            # s is symmetric around 0 in the training frames: a stored parameter that is exactly 0.0
            "y ~ poly(s, 2) + x", "y ~ center(s) + poly(s, 3)",
            # a categorical inside a call (the unseen-level policy applies at every evaluation of it)
            "y ~ C(g) + x + (1|C(h))",
            # a callee reached through a name that each call binds to its own object (extra_namespace, see do_build)
            "y ~ tr.f(x) + (tr.f(x)|g)"]
MODES = ["error", "warning", "silent"]


def frames():
    rng = np.random.default_rng(11)
    n = 20
    a = pd.DataFrame({"y": rng.normal(size=n), "x": rng.normal(size=n) * 2 + 5, "z": rng.uniform(1, 4, size=n),
                      "f": list("abc" * 7)[:n], "g": list("uvw" * 7)[:n], "h": list("pq" * 10)[:n]})
    b = pd.DataFrame({"y": rng.normal(size=n), "x": rng.normal(size=n) * 7 - 3, "z": rng.uniform(10, 40, size=n),
                      "f": list("cab" * 7)[:n], "g": list("wvu" * 7)[:n], "h": list("qp" * 10)[:n]})
    half = np.arange(n // 2) + 0.5
    a["s"] = np.concatenate([half, -half])
    b["s"] = np.concatenate([-2 * half, 2 * half])[::-1]
    b.loc[3, "z"] = np.nan
    b.index = [f"r{i}" for i in range(n)]
    c = pd.DataFrame({"y": rng.normal(size=12), "x": rng.normal(size=12)})
    c.loc[[2, 7], "x"] = np.nan                       # every column is used by 'y ~ x'
    new1 = a.iloc[[0, 5, 7]].reset_index(drop=True)
    new2 = b.iloc[[1, 2, 8, 9]].copy()
    new3 = a.iloc[[1, 2, 3, 4]].copy()
    new3["g"] = ["u", "NEW", "v", "NEW2"]             # unseen groups
    new3["h"] = ["p", "q", "p", "q"]
    new4 = a.iloc[[2, 4, 6]].copy()
    new4["h"] = ["p", "Z", "q"]                       # unseen group in the last factor only
    return {"A": a, "B": b, "C": c}, {"n1": new1, "n2": new2, "n3": new3, "n4": new4}


def observe(m):
    if m is None:
        return None
    out = {"X": np.array(m.design_matrix, dtype=float, copy=True)}
    if hasattr(m, "slices"):
        out["slices"] = {k: (v.start, v.stop) for k, v in m.slices.items()}
        out["sub"] = {}
        for k in m.slices:
            try:
                out["sub"][k] = np.array(m[k], dtype=float, copy=True)
            except Exception as ex:     # noqa
                out["sub"][k] = f"raise {type(ex).__name__}"
    if hasattr(m, "factors_with_new_levels"):
        out["fnl"] = tuple(m.factors_with_new_levels)
    if hasattr(m, "terms") and isinstance(m.terms, dict):
        out["groups"] = {k: list(getattr(t, "groups", None) or []) for k, t in m.terms.items()}
    return out


def same(a, b):
    if type(a) is not type(b):
        return False
    if isinstance(a, dict):
        return a.keys() == b.keys() and all(same(a[k], b[k]) for k in a)
    if isinstance(a, np.ndarray):
        return a.shape == b.shape and np.allclose(a, b, rtol=0, atol=1e-10, equal_nan=True)
    return a == b


def frame_sig(d):
    # NaN-safe: textual rendering of the values plus dtypes, index and column order
    return (d.to_csv(float_format="%.17g"), list(d.dtypes.astype(str)), [repr(i) for i in d.index], list(d.columns))


def do_build(formula, d):
    from formulae import design_matrices
    from types import SimpleNamespace
    # 'tr' is bound per call: to tanh-like functions that differ with the frame (told apart by its number of rows / its index)
    tr = SimpleNamespace(f=np.tanh if isinstance(d.index[0], str) else np.arctan)
    try:
        dm = design_matrices(formula, d, extra_namespace={"tr": tr})
    except Exception as ex:
        return None, f"raise {type(ex).__name__}"
    return dm, {"response": observe(dm.response), "common": observe(dm.common), "group": observe(dm.group)}


def do_eval(dm, part, new):
    import warnings
    m = getattr(dm, part)
    if m is None:
        return None, "absent"
    with warnings.catch_warnings(record=True) as w:
        warnings.simplefilter("always")
        try:
            r = m.evaluate_new_data(new)
        except Exception as ex:
            return None, f"raise {type(ex).__name__}"
    return r, {"obs": observe(r), "warned": any("not present in the" in str(x.message) for x in w)}


def _reference(task):
    """Executed in a pristine child process: the operation without any history."""
    import logging
    import warnings
    import formulae
    logging.getLogger("formulae").setLevel(logging.CRITICAL)
    warnings.simplefilter("ignore")
    fr, nw = frames()
    kind, fi, dk, part, nk, mode = task
    formulae.config["EVAL_UNSEEN_CATEGORIES"] = mode
    dm, b = do_build(FORMULAS[fi], fr[dk].copy())
    if kind == "build":
        return b
    if dm is None:
        return "no-design"
    return do_eval(dm, part, nw[nk].copy())[1]


class RefCache:
    def __init__(self):
        self.cache = {}
        self.pool = mp.get_context("fork").Pool(8, maxtasksperchild=1)

    def get_many(self, tasks):
        todo = [t for t in dict.fromkeys(tasks) if t not in self.cache]
        for t, r in zip(todo, self.pool.map(_reference, todo, chunksize=1)):
            self.cache[t] = r

    def close(self):
        self.pool.terminate()


def gen_sequence(rnd, length):
    seq = []
    ndesigns = 0
    for _ in range(length):
        r = rnd.random()
        if ndesigns == 0 or r < 0.3:
            seq.append(("build", rnd.randrange(len(FORMULAS)), rnd.choice(["A", "A", "B", "C"])))
            ndesigns += 1
        elif r < 0.45:
            seq.append(("config", rnd.choice(MODES)))
        else:
            seq.append(("eval", rnd.randrange(ndesigns), rnd.choice(["common", "group"]), rnd.choice(["n1", "n2", "n3", "n4"])))
    return seq


TARGETED = [
    [("config", "silent"), ("build", 10, "A"), ("eval", 0, "common", "n3"), ("config", "error"), ("eval", 0, "common", "n3"),
     ("config", "warning"), ("eval", 0, "common", "n3"), ("eval", 0, "group", "n4"), ("config", "error"), ("eval", 0, "group", "n4")],
    [("build", 11, "A"), ("build", 11, "B"), ("eval", 1, "common", "n2"), ("eval", 0, "common", "n1"), ("eval", 1, "group", "n2")],
    [("build", 11, "B"), ("build", 11, "A"), ("eval", 1, "common", "n1"), ("eval", 0, "group", "n2")],
    [("build", 6, "C"), ("build", 6, "C")],
    [("config", "silent"), ("build", 5, "A"), ("eval", 0, "group", "n3"), ("eval", 0, "group", "n1"), ("eval", 0, "group", "n4")],
    [("config", "silent"), ("build", 2, "A"), ("eval", 0, "group", "n4"), ("eval", 0, "group", "n3"), ("build", 2, "A")],
    [("build", 7, "A"), ("build", 7, "B"), ("eval", 0, "common", "n2"), ("eval", 1, "common", "n1")],
    [("build", 1, "A"), ("eval", 0, "common", "n2"), ("build", 1, "B"), ("eval", 0, "common", "n1"), ("eval", 1, "common", "n1")],
    [("config", "warning"), ("build", 3, "A"), ("eval", 0, "group", "n3"), ("config", "error"), ("eval", 0, "group", "n3"),
     ("config", "silent"), ("eval", 0, "group", "n3")],
]


def run_sequence(seq, refs, report_fn):
    import formulae
    fr, nw = frames()
    sigs = {k: frame_sig(v) for k, v in fr.items()}
    nsigs = {k: frame_sig(v) for k, v in nw.items()}
    formulae.config["EVAL_UNSEEN_CATEGORIES"] = "error"
    mode = "error"
    designs = []      # (dm, formula index, frame key, observation at build)
    results = []      # (result object, observation)
    checks = 0
    for step, op in enumerate(seq):
        if op[0] == "config":
            mode = op[1]
            formulae.config["EVAL_UNSEEN_CATEGORIES"] = mode
        elif op[0] == "build":
            dm, b = do_build(FORMULAS[op[1]], fr[op[2]])
            ref = refs.cache[("build", op[1], op[2], None, None, mode)]
            checks += 1
            if not same(b, ref):
                report_fn(seq, step, f"build of {FORMULAS[op[1]]!r} on frame {op[2]} differs from the same call in a fresh process")
            designs.append((dm, op[1], op[2], b))
        else:
            dm, fi, dk, b = designs[op[1]]
            if dm is None:
                continue
            r, o = do_eval(dm, op[2], nw[op[3]])
            ref = refs.cache[("eval", fi, dk, op[2], op[3], mode)]
            checks += 1
            if not same(o, ref):
                report_fn(seq, step, f"{op[2]}.evaluate_new_data({op[3]}) of {FORMULAS[fi]!r} (mode {mode}) depends on history")
            if r is not None:
                results.append((r, o))
        # nothing that existed before may have changed
        for k in fr:
            checks += 1
            if frame_sig(fr[k]) != sigs[k]:
                report_fn(seq, step, f"caller's DataFrame {k} was modified")
                sigs[k] = frame_sig(fr[k])
        for k in nw:
            if frame_sig(nw[k]) != nsigs[k]:
                report_fn(seq, step, f"caller's new-data frame {k} was modified")
                nsigs[k] = frame_sig(nw[k])
        for dm, fi, dk, b in designs:
            if dm is None:
                continue
            now = {"response": observe(dm.response), "common": observe(dm.common), "group": observe(dm.group)}
            checks += 1
            if not same(now, b):
                report_fn(seq, step, f"an existing design ({FORMULAS[fi]!r} on {dk}) changed after a later operation")
        for r, o in results:
            checks += 1
            if not same(observe(r), o["obs"]):
                report_fn(seq, step, "an earlier evaluate_new_data result changed after a later operation")
    formulae.config["EVAL_UNSEEN_CATEGORIES"] = "error"
    return checks


def needed_refs(seq):
    mode = "error"
    designs = []
    out = []
    for op in seq:
        if op[0] == "config":
            mode = op[1]
        elif op[0] == "build":
            out.append(("build", op[1], op[2], None, None, mode))
            designs.append((op[1], op[2]))
        else:
            fi, dk = designs[op[1]]
            out.append(("eval", fi, dk, op[2], op[3], mode))
    return out


def PROOFS():
    from ..contracts import call_resolver_c, transforms_c, variable_c, config_c, matrices_c, environment_c   # noqa: F401
    T = "formulae.transforms."
    return [("vf.contracts.call_resolver_c", ["formulae.terms.call_resolver.LazyCall.eval"]),
            # evaluating new data leaves the training object untouched and returns a fresh object (frame obligations)
            ("vf.contracts.matrices_c", ["formulae.matrices.CommonEffectsMatrix.evaluate_new_data", "formulae.matrices.GroupEffectsMatrix.evaluate_new_data",
                                         "formulae.matrices.CommonEffectsMatrix.evaluate", "formulae.matrices.GroupEffectsMatrix.evaluate"]),
            ("vf.contracts.transforms_c", [T + "Center.__call__", T + "Scale.__call__", T + "BSpline.__call__", T + "Polynomial.__init__",
                                           T + "BSpline._initialize"]),       # (frame: the caller's knots / bounds are only read)
            ("vf.contracts.environment_c", ["formulae.environment.Environment.with_outer_namespace", "formulae.environment.Environment.__init__"]),
            ("vf.contracts.variable_c", [f for f in variable_c.FUNCTIONS if f.endswith("eval_new_data_categoric")]), ("vf.contracts.config_c", config_c.FUNCTIONS),
            ("vf.contracts.design_c", ["formulae.matrices.design_matrices"])]


def run(report, findings):
    checklib.run_proofs(report, "C07", PROOFS())
    rnd = random.Random(common.seed())
    nseq = 120 if report.tier == "quick" else 1500
    seqs = list(TARGETED)
    # short sequences enumerated over a reduced pool, longer ones sampled
    for fi, dk, part, nk in itertools.product(range(len(FORMULAS)), ["A", "B"], ["common", "group"], ["n1", "n3"]):
        seqs.append([("config", "silent"), ("build", fi, dk), ("eval", 0, part, nk), ("eval", 0, part, "n1")])
    for _ in range(nseq):
        seqs.append(gen_sequence(rnd, rnd.randint(3, 10)))
    refs = RefCache()
    try:
        refs.get_many([t for s in seqs for t in needed_refs(s)])
    finally:
        refs.close()
    bad = []

    def rep(seq, step, msg):
        if len(bad) < 10:
            bad.append(1)
            report.violation(f"history step {step}: {msg}", {"sequence": seq, "step": step, "message": msg})
    checks = 0
    for s in seqs:
        checks += run_sequence(s, refs, rep)
    report.coverage.update({
        "evaluations": checks, "distinct_nontrivial": len({repr(s) for s in seqs}),
        "rule": "operation sequences (build-design / evaluate-common / evaluate-group / set-config) over 8 formulas, 3 training frames "
                "and 4 new frames; every step is compared with the same operation in a pristine forked process, and after every step "
                "all existing designs, earlier results and the caller's frames are compared with their snapshots; distinct = distinct sequences",
        "samples": [TARGETED[1], seqs[-1]], "reference_operations": len(refs.cache)})
    report.assumptions = list(dict.fromkeys(list(report.assumptions) + ["'fresh process-state' is a forked child that has imported formulae but executed no operation",
                          "user callables reached from formulas are not part of the pool"]))

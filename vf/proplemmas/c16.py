"""Property lemma for C16: a constant offset, end to end - construct, size, evaluate - is the constant broadcast to one column."""
from formulae.transforms import Offset


def constant_offset(x, size):
    o = Offset(x)
    o.set_size(size)
    return o.eval()

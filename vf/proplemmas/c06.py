"""Property lemmas for C06 (new data reproduces the training encoding): harness functions that only call the real
functions; pyvc verifies them with every callee replaced by its contract, so each lemma is a consequence of the
contracts proved on the real code (and fails when one of those contracts can no longer carry it)."""
from .helpers import take_rows


def center_rows(t, x, rows):
    """A Center transform fitted on x maps any selection of rows of x to the same rows of the training result."""
    train = t(x)
    new = t(x[rows])
    return train, new


def scale_rows(t, x, rows):
    """The same for Scale (scale / standardize)."""
    train = t(x)
    new = t(x[rows])
    return train, new


def categoric_rows(v, x, spans_intercept, rows):
    """A categorical factor evaluated on a frame, then on any selection of rows of that frame: the new rows are exactly the
    training rows (no level of the selection is unseen, nothing is re-estimated)."""
    v.eval_categoric(x, spans_intercept)
    train = v.value
    new = v.eval_new_data_categoric(take_rows(x, rows))
    return train, new


def bspline_rows(t, x, rows, df, knots, degree, intercept, lower_bound, upper_bound):
    """A B-spline basis fitted on x (any valid parameters) and then applied to any selection of rows of x: the same basis values
    (knots and boundary knots are not re-estimated from the selection)."""
    train = t(x, df, knots, degree, intercept, lower_bound, upper_bound)
    new = t(x[rows])
    return train, new

"""Helpers of the property lemmas: executable on real objects, modelled symbolically in vf/contracts/lemmas_c.py."""


def take_rows(x, rows):
    """the rows `rows` (positions, any order, repeats allowed) of a Series"""
    return x.iloc[[int(r) for r in rows]]

"""Property lemma for C03 (redundancy analysis): the pair step of ExpandedTerm._simplify_subterm - absorb only after can_absorb -
composes: what can_absorb guarantees is what absorb requires, and whichever way the step goes nothing of the shorter subterm is lost."""


def merge_step(long, short):
    """the expanded factors that stand for `short` after the step: the merged subterm's when `long` can absorb it, its own otherwise"""
    if long.can_absorb(short):
        return long.absorb(short).efactors
    return short.efactors

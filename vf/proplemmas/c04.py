"""Property lemmas for C04 (every column holds what its label says)."""
from formulae.utils import get_interaction_matrix


def main_effect(v, x, spans_intercept):
    """A categorical factor: as many labels as columns, label j is name[level] and column j is the indicator of exactly
    that level."""
    v.eval_categoric(x, spans_intercept)
    return v.value, v.labels


def pair_interaction(a, b, xa, xb):
    """Two categorical factors, fully coded: column i * nb + j of their interaction is the product of the indicator of level i
    of the first and level j of the second (first factor slowest - the order itertools.product gives their labels)."""
    a.eval_categoric(xa, True)
    b.eval_categoric(xb, True)
    return get_interaction_matrix(a.value, b.value)

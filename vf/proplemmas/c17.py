"""Property lemma for C17 (the matrix containers are consistent): evaluating a matrix and then indexing it by a term's name
returns exactly that term's data - the slices, the stacked matrix and __getitem__ agree."""


def block_view(m, data, env, name, k):
    """k (ghost): the position of the term called `name`"""
    m.evaluate(data, env)
    return m[name]

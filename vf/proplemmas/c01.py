"""Property lemma for C01: the scanner's guarantee is exactly what the parser requires, so the two contracts compose."""
from formulae.scanner import Scanner
from formulae.parser import Parser


def scan_then_parse(code):
    """Whatever text the scanner accepts, the parser is called within its precondition; the tree covers the whole token list."""
    tokens = Scanner(code).scan()
    return Parser(tokens).parse()

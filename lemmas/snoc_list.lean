/-
  Lemmas used (as hypotheses) by the pyvc proof of CallResolver.visitCallExpr: a snoc list viewed by position.
  `len`, `nth`, `take` mirror the specification functions xl_len / xl_nth / xl_take of vf/contracts/resolver_c.py
  (on the empty list, and for negative positions, the z3 functions are unspecified; the lemmas do not speak about those).
  `all p` mirrors wf_args (p = wf_arg) and resolvable_args (p = "the item is resolvable").
-/
inductive SL (α : Type) where
  | nil : SL α
  | snoc : SL α → α → SL α

namespace SL
variable {α : Type}

def len : SL α → Int
  | nil => 0
  | snoc i _ => len i + 1

def nth [Inhabited α] : SL α → Int → α
  | nil, _ => default
  | snoc i x, k => if k ≥ len i then x else nth i k

def take : SL α → Int → SL α
  | nil, _ => nil
  | snoc i x, k => if len (snoc i x) ≤ k then snoc i x else take i k

def all (p : α → Prop) : SL α → Prop
  | nil => True
  | snoc i x => all p i ∧ p x

theorem len_nonneg (L : SL α) : 0 ≤ len L := by
  induction L with
  | nil => simp [len]
  | snoc i x ih => simp [len]; omega

theorem take_all (L : SL α) (k : Int) (h : len L ≤ k) : take L k = L := by
  cases L with
  | nil => rfl
  | snoc i x => simp [take, h]

theorem take_zero (L : SL α) : take L 0 = nil := by
  induction L with
  | nil => rfl
  | snoc i x ih =>
    have h := len_nonneg i
    have hn : ¬ (len (snoc i x) ≤ 0) := by simp [len]; omega
    simp [take, hn, ih]

theorem take_succ [Inhabited α] (L : SL α) (k : Int) (h0 : 0 ≤ k) (h1 : k < len L) :
    take L (k + 1) = snoc (take L k) (nth L k) := by
  induction L with
  | nil => simp [len] at h1; omega
  | snoc i x ih =>
    simp [len] at h1
    by_cases hk : k ≥ len i
    · have hk' : k = len i := by omega
      have a1 : len (snoc i x) ≤ k + 1 := by simp [len]; omega
      have a2 : ¬ (len (snoc i x) ≤ k) := by simp [len]; omega
      have a3 : take i k = i := take_all i k (by omega)
      simp [take, nth, a1, a2, a3, hk]
    · have hlt : k < len i := by omega
      have a1 : ¬ (len (snoc i x) ≤ k + 1) := by simp [len]; omega
      have a2 : ¬ (len (snoc i x) ≤ k) := by simp [len]; omega
      have ih' := ih hlt
      simp [take, nth, a1, a2, hk, ih']

theorem all_nth [Inhabited α] (p : α → Prop) (L : SL α) (k : Int) (h : all p L) (h0 : 0 ≤ k) (h1 : k < len L) :
    p (nth L k) := by
  induction L with
  | nil => simp [len] at h1; omega
  | snoc i x ih =>
    simp [len] at h1
    simp [all] at h
    by_cases hk : k ≥ len i
    · simp [nth, hk]; exact h.2
    · have hlt : k < len i := by omega
      simp [nth, hk]; exact ih h.1 hlt

end SL

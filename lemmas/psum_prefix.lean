/-
  Lemma used (as a hypothesis) by the pyvc proofs of GroupEffectsMatrix.evaluate_new_data:
  prefix sums depend only on the prefix of the width sequence.
  psum mirrors the specification function `psum` of vf/contracts/matrices_c.py.
-/
def psum (W : Nat → Int) : Nat → Int
  | 0 => 0
  | k + 1 => psum W k + W k

theorem psum_prefix (W1 W2 : Nat → Int) (k : Nat)
    (h : ∀ j : Nat, j < k → W1 j = W2 j) : psum W1 k = psum W2 k := by
  induction k with
  | zero => rfl
  | succ n ih =>
    have h1 : psum W1 n = psum W2 n := ih (fun j hj => h j (Nat.lt_succ_of_lt hj))
    have h2 : W1 n = W2 n := h n (Nat.lt_succ_self n)
    simp [psum, h1, h2]

/-- with non-negative widths the prefix sums are monotone (used for: every slice lies within the stacked matrix) -/
theorem psum_mono (W : Nat → Int) (hW : ∀ j : Nat, 0 ≤ W j) (i j : Nat) (h : i ≤ j) : psum W i ≤ psum W j := by
  induction j with
  | zero =>
    have : i = 0 := Nat.le_zero.mp h
    subst this
    exact Int.le_refl _
  | succ n ih =>
    by_cases hin : i ≤ n
    · have h1 := ih hin
      have h2 := hW n
      simp [psum]
      omega
    · have : i = n + 1 := by omega
      subst this
      exact Int.le_refl _

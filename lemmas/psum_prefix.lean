/-
  Lemma used (as a hypothesis) by the pyvc proofs of GroupEffectsMatrix.evaluate_new_data:
  prefix sums depend only on the prefix of the width sequence.
  psum mirrors the specification function `psum` of vf/contracts/matrices_c.py.
-/
def psum (W : Nat → Int) : Nat → Int
  | 0 => 0
  | k + 1 => psum W k + W k

theorem psum_prefix (W1 W2 : Nat → Int) (k : Nat)
    (h : ∀ j : Nat, j < k → W1 j = W2 j) : psum W1 k = psum W2 k := by
  induction k with
  | zero => rfl
  | succ n ih =>
    have h1 : psum W1 n = psum W2 n := ih (fun j hj => h j (Nat.lt_succ_of_lt hj))
    have h2 : W1 n = W2 n := h n (Nat.lt_succ_self n)
    simp [psum, h1, h2]

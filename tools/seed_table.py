"""Print the markdown seed table of DESIGN.md I.7 from seeded/*/meta.json and the output of tools/seed_matrix.sh."""
import json, os, re, sys
root = os.path.dirname(os.path.dirname(os.path.abspath(__file__)))
lines = {}
for l in open(sys.argv[1]):
    m = re.match(r"(\S+) exit=(\d+) proof-obligation-lines=(\d+) failing-input-lines=(\d+) :: (.*)", l)
    if m:
        lines[m.group(1)] = m.groups()[1:]
print("| seed | change | caught by | first line reported |\n|---|---|---|---|")
for s in sorted(os.listdir(os.path.join(root, "seeded"))):
    if s.startswith("_") or not os.path.isdir(os.path.join(root, "seeded", s)):
        continue
    meta = json.load(open(os.path.join(root, "seeded", s, "meta.json")))
    e, ob, inp, first = lines.get(s, ("?", "0", "0", "not run"))
    by = ("P" if int(ob) else "") + ("+" if int(ob) and int(inp) else "") + ("B" if int(inp) else "")
    if e != "1":
        by = f"MISSED (exit {e})"
    esc = lambda t: t.replace("|", "\\|")
    print(f"| {s} | {esc(meta['breaks'][:110])} | {by} | {esc(first[:120])} |")

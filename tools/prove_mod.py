"""Ad-hoc driver: prove all functions of a contract module and print a table."""
import sys, os, json, time
sys.path.insert(0, os.path.dirname(os.path.dirname(os.path.abspath(__file__))))
import vf.common
from vf.pyvc import prove
import importlib
mod = sys.argv[1]
only = sys.argv[2:] 
cm = importlib.import_module(mod)
fns = [f for f in cm.FUNCTIONS if not only or any(o in f for o in only)]
t0 = time.time()
recs = prove.verify_all(mod, fns)
for r in recs:
    tot = len([o for o in r["obligations"] if o["kind"] != "pre-sat"])
    ok = len([o for o in r["obligations"] if o["result"] == "proved"])
    print(f"{r['function']:55s} {r['status']:12s} paths={r['paths']:3d} {ok}/{tot}  {r['wall_s']}s", r.get("error", ""))
    if r.get("traceback"): print(r["traceback"])
    for o in r["obligations"]:
        if o["result"] not in ("proved", "sat-ok"):
            print("    ", o["result"], o["name"], o["ms"], "ms", (str(o["model"])[:300] if o["model"] and os.environ.get("SHOWMODEL") else ""))
print("wall", round(time.time() - t0, 1))

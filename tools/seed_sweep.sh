#!/bin/bash
# bounded tiers of all 17 checks under many VERIF_SEEDs (proof tier skipped: it does not depend on the seed). usage: seed_sweep.sh <from> <to>
cd "$(dirname "$0")/.."
mkdir -p /tmp/sweep
for sd in $(seq $1 $2); do
  bad=$( (seq -w 1 17 | xargs -P 8 -I{} sh -c "VERIF_NO_PROOFS=1 VERIF_SEED=$sd VERIF_EVIDENCE_DIR=/tmp/sweep/ev VERIF_REPLAY_DIR=/tmp/sweep/rp ./check C{} > /tmp/sweep/s${sd}_C{}.out 2>&1; echo \"C{}=\$?\"") | sort | grep -v "=0" | tr '\n' ' ')
  echo "seed $sd: $bad"
done
grep -h "CHECKER\|UNDEC\|what:" /tmp/sweep/s*_C*.out | cut -c1-220 | sort | uniq -c | sort -rn | head -30

#!/bin/bash
# Validate sub-agent patches: in a scratch worktree, the existing tests pass with the patch,
# the demo fails with it and passes without it. Usage: validate_seeds.sh <dir-with-patch_*.diff/demo_*.py> ...
set -u
W=$(mktemp -d /tmp/valwt.XXXX); rmdir $W
git -C /repo worktree add -q --detach $W HEAD
for d in "$@"; do
 for p in $d/patch_*.diff; do
  [ -f "$p" ] || continue
  b=$(basename $p .diff); k=${b#patch_}; demo=$d/demo_$k.py
  [ -f "$demo" ] || { echo "$k NO-DEMO"; continue; }
  cd $W; git checkout -q -- . ; git clean -fdq
  if ! git apply --check $p 2>/dev/null; then echo "$k PATCH-DOES-NOT-APPLY"; continue; fi
  cp $demo $W/demo_$k.py
  PYTHONPATH=$W /venv/bin/python demo_$k.py >/tmp/val_$k.orig.log 2>&1; o=$?
  git apply $p
  t=$(PYTHONPATH=$W /venv/bin/python -m pytest -q -p no:cacheprovider tests 2>&1 | tail -1)
  PYTHONPATH=$W /venv/bin/python demo_$k.py >/tmp/val_$k.mut.log 2>&1; m=$?
  git apply -R $p
  echo "$k orig_exit=$o mut_exit=$m tests='$t'"
 done
done
cd /; git -C /repo worktree remove --force $W

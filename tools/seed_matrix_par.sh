#!/bin/bash
# Parallel seed matrix: every seeded patch is applied in ITS OWN scratch worktree of /repo (never to /repo itself) and its property's
# quick check runs against that worktree (VERIF_REPO for the proofs, PYTHONPATH for everything that imports formulae), with evidence
# and replays redirected to scratch directories. usage: seed_matrix_par.sh [jobs] > MATRIX.txt
cd "$(dirname "$0")/.."
J=${1:-4}; PAT=${2:-*}
W=$(mktemp -d /tmp/smw.XXXX)
run_one() {
  s=$1; W=$2; p=${s%%_*}
  wt=$W/$s
  git -C /repo worktree add -q --detach $wt HEAD || { echo "$s WORKTREE-FAILED"; return; }
  if ! git -C $wt apply /verif/seeded/$s/patch.diff; then echo "$s PATCH-FAILED"; git -C /repo worktree remove --force $wt; return; fi
  mkdir -p $W/ev_$s $W/rp_$s
  VERIF_REPO=$wt PYTHONPATH=$wt VERIF_EVIDENCE_DIR=$W/ev_$s VERIF_REPLAY_DIR=$W/rp_$s ./check $p --tier quick > $W/$s.log 2>&1; e=$?
  ob=$(grep -c "what: obligation\|no longer within the verified subset" $W/$s.log); inp=$(grep "what:" $W/$s.log | grep -vc "what: obligation\|no longer within")
  echo "$s exit=$e proof-obligation-lines=$ob failing-input-lines=$inp :: $(grep -m1 'what:' $W/$s.log | cut -c9-170)"
  git -C /repo worktree remove --force $wt
}
export -f run_one
ls -d seeded/$PAT/ | grep -v "/_" | xargs -n1 basename | xargs -P $J -I{} bash -c "run_one {} $W" | sort
git -C /repo worktree prune
rm -rf $W

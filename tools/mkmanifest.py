"""Regenerates MANIFEST.json from the table below (edit the table, re-run, commit)."""
import json, os
ROOT = os.path.dirname(os.path.dirname(os.path.abspath(__file__)))
props = [json.loads(l) for l in open(os.path.join(ROOT, "properties.jsonl")) if l.strip()]
BOUNDED = "contracts of the property statement executed on the real public API over an enumerated input family (bounded stand-in, never counted as proved)"
PV = "contract-based deductive verification (own VC generator over the real source, z3) + bounded stand-in"
T = {
 "C01": ("proof", "Every function of formulae/parser.py (18; check/match/consume/listify inlined into their callers) is verified by pyvc against a contract transcribed from the documented grammar: the returned tree covers exactly the consumed token span (covers/size), is stratified by the documented precedence and left-associativity (strat), and Parser.parse consumes every token up to EOF - for token lists of any length, all obligations discharged by z3. Bounded tier: all strings over a 26-lexeme alphabet to length 4 (quick) / 5 (thorough) through the real scanner+parser with the same spec functions executed natively, whitespace variants, re-parse of the fully parenthesised form, must-reject list, random deep sentences.",
         "pyvc encoder + z3; Python-semantics assumptions listed in the evidence; the scanner is covered by the bounded tier only; unambiguity of the stratified grammar is a spec-level lemma corroborated by re-parsing; termination of the mutual recursion not proved", PV),
 "C10": ("proof", "Proved for all inputs: Config accepts exactly its documented key and values (4 functions); eval_new_data_categoric of Variable and Call implements the zero-row rule, raises iff a level is unseen in 'error' mode, warns iff 'warning', and leaves the stored contrast matrix untouched (fresh-write obligations); GroupSpecificTerm.eval_new_data keeps existing blocks (group indicator x effect, group slowest) and appends exactly one trailing block carrying the effect values of exactly the unseen rows; GroupEffectsMatrix.evaluate_new_data rebuilds contiguous slices from the new widths, names in factors_with_new_levels exactly the factors of the terms whose width changed (no repeats) and does not touch the training object. Bounded tier: 33 cases x placements x modes against a reference evaluation, 56 configuration stores.",
         "assumed external contracts for numpy / scipy.khatri_rao / pd.Categorical listed in the evidence; term objects are read-only references whose eval_new_data is a pure function; GroupEffectsMatrix.__init__ assumed; prefix-sum lemma checked in Lean; floats as reals", PV),
 "C11": ("proof", "Proved for any number of namespaces: VarLookupDict (first match wins, KeyError iff no namespace has the key, writes go to the private first dict), Environment.__init__/namespace/with_outer_namespace, Environment.capture (the frame env+reference+1 levels up provides locals then globals; ValueError iff the stack is shallower), LazyVariable.eval (data frame first, then the namespaces in order, KeyError otherwise - the composed lookup order), get_function_from_module (first namespace that has the head name, then successive getattr for dotted names). Bounded tier: every subset of {data, locals, globals, extra} x roles x name kinds x env 0..3 through nested callers on the real design_matrices.",
         "namespaces are dicts of opaque values; frames, getattr and str.split are uninterpreted functions; the two glue sites Call.set_type (builtins first) and design_matrices (capture + extra_namespace) are covered by the bounded tier only", PV),
 "C13": ("proof", "Proved for every number of levels and every reference / omitted level: entries, shapes and labels of Treatment.code_with_intercept / code_without_intercept and Sum._omit_index / _sum_contrast / code_without_intercept / code_with_intercept (indicator columns with the reference row zero, first level the default reference; sum columns with the omitted level -1, last level the default), ValueError iff the named level is absent, ContrastMatrix.__init__. Rank with the constant, zero column sums, C/T/S argument plumbing and invariance of the column space under coding swaps are checked by the bounded tier (n = 1..12 exhaustive, level permutations, 7 formula templates).",
         "numpy externals assumed (eye, zeros, empty, vstack, column_stack, slicing, region writes); full rank / column space are linear-algebra consequences of the proved closed forms and are only checked numerically", PV),
 "C17": ("proof", "Proved for any number of terms and any widths: CommonEffectsMatrix.evaluate and GroupEffectsMatrix.evaluate produce slices that start at zero, are contiguous in term order and exactly cover the stacked columns (prefix sums of the term widths); __getitem__ returns exactly that slice and raises ValueError iff the name is unknown; GroupEffectsMatrix.evaluate_new_data rebuilds the slices from the new widths without touching the training object; CommonEffectsMatrix.evaluate_new_data keeps them (given unchanged widths); GroupSpecificTerm.eval_new_data widths. Data-frame / numpy / tuple views, label uniqueness, row counts and printing are checked by the bounded tier (25 formulas x training + 4 derived objects).",
         "term objects are read-only references; the constructors' dict comprehension is an assumed contract; np.column_stack layout assumed; prefix-sum lemma checked in Lean; key order of the slices dict not modelled", PV),
}
FRAG = {
 "C08": "Proved fragments: design_matrices selects columns by name from var_names & columns and filters rows with one positional boolean mask; the levels computed by eval_categoric for data that is not an ordered categorical are the sorted distinct values (independent of row order).",
 "C09": "Proved fragments: design_matrices validation and NA branch logic: an accepted call had a non-empty formula, a non-empty frame and a documented policy; 'error' never returns when a used variable has an incomplete row; 'drop' hands on exactly the positional filter of the used columns; 'pass' hands on all rows.",
 "C02": "Proved fragments: Term.__init__ keeps every given factor exactly once and invents none (term identity = the duplicate-free factor list), Term.__eq__ compares exactly that list.",
 "C04": "Proved fragments: Variable.eval_categoric / Call.eval_categoric: for every frame, column j of a treatment-coded categorical is 1 exactly on the rows whose value equals level j (first level dropped when reduced), levels duplicate-free, covering every row value and sorted for data that is not an ordered categorical; Variable/Call.labels: as many labels as columns, label j = name[level j]; Treatment closed forms and labels (all n, any reference); get_interaction_matrix result[r, a*ny+b] = x[r,a]*y[r,b] for all shapes; group block layout in GroupSpecificTerm.eval_new_data.",
 "C05": "Proved fragments: block structure Z[r, g*p+l] = J[r,g]*X[r,l] (group slowest) and the trailing new-group block of GroupSpecificTerm.eval_new_data; get_interaction_matrix.",
 "C06": "Proved fragments (write-once fitted state, row locality): Center/Scale.__call__ freeze mean/std after the first call and apply the same affine map; BSpline.__call__ never re-initialises; LazyCall.eval creates the transform instance once; Polynomial.__init__ allocates fresh memo dicts; eval_new_data_categoric indexes the remembered contrast rows.",
 "C07": "Proved fragments (per-call frames): fresh-write obligations (in-place numpy writes only on arrays allocated in the activation) in eval_new_data_categoric, GroupSpecificTerm.eval_new_data, BSpline.eval, Sum._sum_contrast; frame obligations (unlisted fields unchanged) on every function under contract; write-once state as in C06; Config stores.",
 "C12": "Proved fragments: operator tables of CallResolver / LazyOperator (table obligations); LazyValue.eval; parser precedence facts come from C01.",
 "C14": "Proved fragments: Center/Scale affine map with frozen parameters; BSpline.eval column count = len(knots) - order - [no intercept]; BSpline.__call__ write-once; Polynomial.__init__ fresh state.",
 "C15": "Proved fragments: Variable.eval_categoric: a response written y[level] is a single column that is 1 exactly where y equals the level, a categorical response coded full is one indicator column per level; Proportion.__init__ validation (raises iff a non-integer or successes > trials exists) and Proportion.eval two columns.",
 "C16": "Proved fragments: binary (indicator of the given / smallest value, ValueError iff the given value never occurs), Proportion.__init__ / eval, TRANSFORMS alias table (table obligation).",
}
DEFAULT_NOTE = "bounded: the stated input family only; numeric comparisons to tolerance; no deductive obligations are counted for this property yet"
SUMMARY = {
 "C02": "executable set-semantics specification expand() over the parser AST compared with model_description on all operator trees with <=2 (thorough: sampled 3) binary operators over 7 atoms, powers, 20 effect x 5 grouping expressions and intercept contexts",
 "C03": "full column rank and equality of column space with the complete-indicator model space, numerically, for all 1- and 2-term and 5000 (thorough 40000) 3-term families over f g h x z in every term/factor order, with/without intercept, with C/T/S/scale atoms, on replicated complete-factorial data; the inputs that fail on the pinned tree are listed one by one in known/C03_failing.json.gz",
 "C04": "every column recomputed from its label (indicator / product / group slot) and level order checked for 2856 formulas over numeric, str, unordered/ordered Categorical, C(k), C(k, levels=), T(f, ref) atoms with unequal level counts",
 "C05": "block structure, group/cell order, per-grouping-factor rank and span of 23 effect x 6 grouping expressions + 10 multi-term combinations on fully crossed data",
 "C06": "evaluate_new_data on 15 row multisets of the training frame equals the training rows, for 58 formulas (stateful transforms nested/interacting, C/T/S, categoricals, group terms)",
 "C07": "operation sequences (build / evaluate-common / evaluate-group / set-config) compared step by step with the same operation in a pristine forked process; all earlier designs, results and caller frames re-compared after every step",
 "C08": "26 formulas x 14 frame transformations (row permutations, re-indexing incl. non-unique, column order, unused columns, NaN rows under a non-unique index)",
 "C09": "16 formulas x ~14 missingness patterns x drop/error/pass against the manually filtered frame, refused policies",
 "C10": "33 (formula, variable) cases x 3 placements of unseen values x 3 modes x common/group against a reference evaluation with seen values; 56 configuration stores",
 "C11": "every subset of {data, locals, globals, extra_namespace} x builtin/non-builtin names, argument / keyword argument / callee roles, plain / dotted / backquoted names, env 0..3 through nested callers, None-valued bindings",
 "C12": "2400 (thorough 40000) generated call terms with operator chains and random blanks compared with Python's eval (value, received arguments, term name); term identity cases",
 "C13": "level counts 1..12 x every reference/omit (exhaustive), C/T/S spellings x level permutations on four data flavours, coding swaps in 7 templates (column space unchanged)",
 "C14": "center/scale identities and frozen affine map, bs shape/non-negativity/partition of unity/refusals over df x knots x degree 0..5 x intercept x bounds, poly orthonormality/span/raw powers, on generated vectors",
 "C15": "18 response forms x 8 right-hand sides: response values/kind/levels, single-term refusal, predictor matrices independent of the response, no response",
 "C16": "alias table identities; binary/B pointwise over all occurring/absent/falsy/default success values; offset and prop at training and on new frames; I(e); synonym pairs",
 "C17": "25 formulas: slices, indexing, data-frame/numpy/tuple views, unique labels, row counts and printing for training matrices and four derived evaluate_new_data objects each (with and without unseen groups)",
}
checks = []
for p in props:
    pid = p["id"]
    if pid in T:
        cat, text, note, tech = T[pid]
    else:
        frag = FRAG.get(pid)
        text = ((frag + " The property as a whole is decided by the bounded stand-in: ") if frag else "Bounded stand-in: ") + SUMMARY[pid] + ". " + BOUNDED + "."
        cat, note = "exploration", (DEFAULT_NOTE if not frag else "the deductive obligations listed in the evidence are discharged for all inputs but do not by themselves decide the property; the deciding step is bounded (stated input family, numeric tolerances)")
        tech = ("runtime-checked contracts over enumerated inputs (bounded stand-in)" + (" + discharged pyvc obligations on fragments" if frag else ""))
    checks.append({"property_id": pid, "quick_cmd": f"./check {pid} --tier quick", "thorough_cmd": f"./check {pid} --tier thorough",
                   "evidence_file": f"evidence/{pid}.json", "replay_cmd_template": f"./check {pid} --replay {{path}}",
                   "engine": "pyvc+rtc" if (cat == "proof" or pid in FRAG) else "rtc",
                   "level_claimed": {"category": cat, "text": text, "design_ref": f"DESIGN.md section 4, {pid}"},
                   "level_note": note, "technique": tech})
man = {"version": 1, "setup_cmd": "./setup.sh",
       "hooks": {"guard": "FORMULAE_VERIF", "enable": "no source hooks: contracts are sidecar files under /verif/vf/contracts attached in the checker's own process; formulae is installed editable so every check reads /repo's working tree",
                 "baseline_off_cmd": "cd /repo && /venv/bin/python -m pytest -ra -q -p no:cacheprovider --timeout=900 --continue-on-collection-errors",
                 "source_commits": [], "add_only": True},
       "engines": [{"name": "pyvc", "path": "vf/pyvc", "serves_properties": sorted(set(T) | set(FRAG)), "kind_free_text": "own verification-condition generator: symbolic execution of the real /repo source (python ast) against sidecar contracts, loops cut by invariants, calls by contract, spec functions as z3 recursive functions with definitional unfolding, obligations discharged by z3"},
                   {"name": "rtc", "path": "vf/rtc + vf/props", "serves_properties": [p["id"] for p in props], "kind_free_text": "contracts / spec functions executed on the real functions over enumerated inputs (bounded stand-in)"}],
       "checks": checks, "not_applicable": [],
       "notes": "DESIGN.md explains the approach; known_findings.jsonl lists repaired defects (fixed:) and recorded findings; known/*.json.gz list the specific failing inputs of the list-based findings; seeded/ holds independently produced property-breaking patches used to test the checks"}
json.dump(man, open(os.path.join(ROOT, "MANIFEST.json"), "w"), indent=1)
print("checks:", len(checks))

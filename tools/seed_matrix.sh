#!/bin/bash
# run every seeded patch against its property's quick check; print one line each (used for DESIGN.md's table)
cd "$(dirname "$0")/.."
EVBAK=$(mktemp -d /tmp/evbak.XXXX); cp -r evidence/. $EVBAK/    # evidence of the clean tree is put back afterwards
for d in seeded/[A-Z]*/; do s=$(basename $d); p=${s%%_*}
  git -C /repo apply /verif/seeded/$s/patch.diff || { echo "$s PATCH-FAILED"; continue; }
  ./check $p --tier quick > /tmp/sm_$s.log 2>&1; e=$?
  git -C /repo checkout -- .
  ob=$(grep -c "what: obligation\|no longer within the verified subset" /tmp/sm_$s.log); inp=$(grep "what:" /tmp/sm_$s.log | grep -vc "what: obligation\|no longer within")
  echo "$s exit=$e proof-obligation-lines=$ob failing-input-lines=$inp :: $(grep -m1 'what:' /tmp/sm_$s.log | cut -c9-170)"
done
cp -r $EVBAK/. evidence/; rm -rf $EVBAK

import sys, os, time
sys.path.insert(0, os.path.dirname(os.path.dirname(os.path.abspath(__file__))))
import vf.common, importlib, z3
from vf.pyvc.ctx import Ctx
from vf.pyvc.source import SourceIndex
from vf.pyvc.stmts import Engine
mod, q, pat = sys.argv[1], sys.argv[2], sys.argv[3]
cm = importlib.import_module(mod)
ctx = Ctx(cm.REG, q); eng = Engine(cm.REG, SourceIndex(), ctx, namespace=vars(cm))
t0=time.time(); eng.verify_function(q); print("explore", time.time()-t0, "paths", ctx.paths, "obs", len(ctx.obligations))
for ob in ctx.obligations.values():
    if pat in ob.name:
        print("==", ob.name, "pc size", len(ob.pc))
        for cfg in [{}, {"smt.mbqi": False}, {"smt.auto_config": False, "smt.mbqi": False}]:
            s = z3.Solver(); s.set("timeout", 5000)
            for k, v in cfg.items(): s.set(k, v)
            for p in ob.pc: s.add(p)
            s.add(z3.Not(ob.goal))
            t1=time.time(); r = s.check(); print(cfg, r, round(time.time()-t1,2), s.reason_unknown() if r==z3.unknown else "")
        if os.environ.get("DUMP") and r != z3.unsat:
            for p in ob.pc: print("  PC:", p)
            print("  GOAL:", ob.goal)
            break

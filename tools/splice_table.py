"""Replace the seed table of DESIGN.md I.7 by the output of tools/seed_table.py <matrix file>. usage: splice_table.py seeded/MATRIX.txt"""
import os, subprocess, sys
root = os.path.dirname(os.path.dirname(os.path.abspath(__file__)))
table = subprocess.run([sys.executable, os.path.join(root, "tools", "seed_table.py"), sys.argv[1]], capture_output=True, text=True, check=True).stdout
p = os.path.join(root, "DESIGN.md")
lines = open(p).read().split("\n")
start = next(i for i, l in enumerate(lines) if l.startswith("| seed | change | caught by |"))
end = start
while end < len(lines) and lines[end].startswith("|"):
    end += 1
lines[start:end] = table.rstrip("\n").split("\n")
open(p, "w").write("\n".join(lines))
print(f"table: {end - start} -> {len(table.rstrip().splitlines())} lines")

#!/bin/bash
# Re-validate the installed seeds against /repo's current HEAD (after a fix: commit a seeded patch may no longer apply, or no longer
# break its property): in a scratch worktree, demo without the patch (must exit 0), with it (must exit != 0), tests with it.
# usage: revalidate_seeds.sh [pattern]
set -u
PAT=${1:-*}
W=$(mktemp -d /tmp/valwt.XXXX); rmdir $W
git -C /repo worktree add -q --detach $W HEAD
for d in /verif/seeded/$PAT/; do
  k=$(basename $d); p=$d/patch.diff; demo=$d/demo.py
  [ -f "$p" ] || continue
  cd $W; git checkout -q -- . ; git clean -fdq
  if ! git apply --check $p 2>/dev/null; then echo "$k PATCH-DOES-NOT-APPLY"; continue; fi
  cp $demo $W/demo_$k.py
  PYTHONPATH=$W timeout 300 /venv/bin/python demo_$k.py >/dev/null 2>&1; o=$?
  git apply $p
  t=$(PYTHONPATH=$W /venv/bin/python -m pytest -q -p no:cacheprovider tests 2>&1 | tail -1)
  PYTHONPATH=$W timeout 300 /venv/bin/python demo_$k.py >/dev/null 2>&1; m=$?
  git apply -R $p
  echo "$k orig_exit=$o mut_exit=$m tests='$t'"
done
cd /; git -C /repo worktree remove --force $W

#!/bin/bash
# run every thorough check once; print exit codes and times
cd "$(dirname "$0")/.."
[ -d .pydeps ] || ./setup.sh
for p in C01 C02 C03 C04 C05 C06 C07 C08 C09 C10 C11 C12 C13 C14 C15 C16 C17; do
  s=$(date +%s); ./check $p --tier thorough > /tmp/thorough_$p.log 2>&1; e=$?; t=$(( $(date +%s) - s ))
  echo "$p exit=$e ${t}s $(grep -c '^VIOLATION' /tmp/thorough_$p.log) violations"; grep -E "^(VIOLATION|UNDECIDED|CHECKER)" -A1 /tmp/thorough_$p.log | head -6
done

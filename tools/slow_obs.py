"""List obligations slower than a threshold, per contract module (to find proofs close to their time-out)."""
import sys, os, importlib
sys.path.insert(0, os.path.dirname(os.path.dirname(os.path.abspath(__file__))))
import vf.common
from vf.pyvc import prove
thr = float(sys.argv[1]) if len(sys.argv) > 1 else 2000
for m in sys.argv[2:]:
    cm = importlib.import_module("vf.contracts." + m)
    for r in prove.verify_all("vf.contracts." + m, cm.FUNCTIONS):
        for o in r["obligations"]:
            if o["ms"] >= thr:
                print(f"{o['ms']:8.0f} {o['result']:8s} {o['backend'][:34]:34s} {o['name'][:150]}")

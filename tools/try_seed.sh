#!/bin/bash
# apply a seeded patch to /repo, run a check, undo. usage: try_seed.sh <seed-id> [<prop>] [tier]
s=$1; p=${2:-${s%%_*}}; t=${3:-quick}
cd /verif
EVBAK=$(mktemp -d /tmp/evbak.XXXX); cp -r evidence/. $EVBAK/    # evidence of the clean tree is put back afterwards
git -C /repo apply /verif/seeded/$s/patch.diff || exit 9
./check $p --tier $t > /tmp/try_$s.log 2>&1; e=$?
git -C /repo checkout -- .
echo "$s on $p: exit=$e  $(grep -c '^VIOLATION' /tmp/try_$s.log) violation lines; first: $(grep -m1 -A1 '^VIOLATION' /tmp/try_$s.log | tail -1 | cut -c1-200)"
cp -r $EVBAK/. evidence/; rm -rf $EVBAK

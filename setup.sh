#!/bin/sh
# Offline setup: put z3-solver (and jsonschema) for /venv/bin/python (3.12) into /verif/.pydeps.
set -e
cd "$(dirname "$0")"
if [ ! -f .pydeps/z3/__init__.py ] || [ ! -d .pydeps/jsonschema ]; then
  rm -rf .pydeps
  PIP_NO_INDEX=1 /venv/bin/python -m pip install --quiet --no-index --find-links /opt/veriftools/wheels \
      --target .pydeps z3-solver jsonschema >/dev/null 2>&1 || \
  PIP_NO_INDEX=1 /venv/bin/python -m pip install --no-index --find-links /opt/veriftools/wheels \
      --target .pydeps z3-solver jsonschema
fi
/venv/bin/python - <<'PY'
import sys; sys.path.insert(0, "/verif/.pydeps")
import z3, jsonschema, formulae
print("setup ok: z3", z3.get_version_string(), "formulae from", formulae.__file__)
PY
